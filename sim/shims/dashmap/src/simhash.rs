use std::hash::{BuildHasher, Hasher};
#[derive(Clone, Debug)]
pub struct RandomState(u64);
impl Default for RandomState { fn default() -> Self { RandomState(simrt::hash_seed()) } }
impl RandomState { pub fn new() -> Self { Self::default() } }
pub struct H(u64);
impl Hasher for H {
    fn finish(&self) -> u64 { let mut z = self.0; z = (z ^ (z >> 30)).wrapping_mul(0xBF58476D1CE4E5B9); z = (z ^ (z >> 27)).wrapping_mul(0x94D049BB133111EB); z ^ (z >> 31) }
    fn write(&mut self, bytes: &[u8]) { for b in bytes { self.0 = (self.0 ^ (*b as u64)).wrapping_mul(0x100000001b3); } }
}
impl BuildHasher for RandomState { type Hasher = H; fn build_hasher(&self) -> H { H(self.0 ^ 0xcbf29ce484222325) } }
