pub use simrt::RawRwLock;
pub type RwLock<T> = lock_api::RwLock<RawRwLock, T>;
pub type RwLockReadGuard<'a, T> = lock_api::RwLockReadGuard<'a, RawRwLock, T>;
pub type RwLockWriteGuard<'a, T> = lock_api::RwLockWriteGuard<'a, RawRwLock, T>;
