//! Facade over tokio.  The runtime, timers, sync primitives and `spawn` are the real ones; only
//! the blocking pool is replaced: `spawn_blocking` runs its closure on a *simulated* thread, and
//! completion (or the closure's panic) is delivered through a oneshot awaited by a real tokio
//! task, so `JoinHandle` / `JoinError` semantics are kept.
pub use real_tokio::*;

pub mod task {
    pub use real_tokio::task::*;
    use std::cell::RefCell;

    thread_local! {
        static BLOCKING: RefCell<Vec<simrt::JoinHandle>> = const { RefCell::new(Vec::new()) };
    }

    /// Handles of the simulated threads started by `spawn_blocking` from this thread since the
    /// last call (lets the simulation driver wait for the background scan in simulated time).
    pub fn take_blocking_handles() -> Vec<simrt::JoinHandle> {
        BLOCKING.with(|b| std::mem::take(&mut *b.borrow_mut()))
    }

    pub fn spawn_blocking<F, R>(f: F) -> JoinHandle<R>
    where
        F: FnOnce() -> R + Send + 'static,
        R: Send + 'static,
    {
        if !simrt::in_sim() {
            return real_tokio::task::spawn_blocking(f);
        }
        let (tx, rx) = real_tokio::sync::oneshot::channel::<Result<R, String>>();
        let h = simrt::spawn(move || {
            let r = simrt::catch(f);
            let _ = tx.send(r);
        });
        BLOCKING.with(|b| b.borrow_mut().push(h));
        real_tokio::spawn(async move {
            match rx.await {
                Ok(Ok(r)) => r,
                Ok(Err(msg)) => panic!("blocking task panicked: {}", msg),
                Err(_) => panic!("blocking task dropped"),
            }
        })
    }
}
