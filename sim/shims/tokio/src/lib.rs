//! Facade over tokio.  The runtime, timers, sync primitives and `spawn` are the real ones; only
//! the blocking pool is replaced: `spawn_blocking` runs its closure on a *simulated* thread, and
//! completion (or the closure's panic) is delivered through a oneshot awaited by a real tokio
//! task, so `JoinHandle` / `JoinError` semantics are kept.
pub use real_tokio::*;

pub mod task {
    pub use real_tokio::task::*;

    pub fn spawn_blocking<F, R>(f: F) -> JoinHandle<R>
    where
        F: FnOnce() -> R + Send + 'static,
        R: Send + 'static,
    {
        if !simrt::in_sim() {
            return real_tokio::task::spawn_blocking(f);
        }
        let (tx, rx) = real_tokio::sync::oneshot::channel::<Result<R, String>>();
        let _h = simrt::spawn(move || {
            let r = simrt::catch(f);
            let _ = tx.send(r);
        });
        real_tokio::spawn(async move {
            match rx.await {
                Ok(Ok(r)) => r,
                Ok(Err(msg)) => panic!("blocking task panicked: {}", msg),
                Err(_) => panic!("blocking task dropped"),
            }
        })
    }
}
