//! rayon shim: `par_iter().for_each` runs on W simulated worker threads; each worker pulls the
//! *next item chosen by the scheduler's PRNG* (recorded decision), so with W >= 2 every per-item
//! order and interleaving is reachable, and with W = 1 items run in list order exactly as real
//! rayon does on a one-thread pool.  Outside a simulation it is a plain sequential loop.
pub mod prelude {
    pub use crate::{IntoParallelRefIterator, ParIter};
}
use std::sync::Mutex;

pub struct ParIter<'a, T> {
    items: &'a [T],
}
pub trait IntoParallelRefIterator<'a> {
    type Item;
    fn par_iter(&'a self) -> ParIter<'a, Self::Item>;
}
impl<'a, T: 'a + Sync> IntoParallelRefIterator<'a> for Vec<T> {
    type Item = T;
    fn par_iter(&'a self) -> ParIter<'a, T> {
        ParIter { items: self }
    }
}
impl<'a, T: 'a + Sync> IntoParallelRefIterator<'a> for [T] {
    type Item = T;
    fn par_iter(&'a self) -> ParIter<'a, T> {
        ParIter { items: self }
    }
}

fn call<'a, T: 'a, F: Fn(&'a T)>(f_ptr: usize, item_ptr: usize) {
    let f = unsafe { &*(f_ptr as *const F) };
    let it = unsafe { &*(item_ptr as *const T) };
    f(it)
}

/// Joins the workers even when the calling frame unwinds (they hold raw pointers into it).
struct JoinAll(Vec<simrt::JoinHandle>);
impl Drop for JoinAll {
    fn drop(&mut self) {
        for h in self.0.drain(..) {
            h.join();
        }
    }
}

impl<'a, T: Sync + 'a> ParIter<'a, T> {
    pub fn for_each<F: Fn(&'a T) + Sync + Send>(self, f: F) {
        if !simrt::in_sim() {
            for it in self.items {
                f(it);
            }
            return;
        }
        let n = simrt::workers().max(1);
        let len = self.items.len();
        if len == 0 {
            return;
        }
        let items_ptr = self.items.as_ptr() as usize;
        let f_ptr = &f as *const F as usize;
        let remaining: Mutex<Vec<usize>> = Mutex::new((0..len).collect());
        let rem_ptr = &remaining as *const Mutex<Vec<usize>> as usize;
        let tramp: fn(usize, usize) = call::<T, F>;
        let sz = std::mem::size_of::<T>();
        let single = n == 1;
        let mut guard = JoinAll(vec![]);
        for _ in 0..n.min(len) {
            guard.0.push(simrt::spawn(move || {
                let remaining = unsafe { &*(rem_ptr as *const Mutex<Vec<usize>>) };
                loop {
                    simrt::user_yield(0x5ea1);
                    let i = {
                        let mut r = remaining.lock().unwrap();
                        if r.is_empty() {
                            break;
                        }
                        let k = if single { 0 } else { simrt::rand_below(r.len() as u32) as usize };
                        r.remove(k)
                    };
                    tramp(f_ptr, items_ptr + i * sz);
                }
            }));
        }
        drop(guard); // joins; on abort simrt unwinds children before parents, so the frame outlives them
    }
}
