//! simrt — deterministic scheduler for the pytest-language-server simulation.
//!
//! Model: real OS threads, one baton.  Exactly one simulated thread runs at any instant; every
//! other one is parked on its own condvar.  At every *yield point* the running thread takes the
//! scheduler mutex, logs the event, asks the strategy who runs next and, if that is someone else,
//! hands the baton over and parks.  The choice of who runs (and the values returned by
//! `rand_below`) are the only things not fixed by the code under test, so one decision list is
//! one execution.
//!
//! Logging never draws from the PRNG and never reads a clock.

use std::cell::{Cell, RefCell};
use std::collections::BTreeMap;
use std::sync::atomic::{AtomicIsize, AtomicU32, Ordering};
use std::sync::{Arc, Condvar, Mutex, MutexGuard};

pub mod sync;

// ---------------------------------------------------------------------------------------------
// configuration / outcome
// ---------------------------------------------------------------------------------------------

#[derive(Clone, Debug, PartialEq)]
pub enum Strategy {
    /// At each yield point switch to another runnable thread with probability p/1000.
    /// p = 0 is "coarse": a thread runs until it blocks or finishes.
    Random { switch_per_mille: u32 },
    /// PCT: random distinct priorities, `depth - 1` priority-change points over `est_steps`.
    Pct { depth: u32, est_steps: u64 },
}

#[derive(Clone, Debug)]
pub struct Cfg {
    /// seeds the schedule PRNG
    pub seed: u64,
    /// seeds std `RandomState` keys (via the interposed `getrandom`) and the DashMap hasher
    pub hash_seed: u64,
    pub strategy: Strategy,
    /// DashMap shard count handed to the patched dashmap (power of two, 1 allowed)
    pub shards: usize,
    /// worker count handed to the rayon shim
    pub workers: usize,
    /// total scheduler steps allowed
    pub max_steps: u64,
    /// explicit decision list to follow first (replay / minimisation)
    pub replay: Option<Vec<u32>>,
    /// keep the full event list (otherwise only its hash)
    pub trace: bool,
}

impl Default for Cfg {
    fn default() -> Self {
        Cfg {
            seed: 1,
            hash_seed: 1,
            strategy: Strategy::Random { switch_per_mille: 50 },
            shards: 4,
            workers: 2,
            max_steps: 2_000_000,
            replay: None,
            trace: false,
        }
    }
}

#[derive(Clone, Debug, PartialEq)]
pub enum AbortKind {
    Deadlock,
    StepBudget,
    Panic,
    Harness,
}

#[derive(Clone, Debug)]
pub struct AbortInfo {
    pub kind: AbortKind,
    pub thread: usize,
    pub detail: String,
}

#[derive(Clone, Debug, Default)]
pub struct Outcome {
    pub steps: u64,
    pub switches: u64,
    pub decisions: Vec<u32>,
    pub abort: Option<AbortInfo>,
    pub log_hash: u64,
    pub threads: usize,
    pub thread_steps: Vec<u64>,
    /// (held lock id, requested lock id, held-is-write, requested-is-write) -> count
    pub lock_edges: BTreeMap<(u32, u32, bool, bool), u64>,
    pub max_held_depth: usize,
    pub blocked_events: u64,
    pub readers_admitted_past_waiting_writer: u64,
    pub time_jumps: u64,
    pub events: Vec<(u64, u32, u8, u32)>,
}

// event kinds
pub const EV_RQ: u8 = 1; // read requested
pub const EV_WQ: u8 = 2; // write requested
pub const EV_R: u8 = 3; // read granted
pub const EV_W: u8 = 4; // write granted
pub const EV_U: u8 = 5; // released
pub const EV_MQ: u8 = 6; // mutex requested
pub const EV_M: u8 = 7; // mutex granted
pub const EV_MU: u8 = 8; // mutex released
pub const EV_SPAWN: u8 = 9;
pub const EV_JOIN: u8 = 10;
pub const EV_EXIT: u8 = 11;
pub const EV_USER: u8 = 12;
pub const EV_RAND: u8 = 13;
pub const EV_BLOCK: u8 = 14;

// ---------------------------------------------------------------------------------------------
// state
// ---------------------------------------------------------------------------------------------

#[derive(Clone, Copy, PartialEq, Debug)]
enum St {
    Runnable,
    BlockedLock(u32),
    BlockedJoin(usize),
    /// parked until the global step counter reaches the value (virtual time = scheduler steps)
    Sleeping(u64),
    Finished,
}

struct Th {
    st: St,
    cv: Arc<Condvar>,
    held: Vec<(u32, bool)>,
    steps: u64,
    prio: u64,
    waiting_write: Option<u32>,
}

struct State {
    rng: u64,
    strategy: Strategy,
    threads: Vec<Th>,
    current: usize,
    next_obj_id: u32,
    steps: u64,
    max_steps: u64,
    switches: u64,
    decisions: Vec<u32>,
    replay: Option<Vec<u32>>,
    replay_pos: usize,
    abort: Option<AbortInfo>,
    log_hash: u64,
    trace: bool,
    events: Vec<(u64, u32, u8, u32)>,
    lock_edges: BTreeMap<(u32, u32, bool, bool), u64>,
    max_held_depth: usize,
    blocked_events: u64,
    readers_past_writer: u64,
    pct_change_points: Vec<u64>,
    pct_next: usize,
    time_jumps: u64,
    os_handles: Vec<std::thread::JoinHandle<()>>,
    live: usize,
}

pub struct Inner {
    m: Mutex<State>,
    done: Condvar,
    pub shards: usize,
    pub workers: usize,
    pub hash_seed: u64,
}

thread_local! {
    static CUR: RefCell<Option<(Arc<Inner>, usize)>> = const { RefCell::new(None) };
    /// Seed for the interposed `getrandom` on this OS thread.
    pub static HASH_SEED: Cell<u64> = const { Cell::new(0x5eed_0000_0000_0001) };
    static LAST_PANIC: RefCell<Option<String>> = const { RefCell::new(None) };
    static QUIET_PANICS: Cell<bool> = const { Cell::new(false) };
}

pub fn splitmix(x: &mut u64) -> u64 {
    *x = x.wrapping_add(0x9E3779B97F4A7C15);
    let mut z = *x;
    z = (z ^ (z >> 30)).wrapping_mul(0xBF58476D1CE4E5B9);
    z = (z ^ (z >> 27)).wrapping_mul(0x94D049BB133111EB);
    z ^ (z >> 31)
}

/// Private payload used to unwind parked threads when a run is aborted.
pub struct AbortUnwind;

pub fn current() -> Option<(Arc<Inner>, usize)> {
    CUR.with(|c| c.borrow().clone())
}
pub fn in_sim() -> bool {
    CUR.with(|c| c.borrow().is_some())
}
pub fn thread_index() -> usize {
    current().map(|(_, i)| i).unwrap_or(usize::MAX)
}
/// DashMap shard count for maps created by this simulated thread (4 outside a simulation).
pub fn shards() -> usize {
    current().map(|(i, _)| i.shards).unwrap_or(4)
}
pub fn workers() -> usize {
    current().map(|(i, _)| i.workers).unwrap_or(1)
}
pub fn hash_seed() -> u64 {
    current().map(|(i, _)| i.hash_seed).unwrap_or(0x51ed)
}

fn lock_state(inner: &Inner) -> MutexGuard<'_, State> {
    match inner.m.lock() {
        Ok(g) => g,
        Err(p) => p.into_inner(),
    }
}

impl State {
    fn log(&mut self, thread: usize, kind: u8, obj: u32) {
        self.steps += 1;
        let mut h = self.log_hash;
        for v in [self.steps, thread as u64, kind as u64, obj as u64] {
            h ^= v;
            h = h.wrapping_mul(0x100000001b3);
        }
        self.log_hash = h;
        if self.trace {
            self.events.push((self.steps, thread as u32, kind, obj));
        }
    }

    /// Wake sleepers whose deadline has passed; when nothing else can run, jump to the earliest
    /// deadline (discrete-event style) instead of declaring a deadlock.
    fn wake_sleepers(&mut self) {
        let now = self.steps;
        for t in self.threads.iter_mut() {
            if let St::Sleeping(at) = t.st {
                if at <= now {
                    t.st = St::Runnable;
                }
            }
        }
        if !self.threads.iter().any(|t| t.st == St::Runnable) {
            let mut best: Option<(u64, usize)> = None;
            for (i, t) in self.threads.iter().enumerate() {
                if let St::Sleeping(at) = t.st {
                    if best.map(|b| at < b.0).unwrap_or(true) {
                        best = Some((at, i));
                    }
                }
            }
            if let Some((_, i)) = best {
                self.threads[i].st = St::Runnable;
                self.time_jumps += 1;
            }
        }
    }

    fn runnable(&self) -> Vec<usize> {
        self.threads
            .iter()
            .enumerate()
            .filter(|(_, t)| t.st == St::Runnable)
            .map(|(i, _)| i)
            .collect()
    }

    fn next_replay(&mut self) -> Option<u32> {
        if let Some(rep) = &self.replay {
            if self.replay_pos < rep.len() {
                let d = rep[self.replay_pos];
                self.replay_pos += 1;
                return Some(d);
            }
        }
        None
    }

    fn replaying(&self) -> bool {
        self.replay.is_some()
    }

    /// Choose who runs next. `me_ok` = the asking thread may continue.
    fn choose(&mut self, me: usize, me_ok: bool) -> Option<usize> {
        self.wake_sleepers();
        let r = self.runnable();
        if r.is_empty() {
            return None;
        }
        if r.len() == 1 {
            return Some(r[0]);
        }
        let default = if me_ok && r.contains(&me) { me } else { r[0] };
        let pick = if self.replaying() {
            match self.next_replay() {
                Some(d) if r.contains(&(d as usize)) => d as usize,
                _ => default,
            }
        } else {
            match self.strategy.clone() {
                Strategy::Random { switch_per_mille } => {
                    let x = splitmix(&mut self.rng);
                    if me_ok && r.contains(&me) && ((x % 1000) as u32) >= switch_per_mille {
                        me
                    } else {
                        let others: Vec<usize> =
                            r.iter().copied().filter(|&t| !(t == me && me_ok)).collect();
                        let pool = if others.is_empty() { r.clone() } else { others };
                        pool[((x >> 20) as usize) % pool.len()]
                    }
                }
                Strategy::Pct { .. } => {
                    // priority change points lower the priority of the thread that hits them
                    while self.pct_next < self.pct_change_points.len()
                        && self.steps >= self.pct_change_points[self.pct_next]
                    {
                        if me < self.threads.len() {
                            // lower than every initial priority; later points are lower still
                            self.threads[me].prio = (self.pct_change_points.len() - self.pct_next) as u64;
                        }
                        self.pct_next += 1;
                    }
                    let mut best = r[0];
                    for &t in &r {
                        if self.threads[t].prio > self.threads[best].prio {
                            best = t;
                        }
                    }
                    best
                }
            }
        };
        self.decisions.push(pick as u32);
        Some(pick)
    }

    fn describe_threads(&self) -> String {
        self.threads
            .iter()
            .enumerate()
            .map(|(i, t)| format!("T{}:{:?} held={:?}", i, t.st, t.held))
            .collect::<Vec<_>>()
            .join(" | ")
    }

    fn set_abort(&mut self, kind: AbortKind, thread: usize, detail: String) {
        if self.abort.is_none() {
            self.abort = Some(AbortInfo { kind, thread, detail });
        }
        for t in self.threads.iter() {
            t.cv.notify_all();
        }
    }

    fn new_thread(&mut self) -> usize {
        let prio = 1_000_000 + (splitmix(&mut self.rng) >> 16);
        self.threads.push(Th {
            st: St::Runnable,
            cv: Arc::new(Condvar::new()),
            held: vec![],
            steps: 0,
            prio,
            waiting_write: None,
        });
        self.live += 1;
        self.threads.len() - 1
    }
}

/// Unwind the calling thread because the run is aborted.  Threads unwind in decreasing index
/// order: a thread can only borrow from threads spawned before it, so every borrower is gone
/// before the frame it borrows from is destroyed.
fn abort_unwind(mut g: MutexGuard<'_, State>, me: usize) -> ! {
    let cv = g.threads[me].cv.clone();
    while g.threads.iter().skip(me + 1).any(|t| t.st != St::Finished) {
        g = match cv.wait(g) {
            Ok(g) => g,
            Err(p) => p.into_inner(),
        };
    }
    drop(g);
    std::panic::resume_unwind(Box::new(AbortUnwind))
}

/// Hand the baton to whoever the strategy picks, then wait until it is ours again.
fn handoff(inner: &Arc<Inner>, mut g: MutexGuard<'_, State>, me: usize, me_ok: bool) {
    match g.choose(me, me_ok) {
        None => {
            if g.threads.iter().any(|t| t.st != St::Finished) && g.abort.is_none() {
                let d = g.describe_threads();
                g.set_abort(AbortKind::Deadlock, me, d);
            }
        }
        Some(n) => {
            if n != me {
                g.switches += 1;
                g.current = n;
                g.threads[n].cv.notify_all();
            }
        }
    }
    let cv = g.threads[me].cv.clone();
    loop {
        if g.abort.is_some() {
            if std::thread::panicking() {
                return;
            }
            abort_unwind(g, me);
        }
        if g.current == me && g.threads[me].st == St::Runnable {
            return;
        }
        if g.threads[me].st == St::Finished {
            return;
        }
        g = match cv.wait(g) {
            Ok(g) => g,
            Err(p) => p.into_inner(),
        };
    }
    #[allow(unreachable_code)]
    {
        let _ = inner;
    }
}

/// A scheduling point. `kind` and `obj` only feed the event log.
pub fn yield_point(kind: u8, obj: u32) {
    let Some((inner, me)) = current() else { return };
    if std::thread::panicking() {
        return;
    }
    let mut g = lock_state(&inner);
    if g.abort.is_some() {
        abort_unwind(g, me);
    }
    g.log(me, kind, obj);
    g.threads[me].steps += 1;
    if g.steps > g.max_steps {
        let d = format!("step budget {} exhausted; {}", g.max_steps, g.describe_threads());
        g.set_abort(AbortKind::StepBudget, me, d);
        abort_unwind(g, me);
    }
    handoff(&inner, g, me, true);
}

/// Harness-visible scheduling point (driver actions, shim item pulls, …).
pub fn user_yield(tag: u32) {
    yield_point(EV_USER, tag);
}

/// A recorded random draw in [0, n). Outside a simulation returns 0.
pub fn rand_below(n: u32) -> u32 {
    let Some((inner, me)) = current() else { return 0 };
    if n <= 1 {
        return 0;
    }
    let mut g = lock_state(&inner);
    let v = if g.replaying() {
        match g.next_replay() {
            Some(d) if d < n => d,
            _ => 0,
        }
    } else {
        (splitmix(&mut g.rng) % n as u64) as u32
    };
    g.decisions.push(v);
    g.log(me, EV_RAND, v);
    v
}

/// Park the calling thread until `n` more scheduler steps have been executed by anyone (virtual
/// time).  If nobody else can run, the clock jumps.
pub fn sleep_steps(n: u64) {
    let Some((inner, me)) = current() else { return };
    if n == 0 || std::thread::panicking() {
        return;
    }
    let mut g = lock_state(&inner);
    if g.abort.is_some() {
        abort_unwind(g, me);
    }
    g.log(me, EV_USER, 0x51ee);
    let at = g.steps + n;
    g.threads[me].st = St::Sleeping(at);
    handoff(&inner, g, me, false);
}

/// Number of scheduler steps executed so far by the calling simulated thread.
pub fn own_steps() -> u64 {
    let Some((inner, me)) = current() else { return 0 };
    let g = lock_state(&inner);
    g.threads[me].steps
}
pub fn total_steps() -> u64 {
    let Some((inner, _)) = current() else { return 0 };
    let g = lock_state(&inner);
    g.steps
}
pub fn aborting() -> bool {
    let Some((inner, _)) = current() else { return false };
    let g = lock_state(&inner);
    g.abort.is_some()
}
/// Abort the run from harness code (e.g. an invariant failed inside the simulation).
pub fn harness_abort(detail: String) -> ! {
    if let Some((inner, me)) = current() {
        let mut g = lock_state(&inner);
        g.set_abort(AbortKind::Harness, me, detail);
        abort_unwind(g, me);
    }
    panic!("harness_abort outside a simulation: {}", detail)
}

// ---------------------------------------------------------------------------------------------
// threads
// ---------------------------------------------------------------------------------------------

pub struct JoinHandle {
    tid: usize,
}

impl JoinHandle {
    pub fn thread_index(&self) -> usize {
        self.tid
    }
    /// Wait (in simulated time) until the thread has finished.
    pub fn join(self) {
        let Some((inner, me)) = current() else { return };
        let mut g = lock_state(&inner);
        if g.abort.is_some() {
            return;
        }
        g.log(me, EV_JOIN, self.tid as u32);
        if g.threads[self.tid].st != St::Finished {
            g.threads[me].st = St::BlockedJoin(self.tid);
            g.blocked_events += 1;
            handoff(&inner, g, me, false);
        }
    }
    pub fn is_finished(&self) -> bool {
        let Some((inner, _)) = current() else { return true };
        let g = lock_state(&inner);
        g.threads[self.tid].st == St::Finished
    }
}

fn panic_message(e: &Box<dyn std::any::Any + Send>) -> String {
    let base = e
        .downcast_ref::<String>()
        .cloned()
        .or_else(|| e.downcast_ref::<&str>().map(|s| s.to_string()))
        .unwrap_or_else(|| "panic (non-string payload)".into());
    let loc = LAST_PANIC.with(|p| p.borrow_mut().take());
    match loc {
        Some(l) => l,
        None => base,
    }
}

fn thread_main(inner: Arc<Inner>, me: usize, f: Box<dyn FnOnce() + Send>) {
    CUR.with(|c| *c.borrow_mut() = Some((inner.clone(), me)));
    HASH_SEED.with(|c| c.set(inner.hash_seed ^ ((me as u64 + 1).wrapping_mul(0x9E37_79B9_7F4A_7C15))));
    QUIET_PANICS.with(|q| q.set(true));
    // wait for the baton
    let start = {
        let mut g = lock_state(&inner);
        let cv = g.threads[me].cv.clone();
        while g.current != me && g.abort.is_none() {
            g = match cv.wait(g) {
                Ok(g) => g,
                Err(p) => p.into_inner(),
            };
        }
        g.abort.is_none()
    };
    let r = if start { std::panic::catch_unwind(std::panic::AssertUnwindSafe(f)) } else { Ok(()) };
    let mut g = lock_state(&inner);
    g.threads[me].st = St::Finished;
    g.live -= 1;
    if let Err(e) = r {
        if e.downcast_ref::<AbortUnwind>().is_none() {
            let msg = panic_message(&e);
            g.set_abort(AbortKind::Panic, me, msg);
        }
    }
    if g.abort.is_none() {
        g.log(me, EV_EXIT, me as u32);
        for t in g.threads.iter_mut() {
            if t.st == St::BlockedJoin(me) {
                t.st = St::Runnable;
            }
        }
        match g.choose(me, false) {
            Some(n) => {
                g.current = n;
                g.threads[n].cv.notify_all();
            }
            None => {
                if g.threads.iter().any(|t| t.st != St::Finished) {
                    let d = g.describe_threads();
                    g.set_abort(AbortKind::Deadlock, me, d);
                }
            }
        }
    }
    if g.abort.is_some() {
        for t in g.threads.iter() {
            t.cv.notify_all();
        }
    }
    if g.live == 0 {
        inner.done.notify_all();
    }
    drop(g);
    CUR.with(|c| *c.borrow_mut() = None);
}

/// Spawn a simulated thread (a fresh OS thread that runs only while it holds the baton).
pub fn spawn<F: FnOnce() + Send + 'static>(f: F) -> JoinHandle {
    let (inner, me) = current().expect("simrt::spawn outside a simulation");
    let tid = {
        let mut g = lock_state(&inner);
        let tid = g.new_thread();
        g.log(me, EV_SPAWN, tid as u32);
        tid
    };
    let i2 = inner.clone();
    let h = std::thread::Builder::new()
        .stack_size(2 << 20)
        .spawn(move || thread_main(i2, tid, Box::new(f)))
        .expect("spawn OS thread");
    lock_state(&inner).os_handles.push(h);
    yield_point(EV_SPAWN, tid as u32);
    JoinHandle { tid }
}

/// Run `f` as simulated thread 0 and return when every simulated thread has finished or the run
/// was aborted (deadlock, panic, budget).
pub fn run<R: Send + 'static, F: FnOnce() -> R + Send + 'static>(cfg: Cfg, f: F) -> (Outcome, Option<R>) {
    install_panic_hook();
    let mut rng = cfg.seed ^ 0xA076_1D64_78BD_642F;
    let mut pct_points = vec![];
    if let Strategy::Pct { depth, est_steps } = cfg.strategy {
        for _ in 1..depth.max(1) {
            pct_points.push(1 + splitmix(&mut rng) % est_steps.max(1));
        }
        pct_points.sort();
    }
    let state = State {
        rng,
        strategy: cfg.strategy.clone(),
        threads: vec![],
        current: 0,
        next_obj_id: 1,
        steps: 0,
        max_steps: cfg.max_steps,
        switches: 0,
        decisions: vec![],
        replay: cfg.replay.clone(),
        replay_pos: 0,
        abort: None,
        log_hash: 0xcbf29ce484222325,
        trace: cfg.trace,
        events: vec![],
        lock_edges: BTreeMap::new(),
        max_held_depth: 0,
        blocked_events: 0,
        readers_past_writer: 0,
        pct_change_points: pct_points,
        pct_next: 0,
        time_jumps: 0,
        os_handles: vec![],
        live: 0,
    };
    let inner = Arc::new(Inner {
        m: Mutex::new(state),
        done: Condvar::new(),
        shards: cfg.shards.max(1),
        workers: cfg.workers.max(1),
        hash_seed: cfg.hash_seed,
    });
    let result: Arc<Mutex<Option<R>>> = Arc::new(Mutex::new(None));
    {
        let mut g = lock_state(&inner);
        let t0 = g.new_thread();
        debug_assert_eq!(t0, 0);
    }
    let i2 = inner.clone();
    let r2 = result.clone();
    let h0 = std::thread::Builder::new()
        .stack_size(2 << 20)
        .spawn(move || {
            thread_main(
                i2,
                0,
                Box::new(move || {
                    let r = f();
                    *r2.lock().unwrap() = Some(r);
                }),
            )
        })
        .expect("spawn OS thread");
    // wait for completion
    {
        let mut g = lock_state(&inner);
        while g.live > 0 {
            g = match inner.done.wait(g) {
                Ok(g) => g,
                Err(p) => p.into_inner(),
            };
        }
    }
    let _ = h0.join();
    loop {
        let h = lock_state(&inner).os_handles.pop();
        match h {
            Some(h) => {
                let _ = h.join();
            }
            None => break,
        }
    }
    let g = lock_state(&inner);
    let out = Outcome {
        steps: g.steps,
        switches: g.switches,
        decisions: g.decisions.clone(),
        abort: g.abort.clone(),
        log_hash: g.log_hash,
        threads: g.threads.len(),
        thread_steps: g.threads.iter().map(|t| t.steps).collect(),
        lock_edges: g.lock_edges.clone(),
        max_held_depth: g.max_held_depth,
        blocked_events: g.blocked_events,
        readers_admitted_past_waiting_writer: g.readers_past_writer,
        time_jumps: g.time_jumps,
        events: g.events.clone(),
    };
    drop(g);
    let r = result.lock().unwrap().take();
    (out, r)
}

// ---------------------------------------------------------------------------------------------
// panic capture
// ---------------------------------------------------------------------------------------------

static HOOK: std::sync::Once = std::sync::Once::new();

/// Install a panic hook that records message + location in a thread-local and prints nothing for
/// simulated threads (their panics are reported through `Outcome` / `catch`).
pub fn install_panic_hook() {
    HOOK.call_once(|| {
        let prev = std::panic::take_hook();
        std::panic::set_hook(Box::new(move |info| {
            if info.payload().downcast_ref::<AbortUnwind>().is_some() {
                return;
            }
            let msg = info
                .payload()
                .downcast_ref::<String>()
                .cloned()
                .or_else(|| info.payload().downcast_ref::<&str>().map(|s| s.to_string()))
                .unwrap_or_else(|| "panic".into());
            let loc = info
                .location()
                .map(|l| format!("{}:{}", l.file(), l.line()))
                .unwrap_or_default();
            LAST_PANIC.with(|p| *p.borrow_mut() = Some(format!("{} @ {}", msg, loc)));
            if !QUIET_PANICS.with(|q| q.get()) {
                prev(info);
            }
        }));
    });
}

pub fn set_quiet_panics(q: bool) {
    QUIET_PANICS.with(|c| c.set(q));
}

/// Run `f`, converting a panic of the code under test into `Err(message @ location)`.
/// Scheduler aborts are re-raised.
pub fn catch<R, F: FnOnce() -> R>(f: F) -> Result<R, String> {
    match std::panic::catch_unwind(std::panic::AssertUnwindSafe(f)) {
        Ok(r) => Ok(r),
        Err(e) => {
            if e.downcast_ref::<AbortUnwind>().is_some() {
                std::panic::resume_unwind(e);
            }
            Err(panic_message(&e))
        }
    }
}

// ---------------------------------------------------------------------------------------------
// raw rwlock used by the patched dashmap
// ---------------------------------------------------------------------------------------------

/// Scheduler-owned reader/writer lock with the admission rule of dashmap 6.1.0's lock:
/// a reader is admitted whenever no writer *holds* the lock (a waiting writer does not block
/// readers); a writer waits for zero readers and zero writers; not re-entrant for writers.
pub struct RawRwLock {
    id: AtomicU32,
    state: AtomicIsize, // -1 writer, n >= 0 readers
}

impl RawRwLock {
    fn obj_id(&self, g: &mut State) -> u32 {
        let i = self.id.load(Ordering::Relaxed);
        if i != 0 {
            return i;
        }
        let n = g.next_obj_id;
        g.next_obj_id += 1;
        self.id.store(n, Ordering::Relaxed);
        n
    }

    fn acquire(&self, write: bool) {
        let Some((inner, me)) = current() else {
            // outside a simulation: single-threaded passthrough
            let s = self.state.load(Ordering::Relaxed);
            if write {
                assert!(s == 0, "sim lock contended outside a simulation");
                self.state.store(-1, Ordering::Relaxed);
            } else {
                assert!(s >= 0, "sim lock contended outside a simulation");
                self.state.store(s + 1, Ordering::Relaxed);
            }
            return;
        };
        if std::thread::panicking() {
            // never block while unwinding; pretend success only if it is free
            let s = self.state.load(Ordering::Relaxed);
            if write && s == 0 {
                self.state.store(-1, Ordering::Relaxed);
            } else if !write && s >= 0 {
                self.state.store(s + 1, Ordering::Relaxed);
            }
            return;
        }
        {
            let mut g = lock_state(&inner);
            let _ = self.obj_id(&mut g);
        }
        yield_point(if write { EV_WQ } else { EV_RQ }, self.id.load(Ordering::Relaxed));
        loop {
            let mut g = lock_state(&inner);
            if g.abort.is_some() {
                abort_unwind(g, me);
            }
            let id = self.obj_id(&mut g);
            let s = self.state.load(Ordering::Relaxed);
            let ok = if write { s == 0 } else { s >= 0 };
            if ok {
                self.state.store(if write { -1 } else { s + 1 }, Ordering::Relaxed);
                let held: Vec<(u32, bool)> = g.threads[me].held.clone();
                for (h, hw) in held {
                    *g.lock_edges.entry((h, id, hw, write)).or_insert(0) += 1;
                }
                if !write && g.threads.iter().any(|t| t.waiting_write == Some(id)) {
                    g.readers_past_writer += 1;
                }
                g.threads[me].waiting_write = None;
                g.threads[me].held.push((id, write));
                let depth = g.threads[me].held.len();
                if depth > g.max_held_depth {
                    g.max_held_depth = depth;
                }
                g.log(me, if write { EV_W } else { EV_R }, id);
                return;
            }
            g.threads[me].st = St::BlockedLock(id);
            if write {
                g.threads[me].waiting_write = Some(id);
            }
            g.blocked_events += 1;
            g.log(me, EV_BLOCK, id);
            handoff(&inner, g, me, false);
        }
    }

    fn release(&self, write: bool) {
        let Some((inner, me)) = current() else {
            let s = self.state.load(Ordering::Relaxed);
            self.state.store(if write { 0 } else { (s - 1).max(0) }, Ordering::Relaxed);
            return;
        };
        {
            let mut g = lock_state(&inner);
            let id = self.obj_id(&mut g);
            let s = self.state.load(Ordering::Relaxed);
            self.state.store(if write { 0 } else { (s - 1).max(0) }, Ordering::Relaxed);
            if let Some(p) = g.threads[me].held.iter().rposition(|h| h.0 == id) {
                g.threads[me].held.remove(p);
            }
            for t in g.threads.iter_mut() {
                if t.st == St::BlockedLock(id) {
                    t.st = St::Runnable;
                }
            }
            if g.abort.is_some() {
                return;
            }
        }
        if !std::thread::panicking() {
            yield_point(EV_U, self.id.load(Ordering::Relaxed));
        }
    }
}

unsafe impl lock_api::RawRwLock for RawRwLock {
    #[allow(clippy::declare_interior_mutable_const)]
    const INIT: Self = RawRwLock { id: AtomicU32::new(0), state: AtomicIsize::new(0) };
    type GuardMarker = lock_api::GuardNoSend;
    fn lock_shared(&self) {
        self.acquire(false)
    }
    fn try_lock_shared(&self) -> bool {
        if self.state.load(Ordering::Relaxed) >= 0 {
            self.acquire(false);
            true
        } else {
            false
        }
    }
    unsafe fn unlock_shared(&self) {
        self.release(false)
    }
    fn lock_exclusive(&self) {
        self.acquire(true)
    }
    fn try_lock_exclusive(&self) -> bool {
        if self.state.load(Ordering::Relaxed) == 0 {
            self.acquire(true);
            true
        } else {
            false
        }
    }
    unsafe fn unlock_exclusive(&self) {
        self.release(true)
    }
}

unsafe impl lock_api::RawRwLockDowngrade for RawRwLock {
    unsafe fn downgrade(&self) {
        self.state.store(1, Ordering::Relaxed);
        if let Some((inner, me)) = current() {
            let mut g = lock_state(&inner);
            let id = self.obj_id(&mut g);
            if let Some(h) = g.threads[me].held.iter_mut().rev().find(|h| h.0 == id) {
                h.1 = false;
            }
            for t in g.threads.iter_mut() {
                if t.st == St::BlockedLock(id) {
                    t.st = St::Runnable;
                }
            }
        }
    }
}

// shared by sync::Mutex
pub(crate) fn mutex_acquire(id_cell: &AtomicU32, locked: &std::sync::atomic::AtomicBool) {
    let Some((inner, me)) = current() else {
        assert!(!locked.swap(true, Ordering::SeqCst), "sim mutex contended outside a simulation");
        return;
    };
    if std::thread::panicking() {
        locked.store(true, Ordering::SeqCst);
        return;
    }
    let id = {
        let mut g = lock_state(&inner);
        let mut i = id_cell.load(Ordering::Relaxed);
        if i == 0 {
            i = g.next_obj_id;
            g.next_obj_id += 1;
            id_cell.store(i, Ordering::Relaxed);
        }
        i
    };
    yield_point(EV_MQ, id);
    loop {
        let mut g = lock_state(&inner);
        if g.abort.is_some() {
            abort_unwind(g, me);
        }
        if !locked.load(Ordering::SeqCst) {
            locked.store(true, Ordering::SeqCst);
            let held: Vec<(u32, bool)> = g.threads[me].held.clone();
            for (h, hw) in held {
                *g.lock_edges.entry((h, id, hw, true)).or_insert(0) += 1;
            }
            g.threads[me].held.push((id, true));
            g.log(me, EV_M, id);
            return;
        }
        g.threads[me].st = St::BlockedLock(id);
        g.blocked_events += 1;
        g.log(me, EV_BLOCK, id);
        handoff(&inner, g, me, false);
    }
}

pub(crate) fn mutex_release(id_cell: &AtomicU32, locked: &std::sync::atomic::AtomicBool) {
    let Some((inner, me)) = current() else {
        locked.store(false, Ordering::SeqCst);
        return;
    };
    let id = id_cell.load(Ordering::Relaxed);
    {
        let mut g = lock_state(&inner);
        locked.store(false, Ordering::SeqCst);
        if let Some(p) = g.threads[me].held.iter().rposition(|h| h.0 == id) {
            g.threads[me].held.remove(p);
        }
        for t in g.threads.iter_mut() {
            if t.st == St::BlockedLock(id) {
                t.st = St::Runnable;
            }
        }
        if g.abort.is_some() {
            return;
        }
    }
    if !std::thread::panicking() {
        yield_point(EV_MU, id);
    }
}
