//! Scheduler-aware replacement for `std::sync::Mutex` (same surface as far as the repository
//! uses it: `new`, `lock().unwrap()`, `Debug`).

use std::cell::UnsafeCell;
use std::ops::{Deref, DerefMut};
use std::sync::atomic::{AtomicBool, AtomicU32};

pub struct Mutex<T> {
    id: AtomicU32,
    locked: AtomicBool,
    data: UnsafeCell<T>,
}

unsafe impl<T: Send> Send for Mutex<T> {}
unsafe impl<T: Send> Sync for Mutex<T> {}

pub struct MutexGuard<'a, T> {
    m: &'a Mutex<T>,
}

#[derive(Debug)]
pub struct Never;

impl<T> Mutex<T> {
    pub const fn new(t: T) -> Self {
        Mutex { id: AtomicU32::new(0), locked: AtomicBool::new(false), data: UnsafeCell::new(t) }
    }
    pub fn lock(&self) -> Result<MutexGuard<'_, T>, Never> {
        crate::mutex_acquire(&self.id, &self.locked);
        Ok(MutexGuard { m: self })
    }
}

impl<T: Default> Default for Mutex<T> {
    fn default() -> Self {
        Mutex::new(T::default())
    }
}

impl<T> Deref for MutexGuard<'_, T> {
    type Target = T;
    fn deref(&self) -> &T {
        unsafe { &*self.m.data.get() }
    }
}
impl<T> DerefMut for MutexGuard<'_, T> {
    fn deref_mut(&mut self) -> &mut T {
        unsafe { &mut *self.m.data.get() }
    }
}
impl<T> Drop for MutexGuard<'_, T> {
    fn drop(&mut self) {
        crate::mutex_release(&self.m.id, &self.m.locked);
    }
}
impl<T> std::fmt::Debug for Mutex<T> {
    fn fmt(&self, f: &mut std::fmt::Formatter<'_>) -> std::fmt::Result {
        f.write_str("simrt::sync::Mutex{..}")
    }
}
