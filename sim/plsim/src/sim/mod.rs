//! plsim — deterministic simulation harness for pytest-language-server (see /verif/DESIGN.md).

pub mod batch;
pub mod util;
pub mod simcfg;
pub mod pytext;
pub mod dbsnap;
pub mod checks;
pub mod scen_race;
pub mod ws;
pub mod model;
pub mod scen_resolve;
pub mod observe;
pub mod scen_order;
pub mod scen_static;
pub mod scen_history;
pub mod lspdrv;
pub mod scen_scanedit;
pub mod scen_diag;
pub mod hostile;
pub mod scen_chaos;
pub mod scen_locks;
pub mod scen_discover;
pub mod scen_cli;
pub mod scen_cacherace;

include!(concat!(env!("OUT_DIR"), "/overlay_info.rs"));

/// Interposed `getrandom(2)`: std's `RandomState` (HashMap/HashSet iteration order) and anything
/// else that asks the OS for entropy gets bytes that are a pure function of the simulated
/// thread's seed (DESIGN.md §2 #6).
#[no_mangle]
pub unsafe extern "C" fn getrandom(buf: *mut u8, len: usize, _flags: u32) -> isize {
    let mut s = simrt::HASH_SEED.with(|c| c.get());
    for i in 0..len {
        s = s.wrapping_mul(6364136223846793005).wrapping_add(1442695040888963407);
        *buf.add(i) = (s >> 33) as u8;
    }
    simrt::HASH_SEED.with(|c| c.set(s));
    len as isize
}

fn usage() -> ! {
    eprintln!(
        "usage: plsim check <C01..C20> [--tier quick|thorough]\n       plsim replay <Cxx> <file>\n       plsim selftest\n       plsim cli-child <seed> <args...>"
    );
    std::process::exit(2)
}

/// Process-wide lazily initialised tables that contain a std `RandomState` (e.g. the repository's
/// `STDLIB_MODULES` set) must be created BEFORE the first simulation: creating one inside a simulated
/// thread consumes one tick of that thread's hash-key counter, so the first run of a process would hash
/// differently from every later run (and from its own replay).
pub fn warm_up_process_statics() {
    if std::env::var("PLSIM_NO_WARMUP").is_ok() {
        return; // only for demonstrating that the selftest notices the problem
    }
    let db = crate::fixtures::FixtureDatabase::new();
    let p = std::path::PathBuf::from("/nonexistent/plsim_warmup/conftest.py");
    db.analyze_file(p.clone(), "import pytest\nfrom os import *\nfrom .x import y\npytest_plugins = ['z']\n@pytest.fixture\ndef a(a):\n    '''d'''\n    yield 1\ndef test_a(a):\n    b\n");
    let mut v = std::collections::HashSet::new();
    let _ = db.get_imported_fixtures(&p, &mut v);
    let _ = db.get_available_fixtures(&p);
    let _ = db.detect_fixture_cycles();
    let _ = db.get_completion_context(&p, 5, 7);
    let _ = db.get_unused_fixtures();
    let _ = crate::config::Config::load(std::path::Path::new("/nonexistent/plsim_warmup"));
}

pub fn main() {
    simrt::install_panic_hook();
    warm_up_process_statics();
    let args: Vec<String> = std::env::args().collect();
    match args.get(1).map(|s| s.as_str()) {
        Some("check") | Some("check-inner") => {
            let Some(prop) = args.get(2) else { usage() };
            let mut tier = match std::env::var("VERIF_TIER").ok().as_deref() {
                Some("thorough") => batch::Tier::Thorough,
                _ => batch::Tier::Quick,
            };
            let mut i = 3;
            while i < args.len() {
                if args[i] == "--tier" {
                    tier = match args.get(i + 1).map(|s| s.as_str()) {
                        Some("thorough") => batch::Tier::Thorough,
                        Some("quick") => batch::Tier::Quick,
                        _ => usage(),
                    };
                    i += 1;
                }
                i += 1;
            }
            let Some(spec) = checks::check_spec(prop) else {
                eprintln!("plsim: no check for property {}", prop);
                std::process::exit(2);
            };
            if args[1] == "check" && std::env::var("PLSIM_NO_SUPERVISOR").is_err() {
                std::process::exit(batch::supervise(prop, tier));
            }
            std::process::exit(batch::run_check(&spec, tier));
        }
        Some("exec-one") => {
            let (Some(prop), Some(file)) = (args.get(2), args.get(3)) else { usage() };
            let Some(spec) = checks::check_spec(prop) else { std::process::exit(2) };
            std::process::exit(batch::exec_one(&spec, file));
        }
        Some("replay") => {
            let (Some(prop), Some(file)) = (args.get(2), args.get(3)) else { usage() };
            let Some(spec) = checks::check_spec(prop) else {
                eprintln!("plsim: no check for property {}", prop);
                std::process::exit(2);
            };
            std::process::exit(batch::replay(&spec, file));
        }
        Some("debug-determinism") => {
            // plsim debug-determinism <prop> <scenario> <run_seed> <n>
            let spec = checks::check_spec(&args[2]).expect("prop");
            let scen = spec.scenarios.iter().find(|s| s.name() == args[3]).expect("scenario");
            let seed: u64 = args[4].parse().unwrap();
            let n: usize = args[5].parse().unwrap();
            let input = scen.gen(seed, batch::Tier::Quick);
            let mut seen = std::collections::BTreeMap::new();
            for _ in 0..n {
                let o = scen.exec(&input);
                *seen.entry((o.log_hash, o.state_hash, o.steps)).or_insert(0) += 1;
            }
            println!("{:?}", seen);
            std::process::exit(0);
        }
        Some("selftest") => std::process::exit(checks::selftest()),
        Some("cli-child") => scen_cli::child_main(&args[2..]),
        _ => usage(),
    }
}
