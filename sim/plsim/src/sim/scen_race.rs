//! S-RACE (C09): 2–3 concurrent (re)analyses of distinct files that share fixture names,
//! interleaved at single-map-operation granularity; oracle = multiset equality with some
//! sequential execution (DESIGN.md §7.5).

use super::batch::{RunOut, Scenario, Tier};
use super::dbsnap::{map_snap, MapSnap};
use super::pytext::{gen_items, names_pool, render, GenOpts, Item};
use super::simcfg::{replay_list, SimParams};
use super::util::{fnv, mix, Rng};
use crate::fixtures::FixtureDatabase;
use serde::{Deserialize, Serialize};
use serde_json::Value;
use std::path::{Path, PathBuf};
use std::sync::Arc;

#[derive(Clone, Debug, Serialize, Deserialize)]
pub struct Op {
    pub path: String,
    pub text: String,
    /// true = the scan's no-cleanup path (`analyze_file_from_disk(.., false)`), false = `analyze_file`
    pub fresh: bool,
}

#[derive(Clone, Debug, Serialize, Deserialize)]
pub struct RaceInput {
    pub sim: SimParams,
    pub initial: Vec<Op>,
    pub concurrent: Vec<Op>,
}

pub struct Race;

const PATHS: [&str; 6] = ["/w/conftest.py", "/w/a/conftest.py", "/w/a/test_one.py", "/w/b/test_two.py", "/w/b/conftest.py", "/w/a/helpers.py"];

fn apply(db: &FixtureDatabase, op: &Op) {
    if op.fresh {
        db.analyze_file_from_disk(PathBuf::from(&op.path), &op.text, false);
    } else {
        db.analyze_file(PathBuf::from(&op.path), &op.text);
    }
}

fn permutations(n: usize) -> Vec<Vec<usize>> {
    fn rec(cur: &mut Vec<usize>, used: &mut Vec<bool>, n: usize, out: &mut Vec<Vec<usize>>) {
        if cur.len() == n {
            out.push(cur.clone());
            return;
        }
        for i in 0..n {
            if !used[i] {
                used[i] = true;
                cur.push(i);
                rec(cur, used, n, out);
                cur.pop();
                used[i] = false;
            }
        }
    }
    let mut out = vec![];
    rec(&mut vec![], &mut vec![false; n], n, &mut out);
    out
}

fn names_in(text: &str, pool: &[String]) -> Vec<String> {
    pool.iter().filter(|n| text.contains(n.as_str())).cloned().collect()
}

impl Scenario for Race {
    fn name(&self) -> &'static str {
        "race"
    }
    fn rule(&self) -> &'static str {
        "2-3 simulated threads each run one analyze_file / analyze_file_from_disk on distinct files over a 3-name pool; \
         non-trivial = the concurrent texts (or the versions they replace) share at least one fixture name and the schedule \
         switched threads at least once; distinct = (input hash, decision-list hash)"
    }
    fn runs(&self, tier: Tier) -> u64 {
        match tier {
            Tier::Quick => 60_000,
            Tier::Thorough => 600_000,
        }
    }
    fn shrink_paths(&self) -> Vec<&'static str> {
        vec!["/initial", "/concurrent", "/decisions/0"]
    }

    fn gen(&self, run_seed: u64, _tier: Tier) -> Value {
        let mut rng = Rng::new(run_seed);
        let names = names_pool(3);
        let opts = GenOpts { in_class: false, ..GenOpts::default() };
        let mut paths: Vec<&str> = PATHS.to_vec();
        rng.shuffle(&mut paths);
        let n_init = rng.below(4);
        let mut initial = vec![];
        for p in paths.iter().take(n_init) {
            let items = gen_items(&mut rng, &names, p.contains("test_"), &opts);
            initial.push(Op { path: p.to_string(), text: render(&items).text, fresh: false });
        }
        let k = rng.range(2, 3);
        rng.shuffle(&mut paths);
        let mut concurrent = vec![];
        for p in paths.iter().take(k) {
            let in_initial = initial.iter().any(|o| o.path == *p);
            let items = gen_items(&mut rng, &names, p.contains("test_"), &opts);
            concurrent.push(Op { path: p.to_string(), text: render(&items).text, fresh: !in_initial && rng.chance(600) });
        }
        // bias towards the hazardous pair: one re-analysis drops every definition/usage of a name
        // while another file adds one
        if rng.chance(450) && !initial.is_empty() {
            let n = rng.pick(&names).clone();
            let victim = rng.below(initial.len());
            let vpath = initial[victim].path.clone();
            initial[victim].text = render(&[Item::Fixture(super::pytext::Fx { func: n.clone(), ..Default::default() }), Item::Test(super::pytext::Tst { name: "test_v".into(), params: vec![n.clone()], ..Default::default() })]).text;
            // make sure nobody else in the initial index has it in half of the cases
            if rng.chance(500) {
                for (i, o) in initial.iter_mut().enumerate() {
                    if i != victim {
                        o.text = o.text.replace(n.as_str(), "other");
                    }
                }
            }
            let removal = Op { path: vpath.clone(), text: "import pytest\n".to_string(), fresh: false };
            let adder_path = paths.iter().find(|p| **p != vpath && !initial.iter().any(|o| o.path == **p)).copied().unwrap_or("/w/zz/test_add.py");
            let adder = Op {
                path: adder_path.to_string(),
                text: render(&[Item::Fixture(super::pytext::Fx { func: n.clone(), ..Default::default() }), Item::Test(super::pytext::Tst { name: "test_w".into(), params: vec![n.clone()], ..Default::default() })]).text,
                fresh: rng.chance(500),
            };
            concurrent.retain(|o| o.path != removal.path && o.path != adder.path);
            concurrent.truncate(1);
            concurrent.push(removal);
            concurrent.push(adder);
            rng.shuffle(&mut concurrent);
        }
        let sim = SimParams::dense(&mut rng, 400 * concurrent.len() as u64);
        serde_json::to_value(RaceInput { sim, initial, concurrent }).unwrap()
    }

    fn exec(&self, input: &Value) -> RunOut {
        let mut out = RunOut::default();
        let inp: RaceInput = match serde_json::from_value(input.clone()) {
            Ok(i) => i,
            Err(e) => {
                out.harness_error = Some(format!("bad input: {}", e));
                return out;
            }
        };
        if inp.concurrent.is_empty() {
            return out;
        }
        // distinct files only (minimisation may not violate the scenario's precondition)
        for i in 0..inp.concurrent.len() {
            for j in 0..i {
                if inp.concurrent[i].path == inp.concurrent[j].path {
                    return out;
                }
            }
        }
        let root = Path::new("/w");
        // sequential reference outcomes (outside the simulation, single-threaded)
        let mut seq: Vec<(Vec<usize>, MapSnap)> = vec![];
        for perm in permutations(inp.concurrent.len()) {
            let db = FixtureDatabase::new();
            for op in &inp.initial {
                apply(&db, op);
            }
            for &i in &perm {
                apply(&db, &inp.concurrent[i]);
            }
            seq.push((perm, map_snap(&db, root)));
        }
        // concurrent execution
        let initial = inp.initial.clone();
        let conc = inp.concurrent.clone();
        let (oc, snap) = simrt::run(inp.sim.cfg(replay_list(input, 0)), move || {
            let db = Arc::new(FixtureDatabase::new());
            for op in &initial {
                apply(&db, op);
            }
            let mut hs = vec![];
            for op in conc {
                let d = db.clone();
                hs.push(simrt::spawn(move || apply(&d, &op)));
            }
            for h in hs {
                h.join();
            }
            map_snap(&db, Path::new("/w"))
        });
        out.absorb_outcome(&oc);
        let pool = names_pool(3);
        let mut shared = false;
        for i in 0..inp.concurrent.len() {
            for j in 0..i {
                let mut a = names_in(&inp.concurrent[i].text, &pool);
                if let Some(o) = inp.initial.iter().find(|o| o.path == inp.concurrent[i].path) {
                    a.extend(names_in(&o.text, &pool));
                }
                let mut b = names_in(&inp.concurrent[j].text, &pool);
                if let Some(o) = inp.initial.iter().find(|o| o.path == inp.concurrent[j].path) {
                    b.extend(names_in(&o.text, &pool));
                }
                if a.iter().any(|x| b.contains(x)) {
                    shared = true;
                }
            }
        }
        out.nontrivial = shared && oc.switches > 0;
        let mut dh = 0u64;
        for d in &oc.decisions {
            dh = mix(dh, *d as u64);
        }
        out.fingerprint = mix(fnv(&serde_json::to_string(&(&inp.initial, &inp.concurrent)).unwrap()), dh);
        if let Some(a) = &oc.abort {
            match a.kind {
                simrt::AbortKind::Deadlock => out.violate("race-deadlock", format!("deadlock during concurrent analysis: {}", a.detail)),
                simrt::AbortKind::StepBudget => out.violate("race-livelock", a.detail.clone()),
                simrt::AbortKind::Panic => out.violate("race-panic", format!("panic in T{}: {}", a.thread, a.detail)),
                simrt::AbortKind::Harness => out.harness_error = Some(a.detail.clone()),
            }
            return out;
        }
        let Some(snap) = snap else {
            out.harness_error = Some("no snapshot".into());
            return out;
        };
        out.state_hash = snap.hash();
        if let Some(c) = snap.consistency() {
            out.violate("race-dangling", format!("index inconsistent after concurrent analyses: {}", c));
        }
        if !seq.iter().any(|(_, s)| s.diff(&snap, false).is_none()) {
            let (perm, s0) = &seq[0];
            out.violate(
                "race-not-sequential",
                format!(
                    "concurrent outcome equals no sequential execution; vs order {:?}: {}",
                    perm,
                    s0.diff(&snap, false).unwrap_or_default()
                ),
            );
        }
        // probes
        let removes_last = inp.concurrent.iter().any(|o| o.text.trim() == "import pytest");
        if removes_last {
            out.count("probe.reanalysis_removes_all_records", 1);
        }
        out.count("probe.fresh_path_used", inp.concurrent.iter().filter(|o| o.fresh).count() as u64);
        out
    }
}

/// S-RACE through the real scanner: phase 2 of `scan_workspace` on 2-4 simulated rayon workers over
/// files whose names collide, interleaved densely; the index must equal, as multisets, the index of a
/// sequential scan (one worker, no preemption).
pub struct RaceScan;

#[derive(Clone, Debug, Serialize, Deserialize)]
pub struct RaceScanInput {
    pub spec: super::ws::WsSpec,
    pub sim: SimParams,
    pub run_seed: u64,
    #[serde(default)]
    pub sandbox: Option<String>,
}

impl Scenario for RaceScan {
    fn name(&self) -> &'static str {
        "race-scan"
    }
    fn rule(&self) -> &'static str {
        "generated workspace over a 2-3 name pool scanned by the real scan_workspace on 2-4 simulated workers with dense preemption (random walk \
         p>=5%, PCT) and 1/2/4 shards; the index as multisets (definitions, reverse indices, usages, imports) must equal that of a sequential scan; \
         non-trivial = >= 2 workers overlapped and some name is defined or used in >= 2 files; distinct = spec hash x decision list"
    }
    fn runs(&self, tier: Tier) -> u64 {
        match tier {
            Tier::Quick => 2_500,
            Tier::Thorough => 120_000,
        }
    }
    fn shrink_paths(&self) -> Vec<&'static str> {
        vec!["/spec/files", "/spec/files/*/items", "/decisions/1"]
    }
    fn gen(&self, run_seed: u64, _tier: Tier) -> Value {
        let mut rng = Rng::new(run_seed);
        let mut o = super::ws::WsOpts::default();
        o.file.in_class = false;
        o.imports = false;
        o.n_names = rng.range(2, 3);
        o.max_dirs = 3;
        let spec = super::ws::gen_ws(&mut rng, &o);
        let mut sim = SimParams::dense(&mut rng, 3000);
        sim.workers = rng.range(2, 4);
        serde_json::to_value(RaceScanInput { spec, sim, run_seed, sandbox: None }).unwrap()
    }
    fn exec(&self, input: &Value) -> RunOut {
        let mut out = RunOut::default();
        let inp: RaceScanInput = match serde_json::from_value(input.clone()) {
            Ok(i) => i,
            Err(e) => {
                out.harness_error = Some(format!("bad input: {}", e));
                return out;
            }
        };
        let sb = super::util::Sandbox::acquire("c09s", inp.run_seed, inp.sandbox.as_deref().map(Path::new));
        let root = inp.spec.materialise(&sb.root());
        let seq_sim = SimParams { strategy: "random".into(), param: 0, workers: 1, ..inp.sim.clone() };
        let (oc0, s0) = super::scen_resolve::scan_then(&seq_sim, replay_list(input, 0), root.clone(), |db, root| map_snap(db, root));
        out.absorb_outcome(&oc0);
        let (oc, s1) = super::scen_resolve::scan_then(&inp.sim, replay_list(input, 1), root.clone(), |db, root| map_snap(db, root));
        out.absorb_outcome(&oc);
        out.fingerprint = mix(fnv(&serde_json::to_string(&inp.spec).unwrap()), oc.log_hash);
        for o in [&oc0, &oc] {
            if let Some(a) = &o.abort {
                super::scen_resolve::abort_to_violation(&mut out, a, "parallel scan");
                return out;
            }
        }
        let (Some(s0), Some(s1)) = (s0, s1) else {
            out.harness_error = Some("no snapshot".into());
            return out;
        };
        out.nontrivial = oc.switches > 2 && oc.threads >= 3;
        out.state_hash = s1.hash();
        if let Some(c) = s1.consistency() {
            out.violate("race-dangling", format!("index inconsistent after the parallel scan: {}", c));
        }
        if let Some(d) = s0.diff(&s1, false) {
            out.violate("race-not-sequential", format!("parallel scan ({} workers) differs from the sequential scan as multisets: {}", inp.sim.workers, d));
        }
        out
    }
}

/// S-RACE with imports: 2-3 documents in different directories are (re)analysed concurrently and each of them
/// imports the SAME helper module, which the index has not seen yet (it exists on disk only).  Whoever follows
/// the import first, the helper must end up indexed exactly once: the outcome must equal a sequential execution.
pub struct RaceImports;

#[derive(Clone, Debug, Serialize, Deserialize)]
pub struct RaceImportsInput {
    pub sim: SimParams,
    /// (relative path, text) written to disk before the run
    pub disk: Vec<(String, String)>,
    /// analysed sequentially before the race
    pub initial: Vec<String>,
    /// analysed concurrently: (relative path, buffer text)
    pub concurrent: Vec<(String, String)>,
    pub run_seed: u64,
    #[serde(default)]
    pub sandbox: Option<String>,
}

impl Scenario for RaceImports {
    fn name(&self) -> &'static str {
        "race-imports"
    }
    fn rule(&self) -> &'static str {
        "2-3 simulated threads each run analyze_file on a conftest/test module of their own directory; all of them import (star, explicit or \
         pytest_plugins, possibly through a second helper) the same helper module that exists on disk and is not indexed yet; dense preemption; \
         the index as multisets must equal that of some sequential order; non-trivial = the schedule switched threads and >= 2 documents import \
         the shared helper; distinct = (input hash, decision-list hash)"
    }
    fn runs(&self, tier: Tier) -> u64 {
        match tier {
            Tier::Quick => 2_500,
            Tier::Thorough => 150_000,
        }
    }
    fn shrink_paths(&self) -> Vec<&'static str> {
        vec!["/concurrent", "/initial", "/decisions/0"]
    }
    fn gen(&self, run_seed: u64, _tier: Tier) -> Value {
        let mut rng = Rng::new(run_seed);
        let names = names_pool(3);
        let opts = GenOpts { in_class: false, ..GenOpts::default() };
        let mut disk = vec![];
        let helper = render(&gen_items(&mut rng, &names, false, &opts)).text;
        disk.push(("shared_helper.py".to_string(), helper));
        let chained = rng.chance(400);
        if chained {
            disk.push(("mid_helper.py".to_string(), format!("from shared_helper import *\n{}", render(&gen_items(&mut rng, &names, false, &opts)).text)));
        }
        let dirs = ["a", "b", "c"];
        let k = rng.range(2, 3);
        let mut concurrent = vec![];
        for d in dirs.iter().take(k) {
            let target = if chained && rng.chance(500) { "mid_helper" } else { "shared_helper" };
            let imp = match rng.below(3) {
                0 => format!("from {} import *\n", target),
                1 => format!("from {} import {}\n", target, names[0]),
                _ => format!("pytest_plugins = [\"{}\"]\n", target),
            };
            let is_test = rng.chance(400);
            let body = render(&gen_items(&mut rng, &names, is_test, &opts)).text;
            let rel = if is_test { format!("{}/test_{}.py", d, d) } else { format!("{}/conftest.py", d) };
            // what is on disk differs from the buffer (no import yet)
            disk.push((rel.clone(), "import pytest\n".to_string()));
            concurrent.push((rel, format!("{}{}", imp, body)));
        }
        let initial = if rng.chance(300) { vec![concurrent[0].0.clone()] } else { vec![] };
        let sim = SimParams::dense(&mut rng, 2000);
        serde_json::to_value(RaceImportsInput { sim, disk, initial, concurrent, run_seed, sandbox: None }).unwrap()
    }
    fn exec(&self, input: &Value) -> RunOut {
        let mut out = RunOut::default();
        let inp: RaceImportsInput = match serde_json::from_value(input.clone()) {
            Ok(i) => i,
            Err(e) => {
                out.harness_error = Some(format!("bad input: {}", e));
                return out;
            }
        };
        if inp.concurrent.len() < 2 {
            return out;
        }
        let sb = super::util::Sandbox::acquire("c09i", inp.run_seed, inp.sandbox.as_deref().map(Path::new));
        let root = sb.root().join("ws");
        for (f, t) in &inp.disk {
            let p = root.join(f);
            if let Some(d) = p.parent() {
                let _ = std::fs::create_dir_all(d);
            }
            let _ = std::fs::write(&p, t);
        }
        let disk_text = |f: &str| inp.disk.iter().find(|(g, _)| g == f).map(|(_, t)| t.clone()).unwrap_or_default();
        let mut seq: Vec<MapSnap> = vec![];
        for perm in permutations(inp.concurrent.len()) {
            let db = FixtureDatabase::new();
            for f in &inp.initial {
                db.analyze_file(root.join(f), &disk_text(f));
            }
            for &i in &perm {
                db.analyze_file(root.join(&inp.concurrent[i].0), &inp.concurrent[i].1);
            }
            seq.push(map_snap(&db, &root));
        }
        let conc = inp.concurrent.clone();
        let initial: Vec<(String, String)> = inp.initial.iter().map(|f| (f.clone(), disk_text(f))).collect();
        let r2 = root.clone();
        let (oc, snap) = simrt::run(inp.sim.cfg(replay_list(input, 0)), move || {
            let db = Arc::new(FixtureDatabase::new());
            for (f, t) in &initial {
                db.analyze_file(r2.join(f), t);
            }
            let mut hs = vec![];
            for (f, t) in conc {
                let d = db.clone();
                let p = r2.join(&f);
                hs.push(simrt::spawn(move || d.analyze_file(p, &t)));
            }
            for h in hs {
                h.join();
            }
            map_snap(&db, &r2)
        });
        out.absorb_outcome(&oc);
        out.nontrivial = oc.switches > 0;
        let mut dh = 0u64;
        for d in &oc.decisions {
            dh = mix(dh, *d as u64);
        }
        out.fingerprint = mix(fnv(&serde_json::to_string(&(&inp.disk, &inp.concurrent)).unwrap()), dh);
        if let Some(a) = &oc.abort {
            super::scen_resolve::abort_to_violation(&mut out, a, "concurrent analyses following a shared import");
            return out;
        }
        let Some(snap) = snap else {
            out.harness_error = Some("no snapshot".into());
            return out;
        };
        out.state_hash = snap.hash();
        out.count("probe.documents_importing_the_unseen_helper", inp.concurrent.len() as u64);
        if let Some(c) = snap.consistency() {
            out.violate("race-dangling", format!("index inconsistent after concurrent analyses: {}", c));
        }
        if !seq.iter().any(|s| s.diff(&snap, false).is_none()) {
            out.violate("race-not-sequential", format!("concurrent outcome equals no sequential execution; vs first order: {}", seq[0].diff(&snap, false).unwrap_or_default()));
        }
        out
    }
}
