//! Scan-based scenarios over a generated workspace whose oracles need the generator's ground
//! truth: C02 (definition-line columns), C04 (references ⇔ go-to-definition), C05 (cross-feature
//! agreement), C14 (visibility / classification), C16 (dependency diagnostics).

use super::batch::{RunOut, Scenario, Tier};
use super::dbsnap::{all_defs, all_usages, def_key, rel};
use super::model::{Model, Origin, Via};
use super::observe::Lsp;
use super::pytext::{render, Item, TokKind, Tst};
use super::scen_resolve::{abort_to_violation, scan_then, scan_then_pre, ResolveInput};
use super::simcfg::{replay_list, SimParams};
use super::util::{fnv, mix, Rng, Sandbox};
use super::ws::{gen_ws, WsOpts, WsSpec};
use crate::fixtures::FixtureDefinition;
use serde_json::Value;
use std::collections::{BTreeMap, BTreeSet};
use std::path::Path;

pub struct Static {
    pub prop: &'static str,
    pub variant: &'static str,
    pub name: &'static str,
}

type DefK = (String, usize, String); // rel file, line, name

fn dkey(root: &Path, d: &FixtureDefinition) -> DefK {
    (rel(root, &d.file_path), d.line, d.name.clone())
}

#[derive(Default, Clone, Debug)]
struct Raw {
    cached: BTreeSet<String>,
    /// (file, line, col) -> goto
    goto: BTreeMap<(String, usize, usize), Option<DefK>>,
    /// C02: references first location at (file,line,col)
    refs_at: BTreeMap<(String, usize, usize), Option<Vec<(String, usize, usize, usize)>>>,
    /// per definition: references (file,line,start)
    refs: BTreeMap<DefK, Vec<(String, usize, usize)>>,
    defs: Vec<(DefK, bool, bool, u8, Option<String>, Option<usize>)>, // key, third_party, plugin, scope, ret, yield
    autouse: BTreeSet<DefK>,
    ambiguous: BTreeSet<DefK>,
    usages: Vec<(String, usize, usize, usize, String)>,
    goto_usage: BTreeMap<(String, usize, usize), Option<DefK>>,
    available: BTreeMap<String, Vec<(DefK, bool, bool)>>,
    cycles: Vec<(DefK, Vec<String>)>,
    mismatches: Vec<(DefK, DefK)>,
    lens: BTreeMap<String, Vec<(usize, String)>>,
    incoming: BTreeMap<DefK, Option<usize>>,
    unused: Vec<(String, String)>,
    docsym: BTreeMap<String, Vec<String>>,
    wssym: Vec<String>,
    /// C05 per usage token: handler answers
    agree: Vec<Agree>,
    unparsable: BTreeSet<String>,
}

#[derive(Default, Clone, Debug)]
struct Agree {
    file: String,
    line: usize,
    col: usize,
    name: String,
    lib: Option<DefK>,
    plain: Option<DefK>,
    lib_ret: Option<String>,
    lib_yield: Option<usize>,
    definition: Option<(String, usize)>,
    hover: Option<String>,
    implementation: Option<(String, usize)>,
    prepare: Option<(String, usize)>,
    inlay: Option<String>,
    has_annotation: bool,
    avail: Vec<(DefK, Option<String>)>,
    completion: Option<Vec<(String, String, String)>>,
    /// for fixture parameters: outgoing-call target of the enclosing fixture for this dep
    outgoing: Option<Option<(String, usize)>>,
}

fn opts_for(prop: &str, variant: &str, rng: &mut Rng, tier: Tier) -> WsOpts {
    let mut o = WsOpts::default();
    o.file.in_class = false;
    o.n_names = rng.range(3, 5);
    if tier == Tier::Thorough {
        o.max_dirs = 7;
    }
    match variant {
        "plain" => o.imports = false,
        "imports" => {
            o.colliding_imports = rng.chance(600);
            o.import_cycles = rng.chance(250);
        }
        "venv" => {
            o.venv = true;
            o.colliding_imports = rng.chance(500);
        }
        _ => {}
    }
    match prop {
        "C02" => {
            // fixtures whose function name differs from the fixture name (`@pytest.fixture(name="db") def db_impl(db)`)
            o.file.alias = rng.chance(400);
            o.self_dep_per_mille = 450;
            o.helper_self_dep_per_mille = if rng.chance(600) { 500 } else { 0 };
            // a helper module that defines a name twice, the second time requesting it: the first is overwritten
            o.same_file_dups = rng.chance(300);
        }
        "C05" => {
            o.same_file_dups = rng.chance(500);
            o.file.alias = false;
        }
        "C04" => {
            o.file.alias = rng.chance(400);
        }
        "C16" => {
            o.same_file_dups = rng.chance(300);
            o.file.class_override_per_mille = 350;
            o.file.alias = rng.chance(300);
            o.file.assign_style = rng.chance(400);
            o.dep_cycles = rng.chance(600);
            o.file.scopes = true;
            if rng.chance(350) {
                o.dep_cycles = false;
                o.self_dep_per_mille = 0;
                o.file.acyclic = true;
            }
        }
        "C14" => {
            o.import_cycles = rng.chance(400);
            o.stdlib_named_helpers = true;
            o.import_plain_names = true;
        }
        _ => {}
    }
    o
}

impl Scenario for Static {
    fn name(&self) -> &'static str {
        self.name
    }
    fn rule(&self) -> &'static str {
        match self.prop {
            "C02" => "generated workspaces biased to override chains (fixture requesting its same-named parent; links in the same file, conftest levels, imported modules, plugin, third-party), real scan under sigma; go-to-definition at EVERY column of each overriding def line and references at its name span; non-trivial = at least one self-named parameter whose parent exists; distinct = spec hash x schedule",
            "C04" => "generated workspace, real scan under sigma; for every (definition, usage) pair of the index: usage in references(D) <=> go-to-definition(usage) = D, no usage twice, code-lens count = incoming-call count (+ same-line rule) = |references|, unused list = zero-reference project fixtures; non-trivial = >= 1 name with >= 2 definitions and >= 1 unresolved usage or override; distinct = spec hash x schedule",
            "C05" => "generated workspace (half with a name defined twice in one file), real scan under sigma; at every usage token the answers of definition, hover, implementation, prepareCallHierarchy, outgoing calls, inlay hint and completion are compared with each other, and get_available_fixtures with resolution per visible name; non-trivial = some visible name has >= 2 definitions; distinct = spec hash x schedule",
            "C14" => "generated workspace with import graphs (star/explicit/pytest_plugins, relative and absolute, transitive, optional cycles) and optional synthetic venv (dist-info/egg-info entry points, _pytest, in-workspace editable); real scan under 2 sigmas; visible names, origins and plugin/third-party classification compared with the reachability model and across sigmas; non-trivial = at least one name is provided through an import or a plugin; distinct = spec hash x schedule",
            _ => "generated workspace with dependency graphs (rings, self-loops with/without parent, overridden names, unknown deps) and scope assignments, real scan under sigma; cycles and scope mismatches compared with the reference dependency graph over resolved definitions; non-trivial = the reference graph has a cycle, a self-named dependency or a scope inversion; distinct = spec hash x schedule",
        }
    }
    fn runs(&self, tier: Tier) -> u64 {
        match (self.variant, tier) {
            ("corpus", Tier::Quick) => 40,
            ("corpus", Tier::Thorough) => 1_500,
            (_, Tier::Quick) => 2_500,
            (_, Tier::Thorough) => 120_000,
        }
    }
    fn shrink_paths(&self) -> Vec<&'static str> {
        vec!["/spec/files", "/spec/files/*/items", "/preopen", "/edits", "/decisions/0"]
    }

    fn gen(&self, run_seed: u64, tier: Tier) -> Value {
        let mut rng = Rng::new(run_seed);
        let o = opts_for(self.prop, self.variant, &mut rng, tier);
        let mut spec = if self.variant == "corpus" {
            super::ws::corpus_spec()
        } else if self.prop == "C14" && rng.chance(120) {
            if rng.chance(600) { super::ws::ring_ws(&mut rng) } else { super::ws::diamond_ws(&mut rng) }
        } else {
            gen_ws(&mut rng, &o)
        };
        if self.prop == "C14" && self.variant == "venv" && rng.chance(450) {
            // the virtualenv of another interpreter: other version, PyPy, the Windows layout
            spec.extra.push(("@venv-layout".to_string(), rng.pick(&super::ws::VENV_LAYOUTS).to_string()));
        }
        if self.prop == "C05" {
            // a parameterless probe test at the end of every test file: completion inside its
            // parentheses offers every visible fixture
            for f in spec.files.iter_mut() {
                if f.items.iter().any(|i| matches!(i, Item::Test(_))) {
                    f.items.push(Item::Test(Tst { name: "test_zz_probe".into(), ..Default::default() }));
                }
            }
        }
        let sim = SimParams::gen(&mut rng, 3000);
        let mut preopen = vec![];
        if self.prop == "C04" && self.variant != "corpus" && rng.chance(300) {
            // history "the editor opened the document before the scan reached it"
            let names = super::pytext::names_pool(o.n_names);
            let cands: Vec<String> = spec.files.iter().filter(|f| !f.rel.starts_with(".venv") && (f.rel.ends_with("conftest.py") || f.items.iter().any(|i| matches!(i, Item::Test(_))))).map(|f| f.rel.clone()).collect();
            for _ in 0..rng.range(1, 2) {
                if cands.is_empty() {
                    break;
                }
                let f = rng.pick(&cands).clone();
                // the buffer equals the on-disk text: with a different buffer the index keeps stale
                // definitions of the buffer next to the disk ones (C10's known finding RC-SCAN-NO-CLEANUP),
                // a state in which lines no longer identify definitions
                let text = spec.file(&f).map(|pf| render(&pf.items).text).unwrap_or_default();
                let _ = &names;
                preopen.push((f, text));
            }
        }
        let mut edits = vec![];
        if self.prop == "C05" && self.variant != "corpus" && rng.chance(450) {
            // agreement must also hold after edits made on warm caches (incl. edits that do not parse)
            let names = super::pytext::names_pool(o.n_names);
            let cands: Vec<String> = spec.files.iter().filter(|f| !f.rel.starts_with(".venv") && f.rel.ends_with(".py") && !f.rel.ends_with("__init__.py")).map(|f| f.rel.clone()).collect();
            for _ in 0..rng.range(1, 3) {
                if cands.is_empty() {
                    break;
                }
                let f = rng.pick(&cands).clone();
                let cur = spec.file(&f).map(|pf| render(&pf.items).text).unwrap_or_default();
                let t = super::scen_history::next_version(&mut rng, &spec, &f, &cur, &cur, &names, "C07");
                edits.push((f, t));
            }
        }
        let close_after_edits = !edits.is_empty() && rng.chance(400);
        serde_json::to_value(ResolveInput { sim, spec, sandbox: None, run_seed, reopen: vec![], preopen, edits, close_after_edits }).unwrap()
    }

    fn exec(&self, input: &Value) -> RunOut {
        let mut out = RunOut::default();
        let inp: ResolveInput = match serde_json::from_value(input.clone()) {
            Ok(i) => i,
            Err(e) => {
                out.harness_error = Some(format!("bad input: {}", e));
                return out;
            }
        };
        let sb = Sandbox::acquire(self.prop, inp.run_seed, inp.sandbox.as_deref().map(Path::new));
        let root = inp.spec.materialise(&sb.root());
        let model = Model::new(&inp.spec);
        let prop = self.prop;
        let spec2 = inp.spec.clone();
        if !inp.preopen.is_empty() {
            out.count("fault.document_opened_before_scan", inp.preopen.len() as u64);
        }
        let edits = inp.edits.clone();
        let close_after_edits = inp.close_after_edits;
        if close_after_edits {
            out.count("fault.edited_documents_closed_unsaved", 1);
        }
        if !edits.is_empty() {
            out.count("fault.edit_on_warm_caches", edits.len() as u64);
        }
        let (oc, raw) = scan_then_pre(&inp.sim, replay_list(input, 0), root.clone(), inp.preopen.clone(), move |db, root| {
            if edits.is_empty() {
                return collect(prop, db, root, &spec2);
            }
            let _warm = collect(prop, db, root, &spec2);
            let mut spec3 = spec2.clone();
            for (f, t) in &edits {
                db.analyze_file(root.join(f), t);
                // the edited document is no longer described by the generator's token positions (and position
                // queries inside a document that does not parse are not comparable): it is queried through the
                // other documents only
                if let Some(pf) = spec3.files.iter_mut().find(|pf| pf.rel == *f) {
                    pf.items = vec![Item::Raw { text: t.clone() }];
                }
            }
            if close_after_edits {
                // queries on the edited state fill the caches; then the documents are closed unsaved: the files on disk
                // are what the server reads from now on
                let _ = collect(prop, db, root, &spec3);
                for (f, _) in &edits {
                    db.cleanup_file_cache(&root.join(f));
                }
            }
            collect(prop, db, root, &spec3)
        });
        out.absorb_outcome(&oc);
        out.fingerprint = mix(fnv(&serde_json::to_string(&inp.spec).unwrap()), oc.log_hash);
        if let Some(a) = &oc.abort {
            abort_to_violation(&mut out, a, "workspace scan / queries");
            return out;
        }
        let Some(raw) = raw else {
            out.harness_error = Some("no observations".into());
            return out;
        };
        out.state_hash = fnv(&format!("{:?}", raw.goto_usage)) ^ fnv(&format!("{:?}", raw.refs)) ^ fnv(&format!("{:?}", raw.available)) ^ fnv(&format!("{:?}", raw.cycles));
        match self.prop {
            "C02" => oracle_c02(&mut out, &model, &raw),
            "C04" => oracle_c04(&mut out, &model, &raw),
            "C05" => oracle_c05(&mut out, &model, &raw),
            "C14" => {
                oracle_c14(&mut out, &model, &raw);
                // second sigma: classification and visibility must not depend on it
                if out.violations.is_empty() {
                    let mut rng = Rng::new(inp.run_seed ^ 0x14);
                    let sim2 = SimParams::gen(&mut rng, 3000);
                    let _ = std::fs::remove_dir_all(sb.root());
                    let mut spec_b = inp.spec.clone();
                    rng.shuffle(&mut spec_b.files);
                    let root_b = spec_b.materialise(&sb.root());
                    let spec3 = inp.spec.clone();
                    let (oc2, raw2) = scan_then(&sim2, replay_list(input, 1), root_b, move |db, root| collect("C14", db, root, &spec3));
                    out.absorb_outcome(&oc2);
                    if let Some(a) = &oc2.abort {
                        abort_to_violation(&mut out, a, "second scan");
                    } else if let Some(raw2) = raw2 {
                        let names = |r: &Raw| -> BTreeMap<String, Vec<(String, bool, bool)>> { r.available.iter().map(|(f, v)| (f.clone(), v.iter().map(|(k, tp, pl)| (k.2.clone(), *tp, *pl)).collect())).collect() };
                        if names(&raw) != names(&raw2) {
                            out.violate("visible-set-depends-on-sigma", format!("available names/classification differ between two scans of the same workspace: {:?} vs {:?}", names(&raw), names(&raw2)));
                        }
                    }
                }
            }
            _ => oracle_c16(&mut out, &model, &raw),
        }
        out
    }
}

fn collect(prop: &str, db: &std::sync::Arc<crate::fixtures::FixtureDatabase>, root: &Path, spec: &WsSpec) -> Raw {
    let mut r = Raw::default();
    r.cached = db.file_cache.iter().map(|e| rel(root, e.key())).collect();
    let rendered = spec.rendered();
    let defs = all_defs(db);
    for d in &defs {
        r.defs.push((dkey(root, d), d.is_third_party, d.is_plugin, d.scope as u8, d.return_type.clone(), d.yield_line));
        if d.autouse {
            r.autouse.insert(dkey(root, d));
        }
    }
    let usages = all_usages(db);
    for u in &usages {
        r.usages.push((rel(root, &u.file_path), u.line, u.start_char, u.end_char, u.name.clone()));
    }
    if matches!(prop, "C04" | "C16" | "C14") {
        for u in &usages {
            let d = db.find_fixture_definition(&u.file_path, (u.line - 1) as u32, u.start_char as u32);
            r.goto_usage.insert((rel(root, &u.file_path), u.line, u.start_char), d.as_ref().map(|d| dkey(root, d)));
        }
    }
    if prop == "C04" {
        let lsp = Lsp::new(db.clone(), root);
        for d in &defs {
            let refs = db.find_references_for_definition(d);
            // after open-then-scan two different definitions can share (file, line, name): a stale one of
            // the buffer and one of the disk text; they are told apart by nothing a client can see, so
            // their reference sets are merged and the count checks skip that key
            let k = dkey(root, d);
            if defs.iter().filter(|x| dkey(root, x) == k).count() > 1 {
                r.ambiguous.insert(k.clone());
                let e = r.refs.entry(k).or_default();
                for u in &refs {
                    let x = (rel(root, &u.file_path), u.line, u.start_char);
                    if !e.contains(&x) {
                        e.push(x);
                    }
                }
                continue;
            }
            r.refs.insert(dkey(root, d), refs.iter().map(|u| (rel(root, &u.file_path), u.line, u.start_char)).collect());
            // incoming calls through the handler
            let fr = rel(root, &d.file_path);
            if let Some(item) = lsp.prepare(&fr, (d.line - 1) as u32, d.start_char as u32) {
                // the item must denote this very definition (after open-then-scan a stale definition
                // can share its line with a different one of the current text)
                if lsp.item_pos(&item) == Some((fr.clone(), d.line)) && item.get("name").and_then(|n| n.as_str()) == Some(d.name.as_str()) {
                    r.incoming.insert(dkey(root, d), lsp.incoming(&item).map(|v| v.len()));
                }
            }
        }
        for f in &r.cached {
            r.lens.insert(f.clone(), lsp.code_lens(f));
        }
        r.unused = db.get_unused_fixtures().iter().map(|(p, n)| (rel(root, p), n.clone())).collect();
    }
    if prop == "C02" {
        let lsp = Lsp::new(db.clone(), root);
        for (file, rd) in &rendered {
            if !r.cached.contains(file) {
                continue;
            }
            let abs = root.join(spec.disk_rel(file));
            let lines: Vec<&str> = rd.text.lines().collect();
            for t in &rd.toks {
                if t.kind != TokKind::Def {
                    continue;
                }
                let len = lines.get(t.line - 1).map(|l| l.len()).unwrap_or(0);
                for col in 0..=len {
                    let d = db.find_fixture_definition(&abs, (t.line - 1) as u32, col as u32);
                    r.goto.insert((file.clone(), t.line, col), d.as_ref().map(|d| dkey(root, d)));
                }
                for col in t.start..t.end {
                    r.refs_at.insert((file.clone(), t.line, col), lsp.references(file, (t.line - 1) as u32, col as u32));
                }
                // references from the self-named parameter concern the parent
                for p in rd.toks.iter().filter(|p| p.kind == TokKind::FixtureParam && p.line == t.line && p.name == t.name) {
                    for col in p.start..p.end {
                        r.refs_at.insert((file.clone(), t.line, col), lsp.references(file, (t.line - 1) as u32, col as u32));
                    }
                }
            }
            // tests binding to the innermost override
            for t in &rd.toks {
                if matches!(t.kind, TokKind::TestParam | TokKind::Usefixtures) {
                    let d = db.find_fixture_definition(&abs, (t.line - 1) as u32, t.start as u32);
                    r.goto.insert((file.clone(), t.line, t.start), d.as_ref().map(|d| dkey(root, d)));
                }
            }
        }
    }
    if matches!(prop, "C14" | "C05") {
        for f in &r.cached {
            let av = db.get_available_fixtures(&root.join(spec.disk_rel(f)));
            r.available.insert(f.clone(), av.iter().map(|d| (dkey(root, d), d.is_third_party, d.is_plugin)).collect());
        }
    }
    if prop == "C14" {
        let mut lsp = Lsp::new(db.clone(), root);
        lsp.venv_layout = spec.extra.iter().find(|(k, _)| k == "@venv-layout").map(|(_, v)| v.clone());
        for f in &r.cached {
            r.docsym.insert(f.clone(), lsp.document_symbols(f));
        }
        r.wssym = lsp.workspace_symbols("");
    }
    if prop == "C16" {
        for c in db.detect_fixture_cycles().iter() {
            r.cycles.push((dkey(root, &c.fixture), c.cycle_path.clone()));
        }
        for f in &r.cached {
            for m in db.detect_scope_mismatches_in_file(&root.join(spec.disk_rel(f))) {
                r.mismatches.push((dkey(root, &m.fixture), dkey(root, &m.dependency)));
            }
        }
    }
    if prop == "C05" {
        let lsp = Lsp::new(db.clone(), root);
        for (file, rd) in &rendered {
            if !r.cached.contains(file) {
                continue;
            }
            let abs = root.join(spec.disk_rel(file));
            let inlay = lsp.inlay(file).unwrap_or_default();
            let avail: Vec<(DefK, Option<String>)> = db.get_available_fixtures(&abs).iter().map(|d| (dkey(root, d), d.return_type.clone())).collect();
            // completion at the probe test's parentheses
            let probe = rd.text.lines().position(|l| l.starts_with("def test_zz_probe("));
            let completion = probe.and_then(|l| lsp.completion(file, l as u32, "def test_zz_probe(".len() as u32));
            for t in &rd.toks {
                if matches!(t.kind, TokKind::Def | TokKind::BodyUse) {
                    continue;
                }
                let col = t.start + (t.end - t.start) / 2;
                let l0 = (t.line - 1) as u32;
                let lib = db.find_fixture_definition(&abs, l0, col as u32);
                let mut a = Agree { file: file.clone(), line: t.line, col, name: t.name.clone(), ..Default::default() };
                a.lib = lib.as_ref().map(|d| dkey(root, d));
                a.plain = db.find_closest_definition(&abs, &t.name).as_ref().map(|d| dkey(root, d));
                a.lib_ret = lib.as_ref().and_then(|d| d.return_type.clone());
                a.lib_yield = lib.as_ref().and_then(|d| d.yield_line);
                a.definition = lsp.definition(file, l0, col as u32);
                a.hover = lsp.hover(file, l0, col as u32);
                a.implementation = lsp.implementation(file, l0, col as u32);
                a.prepare = lsp.prepare(file, l0, col as u32).and_then(|i| lsp.item_pos(&i));
                a.inlay = inlay.iter().find(|(l, c, _)| *l == t.line && *c == t.end).map(|x| x.2.clone());
                a.has_annotation = false; // the renderer never annotates parameters
                a.avail = avail.iter().filter(|(k, _)| k.2 == t.name).cloned().collect();
                a.completion = completion.as_ref().map(|c| c.get(&t.name).cloned().unwrap_or_default());
                if t.kind == TokKind::FixtureParam {
                    if let Some((fname, fline)) = &t.in_fixture {
                        // outgoing calls of the enclosing fixture
                        let name_tok = rd.toks.iter().find(|x| x.kind == TokKind::Def && x.line == *fline);
                        if let Some(nt) = name_tok {
                            if let Some(item) = lsp.prepare(file, (*fline - 1) as u32, nt.start as u32) {
                                if lsp.item_pos(&item) == Some((file.clone(), *fline)) && item.get("name").and_then(|n| n.as_str()) == Some(fname.as_str()) {
                                    let og = lsp.outgoing(&item).unwrap_or_default();
                                    a.outgoing = Some(og.iter().find(|(n, _, _)| *n == t.name).map(|(_, f, l)| (f.clone(), *l)));
                                }
                            }
                        }
                    }
                }
                r.agree.push(a);
            }
        }
    }
    r
}

fn model_def_matches(model: &Model, i: usize, k: &DefK) -> bool {
    let d = &model.defs[i];
    d.file == k.0 && d.line == k.1 && d.name == k.2
}

fn ok_goto(got: &Option<DefK>, exp: &super::model::Expect, model: &Model) -> bool {
    match got {
        None => exp.accept.is_empty() || exp.none_ok,
        Some(g) => exp.accept.iter().any(|i| model_def_matches(model, *i, g)),
    }
}

fn oracle_c02(out: &mut RunOut, model: &Model, raw: &Raw) {
    for (file, rd) in &model.rendered {
        if !raw.cached.contains(file) {
            continue;
        }
        for t in rd.toks.iter().filter(|t| t.kind == TokKind::Def) {
            let Some(me) = model.defs.iter().position(|d| d.file == *file && d.line == t.line) else { continue };
            let my_name = model.defs[me].name.clone();
            // parameter spans on this line
            let params: Vec<&super::pytext::Tok> = rd.toks.iter().filter(|p| p.kind == TokKind::FixtureParam && p.line == t.line).collect();
            let self_param = params.iter().any(|p| p.name == my_name);
            if self_param {
                out.count("probe.override_with_self_parameter", 1);
            }
            let line_len = rd.text.lines().nth(t.line - 1).map(|l| l.len()).unwrap_or(0);
            for col in 0..=line_len {
                let Some(got) = raw.goto.get(&(file.clone(), t.line, col)) else { continue };
                out.count("queries", 1);
                if let Some(p) = params.iter().find(|p| col >= p.start && col < p.end) {
                    let ex = if p.name == my_name { Some(me) } else { None };
                    let exp = model.resolve(file, &p.name, ex);
                    if ex.is_some() && !exp.accept.is_empty() {
                        out.nontrivial = true;
                        out.count("probe.self_parameter_with_parent", 1);
                    }
                    let ok = match got {
                        None => exp.accept.is_empty() || exp.none_ok,
                        Some(g) => exp.accept.iter().any(|i| model_def_matches(model, *i, g)),
                    };
                    // references from a self-named parameter: the declaration listed first is the parent's
                    if ex.is_some() && exp.accept.len() == 1 && got.is_some() {
                        if let Some(Some(locs)) = raw.refs_at.get(&(file.clone(), t.line, col)) {
                            let parent = &model.defs[*exp.accept.iter().next().unwrap()];
                            if let Some(first) = locs.first() {
                                if !(first.0 == parent.file && first.1 == parent.line) && ok_goto(got, &exp, model) {
                                    out.violate("param-references-concern-wrong-fixture", format!("references on the self-named parameter of {} at {}:{}:{} start with {:?}; go-to-definition there lands on the parent {}", model.defs[me].key(), file, t.line, col, first, parent.key()));
                                }
                            }
                        }
                    }
                    if !ok {
                        let to_self = got.as_ref().map(|g| model_def_matches(model, me, g)).unwrap_or(false);
                        let class = if to_self {
                            "override-resolves-to-itself"
                        } else if matches!(exp.via, Via::ConftestImport(_)) && got.is_some() {
                            "RC-IMPORT-ORIGIN"
                        } else {
                            "override-wrong-parent"
                        };
                        out.violate(class, format!("parameter '{}' of fixture {} at {}:{}:{}: expected {:?} via {:?}, got {:?}", p.name, model.defs[me].key(), file, t.line, col, exp.accept.iter().map(|i| model.defs[*i].key()).collect::<Vec<_>>(), exp.via, got));
                    }
                } else if col >= t.start && col < t.end {
                    // function name: navigation concerns this fixture (nothing, or itself)
                    if let Some(g) = got {
                        if !model_def_matches(model, me, g) {
                            out.violate("defname-navigates-elsewhere", format!("go-to-definition on the name of {} at {}:{}:{} went to {:?}", model.defs[me].key(), file, t.line, col, g));
                        }
                    }
                    if let Some(refs) = raw.refs_at.get(&(file.clone(), t.line, col)) {
                        match refs {
                            Some(locs) if !locs.is_empty() => {
                                if !(locs[0].0 == *file && locs[0].1 == t.line) {
                                    out.violate("defname-references-other-fixture", format!("references on the name of {} at {}:{}:{} start with {:?}", model.defs[me].key(), file, t.line, col, locs[0]));
                                } else if col == t.start {
                                    // the whole set: every usage the model binds to this definition (unambiguously),
                                    // except usages on the definition's own line (the handler folds those into the declaration)
                                    let mut want: BTreeSet<(String, usize, usize)> = BTreeSet::new();
                                    let mut ambiguous = false;
                                    for (uf, ut) in model.usage_tokens() {
                                        if !raw.cached.contains(&uf) {
                                            continue;
                                        }
                                        let ex = if ut.kind == TokKind::FixtureParam { model.enclosing_fixture(&uf, ut.line, &ut.in_fixture).filter(|i| model.defs[*i].name == ut.name) } else { None };
                                        let e = model.resolve(&uf, &ut.name, ex);
                                        if e.accept.contains(&me) {
                                            if e.accept.len() > 1 || e.none_ok {
                                                ambiguous = true;
                                            } else if !(uf == *file && ut.line == t.line) {
                                                want.insert((uf.clone(), ut.line, ut.start));
                                            }
                                        }
                                    }
                                    let got: BTreeSet<(String, usize, usize)> = locs.iter().skip(1).map(|l| (l.0.clone(), l.1, l.2)).collect();
                                    if !ambiguous && got != want {
                                        out.violate("defname-references-wrong-set", format!("references on the name of {}: handler lists {:?}, the usages bound to it are {:?}", model.defs[me].key(), got, want));
                                    }
                                }
                            }
                            _ => out.violate("defname-references-empty", format!("references on the name of {} at {}:{}:{} returned nothing", model.defs[me].key(), file, t.line, col)),
                        }
                    }
                } else if got.is_some() {
                    out.violate("defline-punctuation-navigates", format!("go-to-definition at {}:{}:{} (neither name nor parameter) returned {:?}", file, t.line, col, got));
                }
            }
        }
        // each test binds to the innermost override visible to it
        for t in rd.toks.iter().filter(|t| matches!(t.kind, TokKind::TestParam | TokKind::Usefixtures)) {
            let Some(got) = raw.goto.get(&(file.clone(), t.line, t.start)) else { continue };
            let exp = model.resolve(file, &t.name, None);
            let ok = match got {
                None => exp.accept.is_empty() || exp.none_ok,
                Some(g) => exp.accept.iter().any(|i| model_def_matches(model, *i, g)),
            };
            if !ok {
                let class = if matches!(exp.via, Via::ConftestImport(_)) && got.is_some() { "RC-IMPORT-ORIGIN" } else { "test-binds-to-wrong-override" };
                out.violate(class, format!("test usage '{}' at {}:{}:{} expected {:?} via {:?}, got {:?}", t.name, file, t.line, t.start, exp.accept.iter().map(|i| model.defs[*i].key()).collect::<Vec<_>>(), exp.via, got));
            }
        }
    }
}

fn oracle_c04(out: &mut RunOut, model: &Model, raw: &Raw) {
    let mut by_name: BTreeMap<&str, usize> = BTreeMap::new();
    for d in &raw.defs {
        *by_name.entry(d.0 .2.as_str()).or_insert(0) += 1;
    }
    out.nontrivial = by_name.values().any(|n| *n >= 2);
    let _ = model;
    // inverse relation over all (D, U) pairs
    let mut listed_total: BTreeMap<(String, usize, usize), Vec<DefK>> = BTreeMap::new();
    for (dk, refs) in &raw.refs {
        let mut seen = BTreeSet::new();
        for r in refs {
            if !seen.insert(r.clone()) {
                out.violate("reference-listed-twice", format!("usage {:?} is listed twice among the references of {:?}", r, dk));
            }
            listed_total.entry(r.clone()).or_default().push(dk.clone());
        }
    }
    for u in &raw.usages {
        let ukey = (u.0.clone(), u.1, u.2);
        let goto = raw.goto_usage.get(&ukey).cloned().flatten();
        let listed = listed_total.get(&ukey).cloned().unwrap_or_default();
        out.count("pairs", raw.defs.len() as u64);
        match &goto {
            None => {
                out.count("probe.unresolved_usage", 1);
                if !listed.is_empty() {
                    out.violate("unresolved-usage-listed", format!("usage {:?} resolves to nothing but is listed under {:?}", u, listed));
                }
            }
            Some(g) => {
                if !listed.contains(g) {
                    out.violate("reference-missing", format!("go-to-definition on usage {:?} lands on {:?} but the usage is not among its references (listed under {:?})", u, g, listed));
                }
                for l in &listed {
                    if l != g {
                        out.violate("reference-extra", format!("usage {:?} is listed under {:?} but go-to-definition lands on {:?}", u, l, g));
                    }
                }
            }
        }
    }
    // counts: code lens, incoming calls, unused list
    for d in &raw.defs {
        let (dk, third_party, _plugin, ..) = (&d.0, d.1, d.2);
        if raw.ambiguous.contains(dk) {
            continue;
        }
        let refs = raw.refs.get(dk).cloned().unwrap_or_default();
        let n = refs.len();
        if !third_party {
            let lens = raw.lens.get(&dk.0).cloned().unwrap_or_default();
            let titles: Vec<&String> = lens.iter().filter(|(l, _)| *l == dk.1).map(|(_, t)| t).collect();
            let want = if n == 1 { "1 usage".to_string() } else { format!("{} usages", n) };
            // two definitions on one line cannot happen with the generator; one lens per definition
            if titles.is_empty() || !titles.iter().any(|t| **t == want) {
                out.violate("codelens-count-differs", format!("code lens for {:?} shows {:?}, references has {} entries", dk, titles, n));
            }
        }
        if let Some(Some(inc)) = raw.incoming.get(dk) {
            let same_line = refs.iter().filter(|r| r.0 == dk.0 && r.1 == dk.1).count();
            if *inc != n - same_line {
                out.violate("incoming-calls-count-differs", format!("incoming calls of {:?}: {} entries, references {} (of which {} on the definition line)", dk, inc, n, same_line));
            }
        }
    }
    // unused list = project, not autouse, zero references (autouse is not visible in Raw: use model)
    for d in &raw.defs {
        let dk = &d.0;
        let n = raw.refs.get(dk).map(|r| r.len()).unwrap_or(0);
        let listed = raw.unused.iter().any(|(f, nm)| *f == dk.0 && *nm == dk.2);
        // generated workspaces: the generator's ground truth; verbatim corpus files: the index's own flag
        let autouse = model.defs.iter().find(|m| m.file == dk.0 && m.line == dk.1).map(|m| m.autouse).unwrap_or_else(|| raw.autouse.contains(dk));
        let same_file_same_name = raw.defs.iter().filter(|x| x.0 .0 == dk.0 && x.0 .2 == dk.2).count() > 1;
        if same_file_same_name || raw.ambiguous.contains(dk) {
            continue; // the CLI keys its counts by (file, name)
        }
        if !d.1 && !autouse && (n == 0) != listed {
            out.violate("unused-list-disagrees", format!("{:?}: references={} listed-as-unused={}", dk, n, listed));
        }
    }
}

fn hover_from(h: &str) -> Option<(String, String, Option<String>)> {
    // **from** `rel`\n```python\n@pytest.fixture\ndef name(...) -> ret:\n```
    let rel = h.split('`').nth(1)?.to_string();
    let sig = h.lines().find(|l| l.starts_with("def "))?;
    let name = sig.trim_start_matches("def ").split('(').next()?.to_string();
    let ret = sig.split("(...)").nth(1).and_then(|r| r.trim_end_matches(':').trim().strip_prefix("-> ").map(|s| s.to_string()));
    Some((rel, name, ret))
}

fn oracle_c05(out: &mut RunOut, model: &Model, raw: &Raw) {
    let multi: BTreeSet<&str> = {
        let mut c: BTreeMap<&str, usize> = BTreeMap::new();
        for d in &raw.defs {
            *c.entry(d.0 .2.as_str()).or_insert(0) += 1;
        }
        c.into_iter().filter(|(_, n)| *n >= 2).map(|(k, _)| k).collect()
    };
    for a in &raw.agree {
        out.count("positions", 1);
        if multi.contains(a.name.as_str()) {
            out.nontrivial = true;
        }
        let here = format!("'{}' at {}:{}:{}", a.name, a.file, a.line, a.col);
        let dup_in_file = raw.defs.iter().filter(|d| d.0 .0 == a.file && d.0 .2 == a.name).count() >= 2;
        let sel = a.lib.clone();
        // 1 definition handler == library resolution
        if a.definition != sel.as_ref().map(|s| (s.0.clone(), s.1)) {
            out.violate("definition-handler-disagrees", format!("{}: textDocument/definition {:?} vs resolution {:?}", here, a.definition, sel));
        }
        // 2 hover
        match (&a.hover, &sel) {
            (None, None) => {}
            (Some(h), Some(s)) => {
                if let Some((rel, name, ret)) = hover_from(h) {
                    // a file outside the workspace root is shown by its file name
                    let same_file = rel == s.0 || (s.0.starts_with("../") && s.0.rsplit('/').next() == Some(rel.as_str()));
                    if !same_file || name != s.2 || ret != a.lib_ret {
                        out.violate("hover-disagrees", format!("{}: hover describes {} in `{}` -> {:?}; resolution selects {:?} -> {:?}", here, name, rel, ret, s, a.lib_ret));
                    }
                } else {
                    out.violate("hover-unparsable", format!("{}: hover {:?}", here, h));
                }
            }
            (h, s) => out.violate("hover-disagrees", format!("{}: hover {:?} vs resolution {:?}", here, h.as_ref().map(|x| x.len()), s)),
        }
        // 3 implementation: yield line or definition line of the same definition
        match (&a.implementation, &sel) {
            (None, None) => {}
            (Some(i), Some(s)) => {
                let want = a.lib_yield.unwrap_or(s.1);
                if i.0 != s.0 || i.1 != want {
                    out.violate("implementation-disagrees", format!("{}: implementation {:?} vs selected {:?} (yield {:?})", here, i, s, a.lib_yield));
                }
            }
            (i, s) => out.violate("implementation-disagrees", format!("{}: implementation {:?} vs resolution {:?}", here, i, s)),
        }
        // 4 prepareCallHierarchy
        if a.prepare != sel.as_ref().map(|s| (s.0.clone(), s.1)) {
            out.violate("call-hierarchy-prepare-disagrees", format!("{}: prepareCallHierarchy {:?} vs resolution {:?}", here, a.prepare, sel));
        }
        // 5 outgoing calls (fixture parameters)
        if let Some(og) = &a.outgoing {
            let want = sel.as_ref().map(|s| (s.0.clone(), s.1));
            if *og != want {
                let self_named = raw.agree.iter().any(|_| false) || model.defs.iter().any(|d| d.file == a.file && d.line == a.line && d.name == a.name);
                let class = if self_named { "RC-OUTGOING-SELF-NAMED" } else if dup_in_file || og.as_ref().map(|o| raw.defs.iter().filter(|d| d.0 .0 == o.0 && d.0 .2 == a.name).count() >= 2).unwrap_or(false) { "RC-FIRST-VS-LAST" } else { "outgoing-call-disagrees" };
                out.violate(class, format!("{}: outgoing call target {:?} vs resolution {:?}", here, og, want));
            }
        }
        // 6/7 the per-file view: exactly one entry per visible name, the one resolution selects
        //     (queried without self-exclusion, as completion/inlay do)
        let plain = Some(a.plain.clone());
        if let Some(plain) = plain {
            if a.avail.len() > 1 {
                out.violate("available-duplicate-entry", format!("{}: {} entries for the name in get_available_fixtures: {:?}", here, a.avail.len(), a.avail));
            }
            let av = a.avail.first().map(|x| x.0.clone());
            if av != plain {
                let target_dups = av.as_ref().map(|o| raw.defs.iter().filter(|d| d.0 .0 == o.0 && d.0 .2 == a.name).count() >= 2).unwrap_or(false);
                let class = if dup_in_file || target_dups {
                    "RC-FIRST-VS-LAST"
                } else if matches!(model.resolve(&a.file, &a.name, None).via, Via::ConftestImport(_)) {
                    "RC-FIRST-REGISTERED"
                } else {
                    "available-entry-disagrees"
                };
                out.violate(class, format!("{}: get_available_fixtures has {:?}, resolution selects {:?}", here, av, plain));
            }
            // completion entry documentation names the same file
            if let Some(c) = &a.completion {
                if let Some(p) = &plain {
                    match c.len() {
                        0 => out.violate("completion-misses-visible-fixture", format!("{}: completion in an empty signature does not offer the fixture resolution selects ({:?})", here, p)),
                        1 => {
                            if let Some((rel, _n, _r)) = hover_from(&c[0].1) {
                                let same_file = rel == p.0 || (p.0.starts_with("../") && p.0.rsplit('/').next() == Some(rel.as_str()));
                                if !same_file && av.as_ref() == Some(p) {
                                    out.violate("completion-doc-disagrees", format!("{}: completion documentation says `{}`, resolution selects {:?}", here, rel, p));
                                }
                            }
                        }
                        n => out.violate("completion-duplicate-entry", format!("{}: {} completion entries for one name", here, n)),
                    }
                } else if !c.is_empty() {
                    out.violate("completion-offers-invisible", format!("{}: completion offers a name that resolves to nothing from this file", here));
                }
            }
            // inlay hint type = return type of the selected definition
            if !a.has_annotation && av == plain {
                // on a self-named parameter resolution selects the parent, not the view's entry
                let want = if a.lib == plain { a.avail.first().and_then(|x| x.1.clone()) } else if a.lib.is_some() { a.lib_ret.clone() } else { None }.map(|t| format!(": {}", t));
                if a.inlay != want {
                    let class = if a.lib == plain { "inlay-type-disagrees" } else { "inlay-type-of-overriding-fixture-on-self-named-parameter" };
                    out.violate(class, format!("{}: inlay {:?} vs return type of selected definition {:?} ({:?})", here, a.inlay, want, a.lib));
                }
            }
        }
    }
}

fn oracle_c14(out: &mut RunOut, model: &Model, raw: &Raw) {
    for (file, avail) in &raw.available {
        if model.spec.file(file).is_none() {
            continue;
        }
        let vis = model.visible(file);
        if vis.values().any(|e| matches!(e.via, Via::ConftestImport(_) | Via::WorkspacePlugin | Via::ThirdParty)) {
            out.nontrivial = true;
        }
        let got_names: BTreeSet<&str> = avail.iter().map(|a| a.0 .2.as_str()).collect();
        let want_names: BTreeSet<&str> = vis.keys().map(|s| s.as_str()).collect();
        for n in want_names.difference(&got_names) {
            let e = &vis[*n];
            let on_cycle = import_cycle_reaches(model, file);
            let class = if on_cycle && matches!(e.via, Via::ConftestImport(_)) { "RC-IMPORT-MEMO-TRUNCATED" } else { "visible-name-missing" };
            out.violate(class, format!("{}: '{}' should be available via {:?} ({:?}) but get_available_fixtures lacks it", file, n, e.via, e.accept.iter().map(|i| model.defs[*i].key()).collect::<Vec<_>>()));
        }
        for n in got_names.difference(&want_names) {
            out.violate("invisible-name-available", format!("{}: '{}' is offered by get_available_fixtures but no lookup level provides it ({:?})", file, n, avail.iter().find(|a| a.0 .2 == **n)));
        }
        for (k, tp, pl) in avail {
            let Some(e) = vis.get(&k.2) else { continue };
            out.count("visible_names_checked", 1);
            let ok = e.accept.iter().any(|i| model_def_matches(model, *i, k));
            if !ok {
                let class = match &e.via {
                    Via::ConftestImport(_) => "RC-FIRST-REGISTERED",
                    _ => "available-wrong-origin",
                };
                out.violate(class, format!("{}: '{}' available from {:?}, model origin {:?} via {:?}", file, k.2, k, e.accept.iter().map(|i| model.defs[*i].key()).collect::<Vec<_>>(), e.via));
                continue;
            }
            let md = model.defs.iter().find(|m| m.file == k.0 && m.line == k.1 && m.name == k.2).unwrap();
            let want_tp = md.origin == Origin::ThirdParty;
            let want_plugin_ws = md.origin == Origin::WorkspacePlugin;
            if *tp != want_tp {
                out.violate("third-party-misclassified", format!("{:?}: is_third_party={} but its source lives {}", k, tp, if want_tp { "in site-packages / outside the workspace" } else { "inside the workspace" }));
            }
            if want_plugin_ws && !md.via_explicit_only && !(*pl && !*tp) {
                out.violate("workspace-plugin-misclassified", format!("{:?}: is_plugin={} is_third_party={}", k, pl, tp));
            }
        }
    }
    // third-party never among project symbols
    for (f, syms) in &raw.docsym {
        if model.spec.third_party_files.contains(f) && !syms.is_empty() {
            out.violate("third-party-in-document-symbols", format!("{}: {:?}", f, syms));
        }
    }
    for s in &raw.wssym {
        if model.spec.third_party_files.iter().any(|t| s.contains(&format!("@{}:", t))) {
            out.violate("third-party-in-workspace-symbols", s.clone());
        }
    }
    // imported modules must have been discovered (last pytest_plugins assignment wins)
    for f in &model.spec.files {
        let imported = model.spec.files.iter().any(|g| {
            let last_plugins = g.items.iter().rposition(|i| matches!(i, Item::Plugins { .. }));
            raw.cached.contains(&g.rel)
                && g.items.iter().enumerate().any(|(idx, i)| match i {
                    Item::Star { target: Some(t), .. } | Item::Import { target: Some(t), .. } => *t == f.rel,
                    Item::Plugins { targets, .. } => Some(idx) == last_plugins && targets.iter().flatten().any(|t| *t == f.rel),
                    _ => false,
                })
        });
        if imported && !raw.cached.contains(&f.rel) {
            out.violate("imported-module-not-indexed", format!("{} is imported by an indexed file but was not analysed", f.rel));
        }
    }
}

fn import_cycle_reaches(model: &Model, file: &str) -> bool {
    // does the import graph reachable from the conftests above `file` contain a cycle?
    fn targets(model: &Model, f: &str) -> Vec<String> {
        model.spec.file(f).map(|pf| pf.items.iter().flat_map(|i| match i {
            Item::Star { target: Some(t), .. } | Item::Import { target: Some(t), .. } => vec![t.clone()],
            Item::Plugins { targets, .. } => targets.iter().flatten().cloned().collect(),
            _ => vec![],
        }).collect()).unwrap_or_default()
    }
    fn dfs(model: &Model, f: &str, stack: &mut Vec<String>, seen: &mut BTreeSet<String>) -> bool {
        if stack.iter().any(|s| s == f) {
            return true;
        }
        if !seen.insert(f.to_string()) {
            return false;
        }
        stack.push(f.to_string());
        for t in targets(model, f) {
            if dfs(model, &t, stack, seen) {
                return true;
            }
        }
        stack.pop();
        false
    }
    let mut dir = Some(super::ws::dir_of(file));
    while let Some(d) = dir {
        let c = super::ws::join_rel(&d, "conftest.py");
        if model.spec.file(&c).is_some() && dfs(model, &c, &mut vec![], &mut BTreeSet::new()) {
            return true;
        }
        dir = super::ws::parent_dir(&d);
    }
    false
}

fn oracle_c16(out: &mut RunOut, model: &Model, raw: &Raw) {
    // reference graph over resolved definitions
    let n = model.defs.len();
    let indexed: Vec<bool> = model.defs.iter().map(|d| raw.cached.contains(&d.file)).collect();
    let mut edges: Vec<Vec<(String, BTreeSet<usize>)>> = vec![vec![]; n];
    // self-named dependencies for which the model accepts "nothing" as well as a shadowed import: the
    // fixture may or may not depend on itself
    let mut maybe_self_loop: BTreeSet<usize> = BTreeSet::new();
    let mut ambiguous = false;
    for i in 0..n {
        if !indexed[i] {
            continue;
        }
        for (dep, e) in model.dep_edges(i) {
            if e.accept.len() > 1 || e.none_ok {
                ambiguous = true;
            }
            if e.none_ok && model.defs[i].name == dep {
                maybe_self_loop.insert(i);
            }
            if model.defs[i].name == dep {
                out.count("probe.self_named_dependency", 1);
                if e.accept.is_empty() {
                    out.count("probe.self_loop_without_parent", 1);
                }
            }
            edges[i].push((dep, e.accept));
        }
    }
    // SCCs (ambiguous edges: use the union; such workspaces are rare and only loosen clause 2)
    let succ = |i: usize| -> Vec<usize> {
        let mut v = vec![];
        for (dep, acc) in &edges[i] {
            if acc.is_empty() && *dep == model.defs[i].name {
                v.push(i); // pytest: recursive dependency with no parent
            }
            v.extend(acc.iter().copied().filter(|j| indexed[*j]));
        }
        v
    };
    let reach = |from: usize| -> BTreeSet<usize> {
        let mut seen = BTreeSet::new();
        let mut st = succ(from);
        while let Some(x) = st.pop() {
            if seen.insert(x) {
                st.extend(succ(x));
            }
        }
        seen
    };
    let reaches: Vec<BTreeSet<usize>> = (0..n).map(|i| if indexed[i] { reach(i) } else { BTreeSet::new() }).collect();
    let cyclic: Vec<bool> = (0..n).map(|i| reaches[i].contains(&i)).collect();
    if cyclic.iter().any(|c| *c) {
        out.nontrivial = true;
        out.count("probe.reference_graph_has_cycle", 1);
    }
    let multi = |name: &str| model.defs.iter().filter(|d| d.name == name).count() >= 2;
    // clause 1: every reported path is a real closed chain starting at the anchor definition
    for (anchor, path) in &raw.cycles {
        out.count("reported_cycles", 1);
        let Some(a) = model.defs.iter().position(|d| d.file == anchor.0 && d.line == anchor.1 && d.name == anchor.2) else {
            out.violate("cycle-anchor-unknown", format!("cycle {:?} anchored at unknown definition {:?}", path, anchor));
            continue;
        };
        // follow names
        let mut cur: BTreeSet<usize> = [a].into_iter().collect();
        let mut ok = path.first().map(|p| *p == anchor.2).unwrap_or(false);
        for name in path.iter().skip(1) {
            let mut next = BTreeSet::new();
            for c in &cur {
                for (dep, acc) in &edges[*c] {
                    if dep == name {
                        if (acc.is_empty() || maybe_self_loop.contains(c)) && *dep == model.defs[*c].name {
                            next.insert(*c);
                        }
                        next.extend(acc.iter().copied());
                    }
                }
            }
            cur = next;
            if cur.is_empty() {
                ok = false;
                break;
            }
        }
        if ok && !cur.contains(&a) {
            ok = false;
        }
        if !ok {
            let involves_multi = path.iter().any(|p| multi(p));
            let class = if involves_multi { "RC-FIRST-REGISTERED" } else { "cycle-reported-but-not-real" };
            out.violate(class, format!("reported cycle {:?} on {:?} is not a closed dependency chain in the reference graph (edges of anchor: {:?})", path, anchor, edges[a].iter().map(|(d, s)| (d.clone(), s.iter().map(|i| model.defs[*i].key()).collect::<Vec<_>>())).collect::<Vec<_>>()));
        }
    }
    // clause 2: every cyclic SCC is reported at least once
    if !ambiguous {
        let mut done: BTreeSet<usize> = BTreeSet::new();
        for i in 0..n {
            if !cyclic[i] || done.contains(&i) {
                continue;
            }
            let scc: BTreeSet<usize> = reaches[i].iter().copied().filter(|j| reaches[*j].contains(&i)).chain([i]).collect();
            done.extend(scc.iter().copied());
            let reported = raw.cycles.iter().any(|(anchor, _)| scc.iter().any(|j| model_def_matches(model, *j, anchor)));
            if !reported {
                let involves_multi = scc.iter().any(|j| multi(&model.defs[*j].name));
                let class = if involves_multi { "RC-FIRST-REGISTERED" } else { "cycle-not-reported" };
                out.violate(class, format!("dependency cycle through {:?} is not reported (reported: {:?})", scc.iter().map(|j| model.defs[*j].key()).collect::<Vec<_>>(), raw.cycles));
            }
        }
    }
    // scope mismatches: exact set of (fixture, dependency name)
    let mut want: BTreeSet<(DefK, String)> = BTreeSet::new();
    let mut want_any: BTreeSet<(DefK, String)> = BTreeSet::new();
    let mut want_all: BTreeSet<(DefK, String)> = BTreeSet::new();
    for i in 0..n {
        if !indexed[i] {
            continue;
        }
        let d = &model.defs[i];
        for (dep, acc) in &edges[i] {
            if acc.is_empty() {
                continue;
            }
            let k = ((d.file.clone(), d.line, d.name.clone()), dep.clone());
            let narrower: Vec<bool> = acc.iter().map(|j| model.defs[*j].scope < d.scope).collect();
            if narrower.iter().all(|x| *x) {
                want_all.insert(k.clone());
            }
            if narrower.iter().any(|x| *x) {
                want_any.insert(k.clone());
                out.nontrivial = true;
            }
            want.insert(k);
        }
    }
    let got: BTreeSet<(DefK, String)> = raw.mismatches.iter().map(|(f, d)| (f.clone(), d.2.clone())).collect();
    for g in &got {
        if !want_any.contains(g) {
            let imported = model.defs.iter().position(|d| d.file == g.0 .0 && d.line == g.0 .1).map(|i| edges[i].iter().any(|(dep, _)| *dep == g.1 && matches!(model.resolve(&g.0 .0, dep, if *dep == g.0 .2 { Some(i) } else { None }).via, Via::ConftestImport(_)))).unwrap_or(false);
            let class = if imported { "RC-IMPORT-ORIGIN" } else { "scope-mismatch-spurious" };
            out.violate(class, format!("scope mismatch reported for {:?} on '{}' but the resolved dependency is not narrower (reported dependency {:?})", g.0, g.1, raw.mismatches.iter().find(|(f, d)| *f == g.0 && d.2 == g.1).map(|x| &x.1)));
        }
    }
    for w in &want_all {
        if !got.contains(w) {
            let imported = model.defs.iter().position(|d| d.file == w.0 .0 && d.line == w.0 .1).map(|i| matches!(model.resolve(&w.0 .0, &w.1, if w.1 == w.0 .2 { Some(i) } else { None }).via, Via::ConftestImport(_))).unwrap_or(false);
            let class = if imported { "RC-IMPORT-ORIGIN" } else { "scope-mismatch-missing" };
            out.violate(class, format!("fixture {:?} depends on narrower-scoped '{}' but no scope mismatch is reported (reported: {:?})", w.0, w.1, raw.mismatches));
        }
    }
    let _ = (all_usages, def_key, render);
}
