//! S-SCANEDIT (C10): the real `initialize` (which starts the background scan through the tokio
//! facade onto a simulated thread with shim workers) races with didOpen/didChange of a file F whose
//! buffer differs from disk.  Full stack: `Server::serve` over in-memory pipes.

use super::batch::{RunOut, Scenario, Tier};
use super::dbsnap::{map_snap, rel, MapSnap};
use super::lspdrv::LspServer;
use super::pytext::{gen_items, names_pool, render, GenOpts};
use super::scen_resolve::abort_to_violation;
use super::simcfg::{replay_list, SimParams};
use super::util::{fnv, mix, Rng, Sandbox};
use super::ws::{gen_ws, WsOpts, WsSpec};
use crate::fixtures::FixtureDatabase;
use serde::{Deserialize, Serialize};
use serde_json::{json, Value};
use std::collections::BTreeMap;
use std::path::Path;

#[derive(Clone, Debug, Serialize, Deserialize)]
pub struct ScanEditInput {
    pub spec: WsSpec,
    pub sim: SimParams,
    pub file: String,
    pub buffer: String,
    /// "open": didOpen(F, buffer) at the chosen instant; "change": didOpen(F, disk text) right after
    /// `initialized`, then didChange(F, buffer) at the chosen instant
    pub kind: String,
    /// scheduler steps the client waits after `initialize` before sending the notification
    pub delay: u64,
    /// when set, the delay is not absolute but relative to the scheduler step at which a pilot run
    /// (scan only, same sigma) saw the scan worker pick up the file: delay = pilot + aim (>= 0).
    /// Places the notification inside the worker's read/analyse of F far more often than uniform delays.
    #[serde(default)]
    pub aim: Option<i64>,
    /// clause 2: one further change
    pub second: String,
    pub run_seed: u64,
    #[serde(default)]
    pub sandbox: Option<String>,
    /// the client names the workspace and its documents through a symlink to the root directory
    #[serde(default)]
    pub via_symlink: bool,
}

pub struct ScanEdit;

#[derive(Default)]
struct Obs {
    after_both: Option<MapSnap>,
    cache_text: Option<String>,
    after_second: Option<MapSnap>,
    cache_text2: Option<String>,
    cached_files: Vec<String>,
    failure: Option<String>,
    scan_steps_at_notify: u64,
    scan_done_before_notify: bool,
    /// the scan worker had completely recorded F (from disk) before the notification was sent: the notification
    /// strictly follows the worker's analysis of F although the scan as a whole may still be running
    worker_done_with_file_before_notify: bool,
    /// F was already marked as a plugin module when the notification had been handled: the scan's end-of-scan
    /// re-analysis of F (plugin marker refresh) may have started, i.e. may overlap with the notification
    plugin_marked_after_notify: bool,
    publishes_for_f: u32,
}

fn expected(root: &Path, files: &[String], spec: &WsSpec, f: &str, ftext: &str, f_open: bool) -> MapSnap {
    expected2(root, files, spec, f, ftext, f_open, true)
}

/// `disk_version_in_effect`: the scan reaches F on its own (walk or imports), so for an open document whose buffer does
/// not parse the file on disk is the last valid version; a file no scan reaches has no version in effect at all then.
fn expected2(root: &Path, files: &[String], spec: &WsSpec, f: &str, ftext: &str, f_open: bool, disk_version_in_effect: bool) -> MapSnap {
    let db = FixtureDatabase::new();
    if f_open {
        // F is an open document and is analysed first: following another file's import must never pick up F's on-disk text
        // (nor the modules only that older text imports)
        db.document_opened(&root.join(f));
        if disk_version_in_effect && rustpython_parser::parse(ftext, rustpython_parser::Mode::Module, "").is_err() {
            // a buffer that does not parse leaves the last valid version in effect: the file on disk
            if let Some(pf) = spec.file(f) {
                db.analyze_file(root.join(f), &render(&pf.items).text);
            }
        }
        db.analyze_file(root.join(f), ftext);
    }
    // (a document that was opened and closed again is a file like any other: indexed if the scan reaches it)
    for rf in files {
        if rf != f || !f_open {
            if let Some(pf) = spec.file(rf) {
                db.analyze_file(root.join(rf), &render(&pf.items).text);
            }
        }
    }
    map_snap(&db, root)
}

/// The files (workspace-relative) a scan that meets no notification indexes or caches, with F in its final state.
fn reachable_files(root: &Path, spec: &WsSpec, f: &str, ftext: &str, open: bool) -> Vec<String> {
    let db = FixtureDatabase::new();
    if open {
        db.document_opened(&root.join(f));
        if rustpython_parser::parse(ftext, rustpython_parser::Mode::Module, "").is_err() {
            if let Some(pf) = spec.file(f) {
                db.analyze_file(root.join(f), &render(&pf.items).text);
            }
        }
        db.analyze_file(root.join(f), ftext);
    }
    db.scan_workspace(root);
    let mut v: Vec<String> = db.file_cache.iter().map(|e| rel(root, e.key())).collect();
    v.sort();
    v
}

impl Scenario for ScanEdit {
    fn name(&self) -> &'static str {
        "scanedit"
    }
    fn rule(&self) -> &'static str {
        "real initialize over the full LSP stack starts the scan on a simulated thread with 1-4 shim workers; the client sends \
         didOpen/didChange(F, buffer != disk) after a generated number of scheduler steps so that it lands before, inside or after the \
         worker's read/analyse of F (F = test file or conftest.py); once both finished, per-file records must equal a single analysis of the \
         buffer (others: of their disk text); then one more didChange must restore exactly; non-trivial = the notification was handled while \
         the scan was still running; distinct = spec hash x schedule"
    }
    fn runs(&self, tier: Tier) -> u64 {
        match tier {
            Tier::Quick => 5_000,
            Tier::Thorough => 400_000,
        }
    }
    fn shrink_paths(&self) -> Vec<&'static str> {
        vec!["/spec/files/*/items", "/decisions/0"]
    }

    fn gen(&self, run_seed: u64, _tier: Tier) -> Value {
        let mut rng = Rng::new(run_seed);
        let mut o = WsOpts::default();
        o.file.in_class = false;
        o.max_dirs = 3;
        o.n_names = rng.range(2, 4);
        o.imports = rng.chance(450);
        o.colliding_imports = false;
        let spec = gen_ws(&mut rng, &o);
        let mut spec = spec;
        let plugin_variant = rng.chance(120);
        if plugin_variant {
            // the project's own editable plugin declares the root conftest as a plugin module: the scan
            // re-analyses that conftest at its very end (to mark its fixtures as plugin fixtures)
            use super::pytext::{Fx, Item, PyFile};
            if spec.file("conftest.py").is_none() {
                spec.files.push(PyFile { rel: "conftest.py".into(), items: vec![Item::Fixture(Fx { func: "alpha".into(), ..Default::default() })] });
            }
            // (in 2 of 5 such workspaces the plugin does not declare the conftest: the project is just installed editable)
            let mut plugin_items = vec![Item::Fixture(Fx { func: "plug_only".into(), ..Default::default() })];
            if rng.chance(600) {
                plugin_items.insert(0, Item::Plugins { modules: vec!["conftest".into()], targets: vec![Some("conftest.py".into())] });
            }
            spec.files.push(PyFile { rel: "plugsrc/myplug/plugin.py".into(), items: plugin_items });
            spec.files.push(PyFile { rel: "plugsrc/myplug/__init__.py".into(), items: vec![] });
            let sp = super::ws::SITE;
            spec.extra.push((format!("{}/myplug-0.1.0.dist-info/direct_url.json", sp), "{\"url\": \"file://${ROOT}/plugsrc\", \"dir_info\": {\"editable\": true}}".to_string()));
            // (the entry point names the plugin module or, 2 times in 5, the package: every module in the package directory is then analysed by plugin discovery)
            spec.extra.push((format!("{}/myplug-0.1.0.dist-info/entry_points.txt", sp), if rng.chance(400) { "[pytest11]\nmyplug = myplug\n".to_string() } else { "[pytest11]\nmyplug = myplug.plugin\n".to_string() }));
            spec.extra.push((format!("{}/__editable__.myplug-0.1.0.pth", sp), "${ROOT}/plugsrc\n".to_string()));
            // a helper module of that project which the root conftest declares in pytest_plugins: every file below an editable
            // install's source root is in the import scan's work list once it is cached, helper modules included
            spec.files.push(PyFile { rel: "plugsrc/myplug/plug_helper.py".into(), items: vec![Item::Fixture(Fx { func: "helper_plug_fx".into(), ..Default::default() })] });
            if let Some(cf) = spec.files.iter_mut().find(|f| f.rel == "conftest.py") {
                if let Some(Item::Plugins { modules, targets }) = cf.items.iter_mut().rev().find(|i| matches!(i, Item::Plugins { .. })) {
                    modules.push("myplug.plug_helper".into());
                    targets.push(Some("plugsrc/myplug/plug_helper.py".into()));
                } else {
                    cf.items.insert(0, Item::Plugins { modules: vec!["myplug.plug_helper".into()], targets: vec![Some("plugsrc/myplug/plug_helper.py".into())] });
                }
            }
        }
        // in that variant the raced document is, 2 times in 5, the declared helper module, open and half typed
        let plug_helper_raced = plugin_variant && rng.chance(400);
        let names = names_pool(o.n_names);
        let cands: Vec<String> = spec.files.iter().filter(|f| f.rel.ends_with("conftest.py") || f.rel.rsplit('/').next().map(|n| n.starts_with("test_") || n.ends_with("_test.py")).unwrap_or(false)).map(|f| f.rel.clone()).collect();
        // helper modules the walk does not visit: indexed only because a conftest / test module imports them
        let helpers: Vec<String> = {
            use super::pytext::Item;
            let mut v: Vec<String> = vec![];
            for f in spec.files.iter().filter(|f| cands.contains(&f.rel)) {
                for it in &f.items {
                    let ts: Vec<String> = match it {
                        Item::Star { target: Some(t), .. } | Item::Import { target: Some(t), .. } => vec![t.clone()],
                        Item::Plugins { targets, .. } => targets.iter().flatten().cloned().collect(),
                        _ => vec![],
                    };
                    for t in ts {
                        if !cands.contains(&t) && !t.starts_with('.') && !t.ends_with("__init__.py") && spec.file(&t).is_some() && !v.contains(&t) {
                            v.push(t);
                        }
                    }
                }
            }
            v
        };
        let helper_raced = !plugin_variant && !helpers.is_empty() && rng.chance(300);
        let file = if plug_helper_raced { "plugsrc/myplug/plug_helper.py".to_string() } else if plugin_variant { "conftest.py".to_string() } else if helper_raced { rng.pick(&helpers).clone() } else if cands.is_empty() { "test_new.py".to_string() } else { rng.pick(&cands).clone() };
        let is_test_module = !file.ends_with("conftest.py") && !helper_raced && !plug_helper_raced;
        // the raced document carries more fixtures than the others: longer cleanup and recording phases
        let go = GenOpts { in_class: false, max_fixtures: 6, dup_names: false, ..GenOpts::default() };
        if let Some(pf) = spec.files.iter_mut().find(|f| f.rel == file) {
            if rng.chance(600) {
                let keep: Vec<super::pytext::Item> = pf.items.iter().filter(|i| matches!(i, super::pytext::Item::Star { .. } | super::pytext::Item::Import { .. } | super::pytext::Item::Plugins { .. })).cloned().collect();
                let mut items = keep;
                items.extend(gen_items(&mut rng, &names_pool(6), is_test_module, &go));
                pf.items = items;
            }
        }
        let buffer = render(&gen_items(&mut rng, &names_pool(6), is_test_module, &go)).text;
        let second = render(&gen_items(&mut rng, &names, is_test_module, &go)).text;
        let mut sim = SimParams::gen(&mut rng, 4000);
        sim.max_steps = 20_000_000;
        let delay = match rng.below(4) {
            0 => 0,
            1 => rng.below(200) as u64,
            2 => rng.below(2500) as u64,
            _ => rng.below(12000) as u64,
        };
        // "openclose": the user looks at an unmodified document and closes it again while the scan is running
        let kind = if plug_helper_raced { "open" } else if rng.chance(150) { "openclose" } else if rng.chance(450) { "open" } else { "change" };
        let buffer = if kind == "openclose" { spec.file(&file).map(|pf| render(&pf.items).text).unwrap_or_else(|| "import pytest\n".to_string()) } else { buffer };
        // aimed notifications: a little before the worker picks up F (the message still has to be read
        // and dispatched) up to a little after
        let aim = if rng.chance(550) { Some(if rng.chance(700) { rng.below(260) as i64 - 200 } else { rng.below(900) as i64 - 450 }) } else { None };
        if aim.is_some() {
            // aimed runs want fine-grained interleaving of the worker and the handler
            let keep = sim.max_steps;
            sim = SimParams::dense(&mut rng, 4000);
            sim.shards = *rng.pick(&[1usize, 2, 4, 16]);
            sim.max_steps = keep;
        }
        let via_symlink = rng.chance(150);
        // the user is in the middle of typing: the buffer does not parse (the file on disk is its last valid version)
        // (an open+close of a half-typed document: 2 in 5)
        let buffer = if rng.chance(if plug_helper_raced { 500 } else if kind == "openclose" { 400 } else { 150 }) { super::pytext::break_syntax(&mut rng, &spec.file(&file).map(|pf| render(&pf.items).text).unwrap_or_else(|| buffer.clone())) } else { buffer };
        serde_json::to_value(ScanEditInput { spec, sim, file, buffer, kind: kind.into(), delay, aim, second, run_seed, sandbox: None, via_symlink }).unwrap()
    }

    fn exec(&self, input: &Value) -> RunOut {
        let mut out = RunOut::default();
        let inp: ScanEditInput = match serde_json::from_value(input.clone()) {
            Ok(i) => i,
            Err(e) => {
                out.harness_error = Some(format!("bad input: {}", e));
                return out;
            }
        };
        let sb = Sandbox::acquire("c10", inp.run_seed, inp.sandbox.as_deref().map(Path::new));
        let root = inp.spec.materialise(&sb.root());
        if inp.via_symlink {
            let _ = std::os::unix::fs::symlink(&root, sb.root().join("wslink"));
            out.count("fault.workspace_named_through_a_symlink", 1);
        }
        let mut inp = inp;
        let mut k = 0;
        if let Some(aim) = inp.aim {
            // pilot: when does the scan pick up F under this sigma?
            let r3 = root.clone();
            let f3 = inp.file.clone();
            // an open+close is aimed at the end of the walk (just before the import phase builds its work list)
            let walk_files = if inp.kind == "openclose" {
                Some(inp.spec.files.iter().filter(|f| !f.rel.starts_with('.') && !f.rel.starts_with("plugsrc/")).filter(|f| { let b = f.rel.rsplit('/').next().unwrap_or(""); b == "conftest.py" || (b.starts_with("test_") && b.ends_with(".py")) || b.ends_with("_test.py") }).count())
            } else {
                None
            };
            let (poc, t) = simrt::run(inp.sim.cfg(replay_list(input, 0)), move || pilot2(&r3, &f3, walk_files));
            out.absorb_outcome(&poc);
            k = 1;
            if let Some(a) = &poc.abort {
                abort_to_violation(&mut out, a, "pilot scan");
                return out;
            }
            let t = t.flatten().unwrap_or(0) as i64;
            inp.delay = (t + aim).max(0) as u64;
            out.count("fault.notification_aimed_at_scan_of_file", 1);
            // a fresh tree for the real run (the pilot did not modify it, but keep creation order identical)
        }
        let root2 = root.clone();
        let i2 = inp.clone();
        let (oc, obs) = simrt::run(inp.sim.cfg(replay_list(input, k)), move || drive(&root2, &i2));
        out.absorb_outcome(&oc);
        out.fingerprint = mix(fnv(&serde_json::to_string(&(&inp.spec, &inp.file, &inp.buffer, inp.delay)).unwrap()), oc.log_hash);
        if let Some(a) = &oc.abort {
            abort_to_violation(&mut out, a, "scan vs notification");
            return out;
        }
        let Some(obs) = obs else {
            out.harness_error = Some("no observation".into());
            return out;
        };
        if let Some(f) = obs.failure {
            if f.starts_with("HARNESS") {
                out.harness_error = Some(f);
            } else {
                out.violate("scanedit-server-failure", f);
            }
            return out;
        }
        out.nontrivial = !obs.scan_done_before_notify;
        out.count("probe.notification_while_scan_running", (!obs.scan_done_before_notify) as u64);
        out.count("probe.notification_after_scan_finished", obs.scan_done_before_notify as u64);
        out.count("probe.notification_after_worker_finished_file_but_scan_running", (obs.worker_done_with_file_before_notify && !obs.scan_done_before_notify) as u64);
        out.count("fault.notification_delay_steps", inp.delay);
        let Some(a) = obs.after_both else { return out };
        out.state_hash = a.hash();
        // (the expected index is built without a venv scan: plugin / third-party flags are not compared here)
        let a = a.without_origin_flags();
        // a document that was opened and closed again is, in the end, the file on disk
        let disk_text = inp.spec.file(&inp.file).map(|pf| render(&pf.items).text).unwrap_or_else(|| "import pytest\n".to_string());
        let final_text = if inp.kind == "openclose" { disk_text.as_str() } else { inp.buffer.as_str() };
        // which files the index must cover does not depend on the race: whatever the server cached, plus everything a
        // scan without any notification reaches (a module the raced run never got to is a lost module, not a smaller workspace)
        let mut files = obs.cached_files.clone();
        let reach = reachable_files(&root, &inp.spec, &inp.file, final_text, inp.kind != "openclose");
        if inp.kind == "openclose" && !reach.contains(&inp.file) {
            // a file no scan reaches (its only import is one the analyser deliberately ignores) that was opened and closed:
            // whether its records stay is the business of C07's known finding about merely opened files, not of this check
            out.count("probe.openclose_of_a_file_no_scan_reaches_skipped", 1);
            out.nontrivial = false;
            return out;
        }
        for n in reach {
            if !files.contains(&n) {
                out.count("probe.file_reached_by_plain_scan_but_not_cached_by_raced_run", 1);
                files.push(n);
            }
        }
        files.sort();
        // does a scan reach F by itself?  (decides whether the file on disk counts as "the last valid version" of a document
        // that was only ever open with a buffer that does not parse)
        let scan_reaches_f = reachable_files(&root, &inp.spec, &inp.file, &disk_text, false).contains(&inp.file);
        let want = expected2(&root, &files, &inp.spec, &inp.file, final_text, inp.kind != "openclose", scan_reaches_f).without_origin_flags();
        if let Some(d) = a.diff(&want, false) {
            // class: records of two versions of F, and nothing else
            let only_f = {
                let frel = &inp.file;
                let lines_a: Vec<&String> = a.definitions.iter().chain(a.usages.iter()).chain(a.file_definitions.iter()).chain(a.usage_by_fixture.iter()).chain(a.imports.iter()).collect();
                let lines_w: Vec<&String> = want.definitions.iter().chain(want.usages.iter()).chain(want.file_definitions.iter()).chain(want.usage_by_fixture.iter()).chain(want.imports.iter()).collect();
                let extra: Vec<&&String> = lines_a.iter().filter(|l| !lines_w.contains(l)).collect();
                let missing: Vec<&&String> = lines_w.iter().filter(|l| !lines_a.contains(l)).collect();
                // (an index that differs only in multiplicities is not "records of two versions of F")
                (!extra.is_empty() || !missing.is_empty()) && extra.iter().chain(missing.iter()).all(|l| l.contains(frel.as_str()))
            };
            // the known finding never loses what the editor sent: the scan's no-cleanup analysis only ever ADDS
            // on-disk records (or replaces usages/text); an index from which buffer definitions are missing
            // is something else
            let frel = format!("@{}:", inp.file);
            let buffer_defs_present = want.definitions.iter().filter(|l| l.contains(&frel)).all(|l| a.definitions.contains(l));
            let _ = buffer_defs_present;
            let raced = !obs.scan_done_before_notify && !(obs.worker_done_with_file_before_notify && !obs.plugin_marked_after_notify);
            let class = if only_f && raced { "RC-SCAN-NO-CLEANUP" } else { "scanedit-index-differs" };
            out.violate(class, format!("after scan and did{}({}) both finished (notification sent after {} steps): index != single analysis of the buffer: {}", inp.kind, inp.file, inp.delay, d));
        } else if inp.kind != "openclose" && obs.cache_text.as_deref() != Some(inp.buffer.as_str()) {
            let class = if !obs.scan_done_before_notify && !(obs.worker_done_with_file_before_notify && !obs.plugin_marked_after_notify) { "RC-SCAN-NO-CLEANUP" } else { "scanedit-cached-text-differs" };
            out.violate(class, format!("cached text of {} is not the editor's buffer after scan and notification finished (it is {})", inp.file, if obs.cache_text.is_some() { "the on-disk text or another version" } else { "absent" }));
        }
        if let Some(c) = a.consistency() {
            // dangling reverse-index entries of F are the same root cause (two unordered analyses of F)
            let entries: Vec<&str> = c.split('"').enumerate().filter(|(i, _)| i % 2 == 1).map(|(_, s)| s).collect();
            let only_f = !entries.is_empty() && entries.iter().all(|e| e.contains(&format!("@{}:", inp.file)));
            let class = if only_f && !obs.scan_done_before_notify && !(obs.worker_done_with_file_before_notify && !obs.plugin_marked_after_notify) { "RC-SCAN-NO-CLEANUP" } else { "scanedit-index-inconsistent" };
            out.violate(class, format!("after scan and did{}({}) both finished: {}", inp.kind, inp.file, c));
        }
        // clause 2
        if let Some(b) = obs.after_second {
            let b = b.without_origin_flags();
            let want2 = expected(&root, &files, &inp.spec, &inp.file, &inp.second, true).without_origin_flags();
            if let Some(d) = b.diff(&want2, false) {
                out.violate("scanedit-not-restored", format!("one further didChange({}) did not restore the single-analysis state: {}", inp.file, d));
            } else if obs.cache_text2.as_deref() != Some(inp.second.as_str()) {
                out.violate("scanedit-not-restored", format!("cached text of {} after the further change is not the new buffer", inp.file));
            }
        }
        out
    }
}

/// Scan only; returns the number of scheduler steps after `initialized` at which F's text entered the cache
/// (with `walk_files` = Some(n): at which n files were cached, i.e. the walk was about done and the import phase about to start).
fn pilot(root: &Path, file: &str) -> Option<u64> {
    pilot2(root, file, None)
}

fn pilot2(root: &Path, file: &str, walk_files: Option<usize>) -> Option<u64> {
    let mut srv = LspServer::start(root);
    let id = srv.initialize();
    srv.await_response(id, 200)?;
    srv.notify("initialized", json!({}));
    srv.steps(3);
    let t0 = simrt::total_steps();
    let abs = root.join(file);
    let mut found = None;
    for _ in 0..4000 {
        let hit = match walk_files {
            Some(n) => srv.db.file_cache.len() >= n,
            None => srv.db.file_cache.contains_key(&abs),
        };
        if hit {
            found = Some(simrt::total_steps() - t0);
            break;
        }
        if srv.scan_complete_seen() {
            break;
        }
        simrt::sleep_steps(15);
        srv.steps(1);
    }
    srv.join_scan();
    srv.settle(2, 500);
    found
}

fn drive(root: &Path, inp: &ScanEditInput) -> Obs {
    let mut obs = Obs::default();
    // (index lookups below use the canonical `root`; only what the client sends goes through the link)
    let server_root = if inp.via_symlink { root.parent().map(|p| p.join("wslink")).unwrap_or_else(|| root.to_path_buf()) } else { root.to_path_buf() };
    let mut srv = LspServer::start(&server_root);
    let id = srv.initialize();
    if srv.await_response(id, 200).is_none() {
        obs.failure = Some(format!("no response to initialize (panic: {:?})", srv.server_panic));
        return obs;
    }
    srv.notify("initialized", json!({}));
    if inp.kind == "change" {
        // a conforming client opens the document (with the on-disk text) before it edits it
        let disk = inp.spec.file(&inp.file).map(|f| render(&f.items).text).unwrap_or_else(|| "import pytest\n".to_string());
        srv.did_open(&inp.file, &disk, 1);
    }
    srv.steps(3); // lets the spawned scan task reach spawn_blocking
    simrt::sleep_steps(inp.delay);
    obs.scan_steps_at_notify = simrt::total_steps();
    srv.steps(1);
    obs.scan_done_before_notify = srv.scan_complete_seen();
    if inp.kind == "open" {
        if let Some(pf) = inp.spec.file(&inp.file) {
            let fresh = FixtureDatabase::new();
            let abs = root.join(&inp.file);
            fresh.analyze_file(abs.clone(), &render(&pf.items).text);
            let count = |db: &FixtureDatabase| {
                let d: usize = db.definitions.iter().map(|e| e.value().iter().filter(|x| x.file_path == abs).count()).sum();
                let u: usize = db.usages.get(&abs).map(|u| u.len()).unwrap_or(0);
                let r: usize = db.usage_by_fixture.iter().map(|e| e.value().iter().filter(|(p, _)| *p == abs).count()).sum();
                let fd: usize = db.file_definitions.get(&abs).map(|s| s.len()).unwrap_or(0);
                (d, u, r, fd, db.imports.contains_key(&abs))
            };
            obs.worker_done_with_file_before_notify = srv.db.file_cache.contains_key(&abs) && count(&srv.db) == count(&fresh);
        }
    }
    if inp.kind == "open" {
        srv.did_open(&inp.file, &inp.buffer, 1);
    } else if inp.kind == "openclose" {
        srv.did_open(&inp.file, &inp.buffer, 1);
        srv.did_close(&inp.file);
    } else {
        srv.did_change(&inp.file, &inp.buffer, 2);
    }
    srv.settle(3, 400);
    obs.plugin_marked_after_notify = srv.db.plugin_fixture_files.contains_key(&root.join(&inp.file));
    if std::env::var("PLSIM_DEBUG").is_ok() {
        let abs = root.join(&inp.file);
        let d: Vec<String> = srv.db.definitions.iter().flat_map(|e| e.value().iter().filter(|x| x.file_path == abs).map(|x| format!("{}@{}", x.name, x.line)).collect::<Vec<_>>()).collect();
        eprintln!("DEBUG after notification settled: worker_done={} scan_done_before={} defs(F)={:?} scan_complete_now={} plugin_marked={}", obs.worker_done_with_file_before_notify, obs.scan_done_before_notify, d, srv.scan_complete_seen(), srv.db.plugin_fixture_files.contains_key(&abs));
    }
    srv.join_scan();
    if !srv.settle(3, 2000) || !srv.scan_complete_seen() {
        obs.failure = Some(format!("server did not become quiescent / scan completion not reported (panic: {:?}, logs: {:?})", srv.server_panic, srv.log_messages));
        return obs;
    }
    if srv.log_messages.iter().any(|m| m.contains("Workspace scan failed")) {
        obs.failure = Some(format!("scan failed: {:?}", srv.log_messages));
        return obs;
    }
    let db = srv.db.clone();
    if std::env::var("PLSIM_DEBUG").is_ok() {
        let abs = root.join(&inp.file);
        let d: Vec<String> = db.definitions.iter().flat_map(|e| e.value().iter().filter(|x| x.file_path == abs).map(|x| format!("{}@{} plug={}", x.name, x.line, x.is_plugin)).collect::<Vec<_>>()).collect();
        eprintln!("DEBUG after scan joined: defs(F)={:?} cache_is_buffer={}", d, db.file_cache.get(&abs).map(|c| c.as_str() == inp.buffer).unwrap_or(false));
    }
    obs.after_both = Some(map_snap(&db, root));
    obs.cached_files = db.file_cache.iter().map(|e| rel(root, e.key())).collect();
    obs.cached_files.sort();
    // registration order must not matter for the per-file multisets; keep disk order stable
    obs.cache_text = db.file_cache.get(&root.join(&inp.file)).map(|c| c.value().as_ref().clone());
    obs.publishes_for_f = srv.diagnostics.get(&srv.uri(&inp.file)).map(|d| d.1).unwrap_or(0);
    // clause 2
    srv.did_change(&inp.file, &inp.second, 3);
    if !srv.settle(3, 2000) {
        obs.failure = Some(format!("server not quiescent after the further change (panic: {:?})", srv.server_panic));
        return obs;
    }
    obs.after_second = Some(map_snap(&db, root));
    obs.cache_text2 = db.file_cache.get(&root.join(&inp.file)).map(|c| c.value().as_ref().clone());
    let _: BTreeMap<(), ()> = BTreeMap::new();
    obs
}
