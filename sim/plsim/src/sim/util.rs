//! Small shared helpers: PRNG, hashing, sandbox directories.

use std::path::{Path, PathBuf};

#[derive(Clone, Debug)]
pub struct Rng(pub u64);

impl Rng {
    pub fn new(seed: u64) -> Self {
        let mut r = Rng(seed ^ 0x6A09_E667_F3BC_C909);
        r.next();
        r
    }
    pub fn next(&mut self) -> u64 {
        simrt::splitmix(&mut self.0)
    }
    pub fn below(&mut self, n: usize) -> usize {
        if n == 0 {
            0
        } else {
            (self.next() % n as u64) as usize
        }
    }
    pub fn range(&mut self, lo: usize, hi_incl: usize) -> usize {
        lo + self.below(hi_incl - lo + 1)
    }
    pub fn chance(&mut self, per_mille: u32) -> bool {
        (self.next() % 1000) < per_mille as u64
    }
    pub fn pick<'a, T>(&mut self, v: &'a [T]) -> &'a T {
        &v[self.below(v.len())]
    }
    pub fn shuffle<T>(&mut self, v: &mut [T]) {
        for i in (1..v.len()).rev() {
            let j = self.below(i + 1);
            v.swap(i, j);
        }
    }
    pub fn fork(&mut self) -> Rng {
        Rng::new(self.next())
    }
}

pub fn mix(a: u64, b: u64) -> u64 {
    let mut x = a ^ b.wrapping_mul(0x9E37_79B9_7F4A_7C15).rotate_left(17);
    simrt::splitmix(&mut x)
}

pub fn fnv(s: &str) -> u64 {
    let mut h = 0xcbf29ce484222325u64;
    for b in s.bytes() {
        h ^= b as u64;
        h = h.wrapping_mul(0x100000001b3);
    }
    h
}

pub fn prop_num(prop: &str) -> u64 {
    prop.trim_start_matches('C').parse::<u64>().unwrap_or(0)
}

/// Root under which every simulated workspace is materialised.  tmpfs: listing order is reverse
/// creation order, so the simulator controls readdir order by choosing creation order.
pub fn sandbox_base() -> PathBuf {
    let shm = Path::new("/dev/shm");
    if shm.is_dir() {
        shm.join("plsim")
    } else {
        std::env::temp_dir().join("plsim")
    }
}

/// A per-run directory.  The path is a pure function of (tag, run_seed) unless that slot is
/// occupied by another live process, in which case the next slot is taken; the path actually used
/// is recorded in replay files.
pub struct Sandbox {
    pub path: PathBuf,
}

impl Sandbox {
    pub fn acquire(tag: &str, run_seed: u64, forced: Option<&Path>) -> Sandbox {
        let base = sandbox_base();
        let _ = std::fs::create_dir_all(&base);
        if let Some(p) = forced {
            // replay: must use exactly this path
            for _ in 0..200 {
                if Self::try_claim(p) {
                    return Sandbox { path: p.to_path_buf() };
                }
                std::thread::sleep(std::time::Duration::from_millis(50));
            }
            eprintln!("plsim: sandbox {:?} is busy", p);
            std::process::exit(2);
        }
        for slot in 0..64 {
            let p = base.join(format!("{}-{:016x}-{}", tag, run_seed, slot));
            if Self::try_claim(&p) {
                return Sandbox { path: p };
            }
        }
        eprintln!("plsim: no free sandbox slot for {} {:x}", tag, run_seed);
        std::process::exit(2);
    }

    fn try_claim(p: &Path) -> bool {
        match std::fs::create_dir(p) {
            Ok(()) => {
                let _ = std::fs::write(p.join(".owner"), std::process::id().to_string());
                true
            }
            Err(_) => {
                // stale?
                if let Ok(s) = std::fs::read_to_string(p.join(".owner")) {
                    if let Ok(pid) = s.trim().parse::<u32>() {
                        if pid != std::process::id() && !Path::new(&format!("/proc/{}", pid)).exists() {
                            let _ = std::fs::remove_dir_all(p);
                            if std::fs::create_dir(p).is_ok() {
                                let _ = std::fs::write(p.join(".owner"), std::process::id().to_string());
                                return true;
                            }
                        }
                    }
                }
                false
            }
        }
    }

    /// The directory handed to scenarios (the `.owner` marker lives beside it, not inside).
    pub fn root(&self) -> PathBuf {
        self.path.join("r")
    }
}

impl Drop for Sandbox {
    fn drop(&mut self) {
        let _ = std::fs::remove_dir_all(&self.path);
    }
}

pub fn json_str(v: &serde_json::Value) -> String {
    serde_json::to_string(v).unwrap_or_default()
}

pub fn now_s(t: std::time::Instant) -> f64 {
    t.elapsed().as_secs_f64()
}
