//! Canonical, order-insensitive snapshots of the index maps.

use crate::fixtures::{FixtureDatabase, FixtureDefinition, FixtureUsage};
use std::collections::BTreeMap;
use std::path::{Path, PathBuf};

pub fn rel(root: &Path, p: &Path) -> String {
    if let Ok(r) = p.strip_prefix(root) {
        let r = r.to_string_lossy().to_string();
        // (specs and models name the virtualenv's library directory `SITE` whatever its layout on disk)
        for layout in super::ws::VENV_LAYOUTS {
            if let Some(rest) = r.strip_prefix(&format!(".venv/{}/site-packages", layout)) {
                return format!("{}{}", super::ws::SITE, rest);
            }
        }
        return r;
    }
    // files next to the workspace (external editable installs) are named relative to it as well
    if let Some(parent) = root.parent() {
        if let Ok(r) = p.strip_prefix(parent) {
            return format!("../{}", r.to_string_lossy());
        }
    }
    p.to_string_lossy().to_string()
}

pub fn def_key(root: &Path, d: &FixtureDefinition) -> String {
    format!("{}@{}:{}", d.name, rel(root, &d.file_path), d.line)
}

pub fn def_full(root: &Path, d: &FixtureDefinition) -> String {
    format!(
        "{}@{}:{}-{}[{}..{}] scope={:?} auto={} tp={} plug={} deps={:?} ret={:?} yield={:?} doc={:?}",
        d.name,
        rel(root, &d.file_path),
        d.line,
        d.end_line,
        d.start_char,
        d.end_char,
        d.scope,
        d.autouse,
        d.is_third_party,
        d.is_plugin,
        d.dependencies,
        d.return_type,
        d.yield_line,
        d.docstring
    )
}

pub fn usage_key(root: &Path, u: &FixtureUsage) -> String {
    format!("{}@{}:{}[{}..{}]", u.name, rel(root, &u.file_path), u.line, u.start_char, u.end_char)
}

/// The primary maps as sorted multisets (vector order inside a name is deliberately dropped: it
/// is observable only through the registration-order dependence that C08 owns).
#[derive(Clone, Debug, PartialEq, Eq, Default)]
pub struct MapSnap {
    pub definitions: Vec<String>,
    pub file_definitions: Vec<String>,
    pub usages: Vec<String>,
    pub usage_by_fixture: Vec<String>,
    pub imports: Vec<String>,
    pub undeclared: Vec<String>,
    pub empties: Vec<String>,
}

pub fn map_snap(db: &FixtureDatabase, root: &Path) -> MapSnap {
    let mut s = MapSnap::default();
    for e in db.definitions.iter() {
        if e.value().is_empty() {
            s.empties.push(format!("definitions[{}]", e.key()));
        }
        for d in e.value().iter() {
            if &d.name != e.key() {
                s.empties.push(format!("definitions[{}] holds {}", e.key(), d.name));
            }
            s.definitions.push(def_full(root, d));
        }
    }
    for e in db.file_definitions.iter() {
        if e.value().is_empty() {
            s.empties.push(format!("file_definitions[{}]", rel(root, e.key())));
        }
        for n in e.value().iter() {
            s.file_definitions.push(format!("{}:{}", rel(root, e.key()), n));
        }
    }
    for e in db.usages.iter() {
        for u in e.value().iter() {
            s.usages.push(format!("{}>{}", rel(root, e.key()), usage_key(root, u)));
        }
    }
    for e in db.usage_by_fixture.iter() {
        if e.value().is_empty() {
            s.empties.push(format!("usage_by_fixture[{}]", e.key()));
        }
        for (p, u) in e.value().iter() {
            s.usage_by_fixture.push(format!("{}>{}>{}", e.key(), rel(root, p), usage_key(root, u)));
        }
    }
    for e in db.imports.iter() {
        let mut v: Vec<&String> = e.value().iter().collect();
        v.sort();
        s.imports.push(format!("{}:{:?}", rel(root, e.key()), v));
    }
    for e in db.undeclared_fixtures.iter() {
        for u in e.value().iter() {
            s.undeclared.push(format!("{}>{}@{}[{}..{}] in {}@{}", rel(root, e.key()), u.name, u.line, u.start_char, u.end_char, u.function_name, u.function_line));
        }
    }
    s.definitions.sort();
    s.file_definitions.sort();
    s.usages.sort();
    s.usage_by_fixture.sort();
    s.imports.sort();
    s.undeclared.sort();
    s.empties.sort();
    s
}

impl MapSnap {
    /// drop the plugin / third-party flags of definitions (for comparisons with indices built without a venv scan)
    pub fn without_origin_flags(&self) -> MapSnap {
        let strip = |l: &String| -> String {
            let mut t = l.clone();
            for f in [" tp=true", " tp=false", " plug=true", " plug=false"] {
                t = t.replace(f, "");
            }
            t
        };
        let mut m = self.clone();
        m.definitions = m.definitions.iter().map(strip).collect();
        m.definitions.sort();
        m
    }

    /// first differing component, for reports
    pub fn diff(&self, other: &MapSnap, with_undeclared: bool) -> Option<String> {
        let pairs: [(&str, &Vec<String>, &Vec<String>); 6] = [
            ("definitions", &self.definitions, &other.definitions),
            ("file_definitions", &self.file_definitions, &other.file_definitions),
            ("usages", &self.usages, &other.usages),
            ("usage_by_fixture", &self.usage_by_fixture, &other.usage_by_fixture),
            ("imports", &self.imports, &other.imports),
            ("undeclared", &self.undeclared, &other.undeclared),
        ];
        for (name, a, b) in pairs {
            if name == "undeclared" && !with_undeclared {
                continue;
            }
            if a != b {
                let only_a: Vec<&String> = a.iter().filter(|x| !b.contains(x)).collect();
                let only_b: Vec<&String> = b.iter().filter(|x| !a.contains(x)).collect();
                // equal as sets but not as multisets: name the records whose multiplicity differs
                let mut dup: Vec<String> = vec![];
                if only_a.is_empty() && only_b.is_empty() {
                    let mut seen: std::collections::BTreeSet<&String> = Default::default();
                    for x in a.iter().chain(b.iter()) {
                        if seen.insert(x) {
                            let (ca, cb) = (a.iter().filter(|y| *y == x).count(), b.iter().filter(|y| *y == x).count());
                            if ca != cb {
                                dup.push(format!("{}x/{}x {}", ca, cb, x));
                            }
                        }
                    }
                }
                return Some(format!("{}: only-left={:?} only-right={:?} (sizes {} vs {}){}", name, only_a, only_b, a.len(), b.len(), if dup.is_empty() { String::new() } else { format!(" multiplicity differs: {:?}", dup) }));
            }
        }
        None
    }

    /// All record lines of the snapshot that are in `self` but not in `other`, and vice versa.
    pub fn only(&self, other: &MapSnap) -> (Vec<String>, Vec<String>) {
        let mut l = vec![];
        let mut r = vec![];
        for (a, b) in [(&self.definitions, &other.definitions), (&self.file_definitions, &other.file_definitions), (&self.usages, &other.usages), (&self.usage_by_fixture, &other.usage_by_fixture), (&self.imports, &other.imports)] {
            l.extend(a.iter().filter(|x| !b.contains(x)).cloned());
            r.extend(b.iter().filter(|x| !a.contains(x)).cloned());
        }
        (l, r)
    }

    /// internal consistency between forward and reverse indices
    pub fn consistency(&self) -> Option<String> {
        if !self.empties.is_empty() {
            return Some(format!("empty or misfiled entries: {:?}", self.empties));
        }
        // usage_by_fixture mirrors usages exactly
        let mut fwd: Vec<String> = self.usages.iter().map(|s| s.split_once('>').map(|x| x.1.to_string()).unwrap_or_default()).collect();
        let mut rev: Vec<String> = self.usage_by_fixture.iter().map(|s| s.splitn(3, '>').nth(2).unwrap_or("").to_string()).collect();
        fwd.sort();
        rev.sort();
        if fwd != rev {
            // multiset difference (an entry recorded twice on one side shows up here)
            let mut only_f: Vec<String> = vec![];
            let mut rest = rev.clone();
            for x in &fwd {
                if let Some(p) = rest.iter().position(|y| y == x) {
                    rest.remove(p);
                } else {
                    only_f.push(x.clone());
                }
            }
            return Some(format!("usage_by_fixture does not mirror usages: only-usages={:?} only-reverse={:?}", only_f, rest));
        }
        None
    }

    pub fn hash(&self) -> u64 {
        let mut h = 0u64;
        for v in [&self.definitions, &self.file_definitions, &self.usages, &self.usage_by_fixture, &self.imports] {
            for s in v {
                h = super::util::mix(h, super::util::fnv(s));
            }
            h = super::util::mix(h, 0x1111);
        }
        h
    }
}

pub fn all_defs(db: &FixtureDatabase) -> Vec<FixtureDefinition> {
    let mut v: Vec<FixtureDefinition> = db.definitions.iter().flat_map(|e| e.value().clone()).collect();
    v.sort_by(|a, b| (a.file_path.clone(), a.line, a.name.clone()).cmp(&(b.file_path.clone(), b.line, b.name.clone())));
    v
}

pub fn all_usages(db: &FixtureDatabase) -> Vec<FixtureUsage> {
    let mut v: Vec<FixtureUsage> = db.usages.iter().flat_map(|e| e.value().clone()).collect();
    v.sort_by(|a, b| (a.file_path.clone(), a.line, a.start_char, a.name.clone()).cmp(&(b.file_path.clone(), b.line, b.start_char, b.name.clone())));
    v
}

pub fn files_in_cache(db: &FixtureDatabase) -> Vec<PathBuf> {
    let mut v: Vec<PathBuf> = db.file_cache.iter().map(|e| e.key().clone()).collect();
    v.sort();
    v
}

pub fn group_by_name(defs: &[FixtureDefinition]) -> BTreeMap<String, Vec<FixtureDefinition>> {
    let mut m: BTreeMap<String, Vec<FixtureDefinition>> = BTreeMap::new();
    for d in defs {
        m.entry(d.name.clone()).or_default().push(d.clone());
    }
    m
}
