//! Observation of the real code's answers: direct handler calls on the real `Backend`
//! (obtained from `LspService::inner()`), and the normalised observable snapshot (DESIGN.md §7.6).

use super::dbsnap::{all_defs, def_key, rel, usage_key};
use super::pytext::{Tok, TokKind};
use crate::fixtures::{FixtureDatabase, FixtureDefinition};
use crate::providers::Backend;
use serde_json::{json, Value};
use std::collections::BTreeMap;
use std::future::Future;
use std::path::{Path, PathBuf};
use std::sync::Arc;
use std::task::{Context, Poll};
use tower_lsp_server::ls_types::Uri;
use tower_lsp_server::{ClientSocket, LspService};

/// Poll a handler future to completion without a runtime.  Query handlers never wait on anything
/// (uncontended async locks resolve immediately); a pending future is a harness error.
pub fn poll_now<F: Future>(f: F) -> F::Output {
    let mut f = std::pin::pin!(f);
    let waker = futures::task::noop_waker();
    let mut cx = Context::from_waker(&waker);
    for _ in 0..64 {
        if let Poll::Ready(v) = f.as_mut().poll(&mut cx) {
            return v;
        }
    }
    simrt::harness_abort("query handler future stayed pending".into())
}

pub struct Lsp {
    pub service: LspService<Backend>,
    _socket: ClientSocket,
    pub root: PathBuf,
    /// see `WsSpec::disk_rel`: where the virtualenv's library directory really is (None = as the specs name it)
    pub venv_layout: Option<String>,
}

pub fn uri_of(p: &Path) -> Uri {
    Uri::from_file_path(p).expect("uri from path")
}

fn uri_to_rel(root: &Path, uri: &str) -> String {
    let p = uri.strip_prefix("file://").unwrap_or(uri);
    rel(root, Path::new(p))
}

impl Lsp {
    pub fn abs(&self, file: &str) -> PathBuf {
        if let (Some(layout), Some(rest)) = (&self.venv_layout, file.strip_prefix(super::ws::SITE)) {
            return self.root.join(format!(".venv/{}/site-packages{}", layout, rest));
        }
        self.root.join(file)
    }

    pub fn new(db: Arc<FixtureDatabase>, root: &Path) -> Lsp {
        let (service, socket) = LspService::new(|client| Backend::new(client, db.clone()));
        let lsp = Lsp { service, _socket: socket, root: root.to_path_buf(), venv_layout: None };
        {
            let b = lsp.backend();
            poll_now(async {
                *b.workspace_root.write().await = Some(root.to_path_buf());
                *b.original_workspace_root.write().await = Some(root.to_path_buf());
            });
        }
        lsp
    }
    pub fn backend(&self) -> &Backend {
        self.service.inner()
    }
    fn tdp(&self, file: &str, line0: u32, col: u32) -> Value {
        json!({"textDocument": {"uri": uri_of(&self.abs(file)).to_string()}, "position": {"line": line0, "character": col}})
    }

    /// (rel file, 1-based line) of go-to-definition
    pub fn definition(&self, file: &str, line0: u32, col: u32) -> Option<(String, usize)> {
        let p = serde_json::from_value(self.tdp(file, line0, col)).unwrap();
        let r = poll_now(self.backend().handle_goto_definition(p)).ok().flatten()?;
        let v = serde_json::to_value(r).ok()?;
        Some((uri_to_rel(&self.root, v.get("uri")?.as_str()?), v.pointer("/range/start/line")?.as_u64()? as usize + 1))
    }
    pub fn implementation(&self, file: &str, line0: u32, col: u32) -> Option<(String, usize)> {
        let p = serde_json::from_value(self.tdp(file, line0, col)).unwrap();
        let r = poll_now(self.backend().handle_goto_implementation(p)).ok().flatten()?;
        let v = serde_json::to_value(r).ok()?;
        Some((uri_to_rel(&self.root, v.get("uri")?.as_str()?), v.pointer("/range/start/line")?.as_u64()? as usize + 1))
    }
    /// hover markdown
    pub fn hover(&self, file: &str, line0: u32, col: u32) -> Option<String> {
        let p = serde_json::from_value(self.tdp(file, line0, col)).unwrap();
        let r = poll_now(self.backend().handle_hover(p)).ok().flatten()?;
        let v = serde_json::to_value(r).ok()?;
        Some(v.pointer("/contents/value")?.as_str()?.to_string())
    }
    /// (rel file, 1-based line, start, end) for each returned location
    pub fn references(&self, file: &str, line0: u32, col: u32) -> Option<Vec<(String, usize, usize, usize)>> {
        let mut v = self.tdp(file, line0, col);
        v["context"] = json!({"includeDeclaration": true});
        let p = serde_json::from_value(v).unwrap();
        let r = poll_now(self.backend().handle_references(p)).ok().flatten()?;
        let mut out = vec![];
        for l in r {
            let v = serde_json::to_value(l).ok()?;
            out.push((
                uri_to_rel(&self.root, v.get("uri")?.as_str()?),
                v.pointer("/range/start/line")?.as_u64()? as usize + 1,
                v.pointer("/range/start/character")?.as_u64()? as usize,
                v.pointer("/range/end/character")?.as_u64()? as usize,
            ));
        }
        Some(out)
    }
    /// call-hierarchy item as JSON
    pub fn prepare(&self, file: &str, line0: u32, col: u32) -> Option<Value> {
        let p = serde_json::from_value(self.tdp(file, line0, col)).unwrap();
        let r = poll_now(self.backend().handle_prepare_call_hierarchy(p)).ok().flatten()?;
        serde_json::to_value(r.into_iter().next()?).ok()
    }
    pub fn item_pos(&self, item: &Value) -> Option<(String, usize)> {
        Some((uri_to_rel(&self.root, item.get("uri")?.as_str()?), item.pointer("/selectionRange/start/line")?.as_u64()? as usize + 1))
    }
    /// (dep name, rel file, line) per outgoing call
    pub fn outgoing(&self, item: &Value) -> Option<Vec<(String, String, usize)>> {
        let p = serde_json::from_value(json!({"item": item})).ok()?;
        let r = poll_now(self.backend().handle_outgoing_calls(p)).ok().flatten()?;
        let mut out = vec![];
        for c in r {
            let v = serde_json::to_value(c).ok()?;
            let to = v.get("to")?;
            out.push((to.get("name")?.as_str()?.to_string(), uri_to_rel(&self.root, to.get("uri")?.as_str()?), to.pointer("/selectionRange/start/line")?.as_u64()? as usize + 1));
        }
        Some(out)
    }
    /// outgoing calls with their call-site ranges, as one normalised string
    pub fn outgoing_with_ranges(&self, item: &Value) -> Option<String> {
        let p = serde_json::from_value(json!({"item": item})).ok()?;
        let r = poll_now(self.backend().handle_outgoing_calls(p)).ok().flatten()?;
        let mut out = vec![];
        for c in r {
            let v = serde_json::to_value(c).ok()?;
            let to = v.get("to")?;
            out.push(format!("{}@{}:{} from {}", to.get("name")?.as_str()?, uri_to_rel(&self.root, to.get("uri")?.as_str()?), to.pointer("/selectionRange/start/line")?.as_u64()? + 1, v.get("fromRanges").map(|x| x.to_string()).unwrap_or_default()));
        }
        out.sort();
        Some(out.join(" | "))
    }
    /// number of incoming calls
    pub fn incoming(&self, item: &Value) -> Option<Vec<(String, usize, usize)>> {
        let p = serde_json::from_value(json!({"item": item})).ok()?;
        let r = poll_now(self.backend().handle_incoming_calls(p)).ok().flatten()?;
        let mut out = vec![];
        for c in r {
            let v = serde_json::to_value(c).ok()?;
            let from = v.get("from")?;
            out.push((uri_to_rel(&self.root, from.get("uri")?.as_str()?), from.pointer("/range/start/line")?.as_u64()? as usize + 1, from.pointer("/range/start/character")?.as_u64()? as usize));
        }
        Some(out)
    }
    /// (line, character, label) per inlay hint in the whole file
    pub fn inlay(&self, file: &str) -> Option<Vec<(usize, usize, String)>> {
        let p = serde_json::from_value(json!({"textDocument": {"uri": uri_of(&self.abs(file)).to_string()}, "range": {"start": {"line": 0, "character": 0}, "end": {"line": 100000, "character": 0}}})).unwrap();
        let r = poll_now(self.backend().handle_inlay_hint(p)).ok().flatten()?;
        let mut out = vec![];
        for h in r {
            let v = serde_json::to_value(h).ok()?;
            out.push((v.pointer("/position/line")?.as_u64()? as usize + 1, v.pointer("/position/character")?.as_u64()? as usize, v.get("label")?.as_str().unwrap_or("").to_string()));
        }
        Some(out)
    }
    /// label -> (detail, documentation, sort_text)
    pub fn completion(&self, file: &str, line0: u32, col: u32) -> Option<BTreeMap<String, Vec<(String, String, String)>>> {
        let p = serde_json::from_value(self.tdp(file, line0, col)).unwrap();
        let r = poll_now(self.backend().handle_completion(p)).ok().flatten()?;
        let v = serde_json::to_value(r).ok()?;
        let items = if v.is_array() { v.as_array()?.clone() } else { v.get("items")?.as_array()?.clone() };
        let mut out: BTreeMap<String, Vec<(String, String, String)>> = BTreeMap::new();
        for it in items {
            let label = it.get("label")?.as_str()?.to_string();
            let detail = it.get("detail").and_then(|d| d.as_str()).unwrap_or("").to_string();
            let doc = it.pointer("/documentation/value").and_then(|d| d.as_str()).unwrap_or("").to_string();
            let sort = it.get("sortText").and_then(|d| d.as_str()).unwrap_or("").to_string();
            out.entry(label).or_default().push((detail, doc, sort));
        }
        Some(out)
    }
    /// number of code actions offered for undeclared-fixture diagnostics at the given ranges
    pub fn code_action(&self, file: &str, diags: &[(u32, u32, u32, u32)]) -> usize {
        let ds: Vec<Value> = diags
            .iter()
            .map(|(l, c, l2, c2)| json!({"range": {"start": {"line": l, "character": c}, "end": {"line": l2, "character": c2}}, "code": "undeclared-fixture", "source": "pytest-lsp", "message": "m"}))
            .collect();
        let range = diags.first().map(|(l, c, l2, c2)| json!({"start": {"line": l, "character": c}, "end": {"line": l2, "character": c2}})).unwrap_or(json!({"start": {"line": 0, "character": 0}, "end": {"line": 0, "character": 0}}));
        let p = serde_json::from_value(json!({"textDocument": {"uri": uri_of(&self.abs(file)).to_string()}, "range": range, "context": {"diagnostics": ds}})).unwrap();
        poll_now(self.backend().handle_code_action(p)).ok().flatten().map(|v| v.len()).unwrap_or(0)
    }
    /// (line, title) per code lens
    pub fn code_lens(&self, file: &str) -> Vec<(usize, String)> {
        let p = serde_json::from_value(json!({"textDocument": {"uri": uri_of(&self.abs(file)).to_string()}})).unwrap();
        let r = poll_now(self.backend().handle_code_lens(p)).ok().flatten().unwrap_or_default();
        let mut out = vec![];
        for l in r {
            let v = serde_json::to_value(l).unwrap_or(Value::Null);
            out.push((v.pointer("/range/start/line").and_then(|x| x.as_u64()).unwrap_or(0) as usize + 1, v.pointer("/command/title").and_then(|x| x.as_str()).unwrap_or("").to_string()));
        }
        out.sort();
        out
    }
    pub fn document_symbols(&self, file: &str) -> Vec<String> {
        let p = serde_json::from_value(json!({"textDocument": {"uri": uri_of(&self.abs(file)).to_string()}})).unwrap();
        let r = poll_now(self.backend().handle_document_symbol(p)).ok().flatten();
        let Some(r) = r else { return vec![] };
        let v = serde_json::to_value(r).unwrap_or(Value::Null);
        let mut out: Vec<String> = v
            .as_array()
            .map(|a| {
                a.iter()
                    .map(|s| format!("{}@{}:{}-{} sel {}..{} {}", s["name"].as_str().unwrap_or(""), s["range"]["start"]["line"], s["range"]["start"]["character"], s["range"]["end"]["line"], s["selectionRange"]["start"]["character"], s["selectionRange"]["end"]["character"], s["detail"].as_str().unwrap_or("")))
                    .collect()
            })
            .unwrap_or_default();
        out.sort();
        out
    }
    pub fn workspace_symbols(&self, query: &str) -> Vec<String> {
        let p = serde_json::from_value(json!({"query": query})).unwrap();
        let r = poll_now(self.backend().handle_workspace_symbol(p)).ok().flatten().unwrap_or_default();
        let mut out: Vec<String> = r
            .into_iter()
            .map(|s| {
                let v = serde_json::to_value(s).unwrap_or(Value::Null);
                format!("{}@{}:{}[{}..{}]", v["name"].as_str().unwrap_or(""), uri_to_rel(&self.root, v["location"]["uri"].as_str().unwrap_or("")), v["location"]["range"]["start"]["line"], v["location"]["range"]["start"]["character"], v["location"]["range"]["end"]["character"])
            })
            .collect();
        out.sort();
        out
    }
}

/// The normalised observable snapshot: every answer a client can see, keyed by query.
/// Lists to which the protocol gives no order are sorted.
#[derive(Clone, Debug, Default, PartialEq)]
pub struct Snapshot {
    pub entries: BTreeMap<String, String>,
}

impl Snapshot {
    pub fn first_diff(&self, other: &Snapshot) -> Option<(String, String, String)> {
        for (k, v) in &self.entries {
            match other.entries.get(k) {
                Some(w) if w == v => {}
                Some(w) => return Some((k.clone(), v.clone(), w.clone())),
                None => return Some((k.clone(), v.clone(), "<absent>".into())),
            }
        }
        for (k, w) in &other.entries {
            if !self.entries.contains_key(k) {
                return Some((k.clone(), "<absent>".into(), w.clone()));
            }
        }
        None
    }
    pub fn all_diffs(&self, other: &Snapshot) -> Vec<(String, String, String)> {
        let mut out = vec![];
        for (k, v) in &self.entries {
            match other.entries.get(k) {
                Some(w) if w == v => {}
                Some(w) => out.push((k.clone(), v.clone(), w.clone())),
                None => out.push((k.clone(), v.clone(), "<absent>".into())),
            }
        }
        for (k, w) in &other.entries {
            if !self.entries.contains_key(k) {
                out.push((k.clone(), "<absent>".into(), w.clone()));
            }
        }
        out
    }
    pub fn hash(&self) -> u64 {
        let mut h = 0u64;
        for (k, v) in &self.entries {
            h = super::util::mix(h, super::util::fnv(k));
            h = super::util::mix(h, super::util::fnv(v));
        }
        h
    }
}

pub fn dk(root: &Path, d: &Option<FixtureDefinition>) -> String {
    match d {
        Some(d) => def_key(root, d),
        None => "-".into(),
    }
}

/// Library-level snapshot of everything observable for a set of files (positions taken from the
/// index itself, so it needs no generator ground truth and works on arbitrary real-world files).
pub fn snapshot(db: &Arc<FixtureDatabase>, root: &Path, with_handlers: bool) -> Snapshot {
    snapshot_opts(db, root, with_handlers, true)
}

/// `undeclared` = include the per-file undeclared-fixture findings (they legitimately reflect the
/// instant of analysis, so order-independence checks leave them out: C08's statement does not list them).
pub fn snapshot_opts(db: &Arc<FixtureDatabase>, root: &Path, with_handlers: bool, undeclared: bool) -> Snapshot {
    let files = super::dbsnap::files_in_cache(db);
    snapshot_files(db, root, &files, with_handlers, undeclared)
}

/// Same, for an explicit list of documents (per-file queries do not depend on what happens to be cached).
pub fn snapshot_files(db: &Arc<FixtureDatabase>, root: &Path, files: &[PathBuf], with_handlers: bool, undeclared: bool) -> Snapshot {
    let mut s = Snapshot::default();
    let files: Vec<PathBuf> = files.to_vec();
    let defs = all_defs(db);
    // resolution at every recorded usage (first, middle, last column)
    for u in super::dbsnap::all_usages(db) {
        let cols = [u.start_char, (u.start_char + u.end_char) / 2, u.end_char.saturating_sub(1)];
        for c in cols {
            let d = db.find_fixture_definition(&u.file_path, (u.line.saturating_sub(1)) as u32, c as u32);
            s.entries.insert(format!("goto {}:{}:{}", rel(root, &u.file_path), u.line, c), dk(root, &d));
        }
    }
    // the library's by-name lookup, for every (file, name) that is used somewhere
    let mut asked: std::collections::BTreeSet<(PathBuf, String)> = Default::default();
    for u in super::dbsnap::all_usages(db) {
        if asked.insert((u.file_path.clone(), u.name.clone())) {
            let d = db.resolve_fixture_for_file(&u.file_path, &u.name);
            s.entries.insert(format!("resolve-by-name {} {}", rel(root, &u.file_path), u.name), dk(root, &d));
        }
    }
    // references of every definition
    for d in &defs {
        let mut r: Vec<String> = db.find_references_for_definition(d).iter().map(|u| usage_key(root, u)).collect();
        r.sort();
        s.entries.insert(format!("refs {}", def_key(root, d)), r.join(" "));
    }
    for f in &files {
        let fr = rel(root, f);
        let av: Vec<String> = db.get_available_fixtures(f).iter().map(|d| def_key(root, d)).collect();
        s.entries.insert(format!("available {}", fr), av.join(" "));
        let mut cy: Vec<String> = db.detect_fixture_cycles_in_file(f).iter().map(|c| format!("{}<{}>", def_key(root, &c.fixture), { let mut p = c.cycle_path.clone(); p.pop(); p.sort(); p.join(",") })).collect();
        cy.sort();
        s.entries.insert(format!("cycles {}", fr), cy.join(" "));
        let mut mm: Vec<String> = db.detect_scope_mismatches_in_file(f).iter().map(|m| format!("{}->{}", def_key(root, &m.fixture), def_key(root, &m.dependency))).collect();
        mm.sort();
        s.entries.insert(format!("mismatch {}", fr), mm.join(" "));
        let mut un: Vec<String> = db.get_undeclared_fixtures(f).iter().map(|u| format!("{}@{}:{}", u.name, u.line, u.start_char)).collect();
        un.sort();
        if undeclared {
            s.entries.insert(format!("undeclared {}", fr), un.join(" "));
        }
    }
    let unused: Vec<String> = db.get_unused_fixtures().iter().map(|(p, n)| format!("{}:{}", rel(root, p), n)).collect();
    s.entries.insert("unused".into(), unused.join(" "));
    if with_handlers {
        let lsp = Lsp::new(db.clone(), root);
        for f in &files {
            let fr = rel(root, f);
            s.entries.insert(format!("docsym {}", fr), lsp.document_symbols(&fr).join(" | "));
            s.entries.insert(format!("lens {}", fr), lsp.code_lens(&fr).iter().map(|(l, t)| format!("{}:{}", l, t)).collect::<Vec<_>>().join(" | "));
            let inl = lsp.inlay(&fr).unwrap_or_default();
            let mut inl: Vec<String> = inl.iter().map(|(l, c, t)| format!("{}:{}{}", l, c, t)).collect();
            inl.sort();
            s.entries.insert(format!("inlay {}", fr), inl.join(" | "));
        }
        s.entries.insert("wssym".into(), lsp.workspace_symbols("").join(" | "));
    }
    s
}

pub fn tok_kind_name(t: &Tok) -> &'static str {
    match t.kind {
        TokKind::TestParam => "test-parameter",
        TokKind::FixtureParam => "fixture-parameter",
        TokKind::Usefixtures => "usefixtures",
        TokKind::Pytestmark => "pytestmark",
        TokKind::Indirect => "indirect-parametrize",
        TokKind::Def => "definition-name",
        TokKind::BodyUse => "body-use",
    }
}
