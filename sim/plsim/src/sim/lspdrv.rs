//! Full-stack driver: the real `Server::serve` over in-memory pipes, stepped on a real tokio
//! current-thread runtime (paused clock) from a simulated thread; the LSP client is the simulator.

use crate::fixtures::FixtureDatabase;
use crate::providers::Backend;
use serde_json::{json, Value};
use std::collections::{BTreeMap, VecDeque};
use std::future::Future;
use std::path::{Path, PathBuf};
use std::pin::Pin;
use std::sync::{Arc, Mutex};
use std::task::{Context, Poll, Waker};
use tower_lsp_server::{LspService, Server};

#[derive(Default)]
struct PipeInner {
    buf: VecDeque<u8>,
    closed: bool,
    waker: Option<Waker>,
    /// when set, at most this many bytes are handed out per read (slow / fragmented transport)
    max_read: Option<usize>,
}

#[derive(Clone, Default)]
pub struct Pipe(Arc<Mutex<PipeInner>>);

impl Pipe {
    pub fn push(&self, b: &[u8]) {
        let mut g = self.0.lock().unwrap();
        g.buf.extend(b);
        if let Some(w) = g.waker.take() {
            w.wake();
        }
    }
    pub fn close(&self) {
        let mut g = self.0.lock().unwrap();
        g.closed = true;
        if let Some(w) = g.waker.take() {
            w.wake();
        }
    }
    pub fn drain(&self) -> Vec<u8> {
        let mut g = self.0.lock().unwrap();
        g.buf.drain(..).collect()
    }
    pub fn pending(&self) -> usize {
        self.0.lock().unwrap().buf.len()
    }
    pub fn set_max_read(&self, n: Option<usize>) {
        self.0.lock().unwrap().max_read = n;
    }
}

impl real_tokio::io::AsyncRead for Pipe {
    fn poll_read(self: Pin<&mut Self>, cx: &mut Context<'_>, out: &mut real_tokio::io::ReadBuf<'_>) -> Poll<std::io::Result<()>> {
        let mut g = self.0.lock().unwrap();
        if g.buf.is_empty() {
            if g.closed {
                return Poll::Ready(Ok(()));
            }
            g.waker = Some(cx.waker().clone());
            return Poll::Pending;
        }
        let mut n = out.remaining().min(g.buf.len());
        if let Some(m) = g.max_read {
            n = n.min(m.max(1));
        }
        let v: Vec<u8> = g.buf.drain(..n).collect();
        out.put_slice(&v);
        Poll::Ready(Ok(()))
    }
}

impl real_tokio::io::AsyncWrite for Pipe {
    fn poll_write(self: Pin<&mut Self>, _cx: &mut Context<'_>, b: &[u8]) -> Poll<std::io::Result<usize>> {
        self.0.lock().unwrap().buf.extend(b);
        Poll::Ready(Ok(b.len()))
    }
    fn poll_flush(self: Pin<&mut Self>, _cx: &mut Context<'_>) -> Poll<std::io::Result<()>> {
        Poll::Ready(Ok(()))
    }
    fn poll_shutdown(self: Pin<&mut Self>, _cx: &mut Context<'_>) -> Poll<std::io::Result<()>> {
        Poll::Ready(Ok(()))
    }
}

pub fn frame(v: &Value) -> Vec<u8> {
    let s = v.to_string();
    format!("Content-Length: {}\r\n\r\n{}", s.len(), s).into_bytes()
}

/// How the client answers `workspace/inlayHint/refresh` (a server→client request).
#[derive(Clone, Debug, PartialEq)]
pub enum RefreshPolicy {
    /// answer with `null` after this many driver steps
    AnswerAfter(u32),
    /// answer with a MethodNotFound error after this many driver steps
    ErrorAfter(u32),
}

pub struct LspServer {
    rt: real_tokio::runtime::Runtime,
    fut: Option<Pin<Box<dyn Future<Output = ()>>>>,
    pub cin: Pipe,
    pub cout: Pipe,
    pub db: Arc<FixtureDatabase>,
    pub root: PathBuf,
    inbuf: Vec<u8>,
    next_id: i64,
    /// responses by request id
    pub responses: BTreeMap<i64, Vec<Value>>,
    /// every server→client message in arrival order
    pub inbox: Vec<Value>,
    /// last publishDiagnostics per uri, and how many were received
    pub diagnostics: BTreeMap<String, (Value, u32)>,
    pub log_messages: Vec<String>,
    pending_refresh: Vec<(Value, u32)>,
    /// answers to server→client requests waiting for a frame boundary of the client's own stream
    answer_queue: Vec<Vec<u8>>,
    mid_frame: bool,
    pub fragments_sent: u64,
    pub refresh_policy: RefreshPolicy,
    pub refresh_requests: u32,
    pub steps: u64,
    pub finished: bool,
    pub server_panic: Option<String>,
    pub malformed_output: Option<String>,
}

/// The `contentChanges` array of a full-sync didChange whose final text is `text`.  One notification in five
/// (a function of the text) carries TWO full-text events, the first one superseded by the second: legal under
/// full synchronisation (events apply in order), produced by clients that batch keystrokes.
pub fn content_changes(text: &str) -> Value {
    if super::util::fnv(text) % 5 == 0 {
        json!([{"text": "import pytest\n\n@pytest.fixture\ndef superseded_event():\n    return 0\n"}, {"text": text}])
    } else {
        json!([{"text": text}])
    }
}

impl LspServer {
    pub fn start(root: &Path) -> LspServer {
        let rt = real_tokio::runtime::Builder::new_current_thread().enable_all().start_paused(true).build().expect("tokio runtime");
        let db = Arc::new(FixtureDatabase::new());
        let db2 = db.clone();
        let (service, socket) = LspService::new(move |client| Backend::new(client, db2.clone()));
        let cin = Pipe::default();
        let cout = Pipe::default();
        let fut: Pin<Box<dyn Future<Output = ()>>> = Box::pin(Server::new(cin.clone(), cout.clone(), socket).serve(service));
        LspServer {
            rt,
            fut: Some(fut),
            cin,
            cout,
            db,
            root: root.to_path_buf(),
            inbuf: vec![],
            next_id: 1,
            responses: BTreeMap::new(),
            inbox: vec![],
            diagnostics: BTreeMap::new(),
            log_messages: vec![],
            pending_refresh: vec![],
            answer_queue: vec![],
            mid_frame: false,
            fragments_sent: 0,
            refresh_policy: RefreshPolicy::AnswerAfter(0),
            refresh_requests: 0,
            steps: 0,
            finished: false,
            server_panic: None,
            malformed_output: None,
        }
    }

    pub fn uri(&self, rel: &str) -> String {
        format!("file://{}", self.root.join(rel).display())
    }

    /// One driver step: a scheduling point, one poll of the serve future, one pass over the
    /// runtime's ready tasks, then the client reads what arrived.
    pub fn step(&mut self) {
        simrt::user_yield(0x57e9);
        self.steps += 1;
        if self.server_panic.is_some() {
            return;
        }
        let fut = &mut self.fut;
        let finished = &mut self.finished;
        let rt = &self.rt;
        let r = simrt::catch(|| {
            rt.block_on(async {
                std::future::poll_fn(|cx| {
                    if let Some(f) = fut.as_mut() {
                        if f.as_mut().poll(cx).is_ready() {
                            *finished = true;
                        }
                    }
                    Poll::Ready(())
                })
                .await;
                real_tokio::task::yield_now().await;
            })
        });
        if let Err(msg) = r {
            self.server_panic = Some(msg);
            // the future is poisoned: never poll it again
            std::mem::forget(self.fut.take());
            return;
        }
        if self.finished {
            self.fut = None;
        }
        self.read_client_side();
    }

    pub fn steps(&mut self, n: usize) {
        for _ in 0..n {
            self.step();
        }
    }

    pub fn advance_clock(&mut self, ms: u64) {
        let rt = &self.rt;
        let _ = simrt::catch(|| rt.block_on(async { real_tokio::time::advance(std::time::Duration::from_millis(ms)).await }));
    }

    fn read_client_side(&mut self) {
        let bytes = self.cout.drain();
        self.inbuf.extend(bytes);
        loop {
            let Some(hdr_end) = find(&self.inbuf, b"\r\n\r\n") else { break };
            let head = String::from_utf8_lossy(&self.inbuf[..hdr_end]).to_string();
            let len = head.lines().find_map(|l| l.strip_prefix("Content-Length: ").and_then(|v| v.trim().parse::<usize>().ok()));
            let Some(len) = len else {
                self.malformed_output = Some(format!("no Content-Length in {:?}", head));
                self.inbuf.clear();
                break;
            };
            if self.inbuf.len() < hdr_end + 4 + len {
                break;
            }
            let body: Vec<u8> = self.inbuf[hdr_end + 4..hdr_end + 4 + len].to_vec();
            self.inbuf.drain(..hdr_end + 4 + len);
            match serde_json::from_slice::<Value>(&body) {
                Ok(v) => self.on_message(v),
                Err(e) => self.malformed_output = Some(format!("invalid JSON from server: {}", e)),
            }
        }
        // late answers to server→client requests
        let mut due = vec![];
        for p in self.pending_refresh.iter_mut() {
            if p.1 == 0 {
                due.push(p.0.clone());
            } else {
                p.1 -= 1;
            }
        }
        self.pending_refresh.retain(|p| !due.contains(&p.0));
        for id in due {
            let msg = match self.refresh_policy {
                RefreshPolicy::AnswerAfter(_) => json!({"jsonrpc": "2.0", "id": id, "result": null}),
                RefreshPolicy::ErrorAfter(_) => json!({"jsonrpc": "2.0", "id": id, "error": {"code": -32601, "message": "Method not found"}}),
            };
            self.answer_queue.push(frame(&msg));
        }
        self.flush_answers();
    }

    /// The client writes whole frames: late answers are only written at a frame boundary.
    fn flush_answers(&mut self) {
        if self.mid_frame {
            return;
        }
        for a in self.answer_queue.drain(..) {
            self.cin.push(&a);
        }
    }

    /// Send bytes that form one or more complete frames, `frag` bytes at a time (0 = at once),
    /// stepping the server every `step_every` fragments.
    pub fn send_fragmented(&mut self, bytes: &[u8], frag: usize, step_every: u64) {
        if frag == 0 {
            self.cin.push(bytes);
            self.step();
            return;
        }
        self.mid_frame = true;
        for chunk in bytes.chunks(frag) {
            self.cin.push(chunk);
            self.fragments_sent += 1;
            if step_every > 0 && self.fragments_sent % step_every == 0 {
                self.step();
            }
        }
        self.mid_frame = false;
        self.flush_answers();
        self.step();
    }

    fn on_message(&mut self, v: Value) {
        self.inbox.push(v.clone());
        let method = v.get("method").and_then(|m| m.as_str()).map(|s| s.to_string());
        match (method, v.get("id")) {
            (Some(m), Some(id)) => {
                // server→client request
                if m == "workspace/inlayHint/refresh" {
                    self.refresh_requests += 1;
                }
                let delay = match self.refresh_policy {
                    RefreshPolicy::AnswerAfter(n) | RefreshPolicy::ErrorAfter(n) => n,
                };
                self.pending_refresh.push((id.clone(), delay));
            }
            (Some(m), None) => {
                if m == "textDocument/publishDiagnostics" {
                    let uri = v.pointer("/params/uri").and_then(|u| u.as_str()).unwrap_or("").to_string();
                    let e = self.diagnostics.entry(uri).or_insert((Value::Null, 0));
                    e.0 = v.pointer("/params/diagnostics").cloned().unwrap_or(Value::Null);
                    e.1 += 1;
                } else if m == "window/logMessage" {
                    self.log_messages.push(v.pointer("/params/message").and_then(|u| u.as_str()).unwrap_or("").to_string());
                }
            }
            (None, Some(id)) => {
                if let Some(i) = id.as_i64() {
                    self.responses.entry(i).or_default().push(v);
                }
            }
            _ => {}
        }
    }

    pub fn send_raw(&mut self, bytes: &[u8]) {
        self.cin.push(bytes);
    }

    pub fn notify(&mut self, method: &str, params: Value) {
        let m = json!({"jsonrpc": "2.0", "method": method, "params": params});
        self.cin.push(&frame(&m));
    }

    pub fn request(&mut self, method: &str, params: Value) -> i64 {
        let id = self.next_id;
        self.next_id += 1;
        let m = json!({"jsonrpc": "2.0", "id": id, "method": method, "params": params});
        self.cin.push(&frame(&m));
        id
    }

    /// Bytes of a request without sending them (for fragmentation faults).
    pub fn request_bytes(&mut self, method: &str, params: Value) -> (i64, Vec<u8>) {
        let id = self.next_id;
        self.next_id += 1;
        (id, frame(&json!({"jsonrpc": "2.0", "id": id, "method": method, "params": params})))
    }

    /// Step until `id` has a response (or the budget is exhausted).
    pub fn await_response(&mut self, id: i64, max_steps: usize) -> Option<Value> {
        for _ in 0..max_steps {
            if let Some(r) = self.responses.get(&id) {
                return r.first().cloned();
            }
            if self.server_panic.is_some() {
                return None;
            }
            self.step();
        }
        self.responses.get(&id).and_then(|r| r.first().cloned())
    }

    /// Step until nothing moves any more: no bytes in either pipe, no late answers pending, and
    /// `quiet` consecutive steps without any new server message.
    pub fn settle(&mut self, quiet: usize, max_steps: usize) -> bool {
        let mut calm = 0;
        for _ in 0..max_steps {
            let before = self.inbox.len();
            self.step();
            if self.server_panic.is_some() {
                return false;
            }
            if self.inbox.len() == before && self.cin.pending() == 0 && self.cout.pending() == 0 && self.pending_refresh.is_empty() && self.answer_queue.is_empty() {
                calm += 1;
                if calm >= quiet {
                    return true;
                }
            } else {
                calm = 0;
            }
        }
        false
    }

    pub fn initialize(&mut self) -> i64 {
        let root_uri = format!("file://{}", self.root.display());
        let id = self.request("initialize", json!({"capabilities": {}, "rootUri": root_uri, "workspaceFolders": [{"uri": root_uri, "name": "ws"}]}));
        id
    }

    /// Wait (in simulated time) for the background scan threads started so far, then let the
    /// runtime deliver their completion.
    pub fn join_scan(&mut self) {
        for h in tokio::task::take_blocking_handles() {
            h.join();
        }
        self.steps(3);
    }

    pub fn did_open(&mut self, rel: &str, text: &str, version: i64) {
        let uri = self.uri(rel);
        self.notify("textDocument/didOpen", json!({"textDocument": {"uri": uri, "languageId": "python", "version": version, "text": text}}));
    }
    pub fn did_change(&mut self, rel: &str, text: &str, version: i64) {
        let uri = self.uri(rel);
        self.notify("textDocument/didChange", json!({"textDocument": {"uri": uri, "version": version}, "contentChanges": content_changes(text)}));
    }
    pub fn did_close(&mut self, rel: &str) {
        let uri = self.uri(rel);
        self.notify("textDocument/didClose", json!({"textDocument": {"uri": uri}}));
    }

    pub fn scan_complete_seen(&self) -> bool {
        self.log_messages.iter().any(|m| m.contains("Workspace scan complete") || m.contains("Workspace scan failed"))
    }
}

impl Drop for LspServer {
    fn drop(&mut self) {
        // drop the serve future inside the runtime context (it owns tokio resources)
        let fut = self.fut.take();
        let rt = &self.rt;
        let _ = simrt::catch(|| {
            rt.block_on(async {
                drop(fut);
            })
        });
    }
}

fn find(hay: &[u8], needle: &[u8]) -> Option<usize> {
    hay.windows(needle.len()).position(|w| w == needle)
}
