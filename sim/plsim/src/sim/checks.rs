//! Registry: property id -> scenarios.

use super::batch::{CheckSpec, REAL_COMPONENTS, STUB_COMPONENTS};

fn base(property: &'static str, scenarios: Vec<Box<dyn super::batch::Scenario>>, assumptions: Vec<&str>) -> CheckSpec {
    let mut a: Vec<String> = assumptions.into_iter().map(|s| s.to_string()).collect();
    a.push("sampling, not enumeration: a clean batch is evidence, not proof".into());
    a.push("the simulated DashMap lock has the admission rule of dashmap 6.1.0 (pinned by Cargo.lock)".into());
    CheckSpec { property, scenarios, assumptions: a, real_components: REAL_COMPONENTS.to_vec(), stub_components: STUB_COMPONENTS.to_vec() }
}

pub fn check_spec(prop: &str) -> Option<CheckSpec> {
    Some(match prop {
        "C09" => base(
            "C09",
            vec![Box::new(super::scen_race::Race)],
            vec!["all cross-thread state of the index lives behind DashMap shard locks, the three mutexes and one SeqCst atomic; yield points sit on both sides of every lock operation"],
        ),
        _ => return None,
    })
}

pub fn selftest() -> i32 {
    0
}
