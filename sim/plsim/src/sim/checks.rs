//! Registry: property id -> scenarios.

use super::batch::{CheckSpec, REAL_COMPONENTS, STUB_COMPONENTS};

fn base(property: &'static str, scenarios: Vec<Box<dyn super::batch::Scenario>>, assumptions: Vec<&str>) -> CheckSpec {
    let mut a: Vec<String> = assumptions.into_iter().map(|s| s.to_string()).collect();
    a.push("sampling, not enumeration: a clean batch is evidence, not proof".into());
    a.push("the simulated DashMap lock has the admission rule of dashmap 6.1.0 (pinned by Cargo.lock)".into());
    CheckSpec { property, scenarios, assumptions: a, real_components: REAL_COMPONENTS.to_vec(), stub_components: STUB_COMPONENTS.to_vec() }
}

fn st(prop: &'static str, variant: &'static str, name: &'static str) -> Box<dyn super::batch::Scenario> {
    Box::new(super::scen_static::Static { prop, variant, name })
}

pub fn check_spec(prop: &str) -> Option<CheckSpec> {
    Some(match prop {
        "C09" => base(
            "C09",
            vec![Box::new(super::scen_race::Race), Box::new(super::scen_race::RaceScan), Box::new(super::scen_race::RaceImports)],
            vec!["all cross-thread state of the index lives behind DashMap shard locks, the three mutexes and one SeqCst atomic; yield points sit on both sides of every lock operation"],
        ),
        "C01" => base(
            "C01",
            vec![
                Box::new(super::scen_resolve::Resolve { variant: "plain" }),
                Box::new(super::scen_resolve::Resolve { variant: "imports" }),
                Box::new(super::scen_resolve::Resolve { variant: "venv" }),
            ],
            vec!["the reference model accepts any member where the statement leaves the choice open (several plugins / third-party packages, a conftest that both defines and imports a name)"],
        ),
        "C08" => base(
            "C08",
            vec![Box::new(super::scen_order::Order { variant: "plain" }), Box::new(super::scen_order::Order { variant: "imports" }), Box::new(super::scen_order::Order { variant: "corpus" })],
            vec!["the rayon shim lets workers pull items in any order (the statement quantifies over all permutations of per-file analysis order)", "a new process = a new std hash seed: simulated by the seeded getrandom per simulated thread"],
        ),
        "C02" => base("C02", vec![st("C02", "plain", "override-plain"), st("C02", "imports", "override-imports"), st("C02", "venv", "override-venv")], vec!["go-to-definition on a definition's own name may answer nothing or the definition itself"]),
        "C04" => base("C04", vec![st("C04", "plain", "refs-plain"), st("C04", "imports", "refs-imports"), st("C04", "venv", "refs-venv"), st("C04", "corpus", "refs-corpus"), Box::new(super::scen_history::History { prop: "C04" })], vec!["position queries inside a currently unparsable document are excluded (its recorded spans no longer denote tokens of the cached text)"]),
        "C05" => base("C05", vec![st("C05", "plain", "agree-plain"), st("C05", "imports", "agree-imports"), st("C05", "venv", "agree-venv")], vec!["pure cross-feature comparison; the reference model is only used to name violation classes"]),
        "C14" => base("C14", vec![st("C14", "imports", "visible-imports"), st("C14", "venv", "visible-venv")], vec!["the generator records the module file each import statement means; VIRTUAL_ENV fallback is not explored (process-global environment)"]),
        "C16" => base("C16", vec![st("C16", "plain", "deps-plain"), st("C16", "imports", "deps-imports")], vec!["the reference dependency graph resolves each dependency with the PytestModel from the depending fixture's file"]),
        "C06" => base("C06", vec![Box::new(super::scen_history::History { prop: "C06" }), Box::new(super::scen_history::History { prop: "C06L" })], vec!["the fresh twin analyses files in the order of each file's last successful analysis so that differences are due to history, not to the registration-order dependence C08 owns", "position queries inside a currently unparsable document are excluded"]),
        "C07" => base("C07", vec![Box::new(super::scen_history::History { prop: "C07" }), Box::new(super::scen_cacherace::CacheRace), Box::new(super::scen_cacherace::ScanPressure)], vec!["eviction cannot be switched off in the cold twin, so it is checked by the filler-file metamorphic relation", "open-then-close is applied only to documents whose buffer equals the on-disk text (the statement says 'unmodified'); cache pressure meets edited, unsaved documents too"]),
        "C10" => base("C10", vec![Box::new(super::scen_scanedit::ScanEdit)], vec!["the client waits a generated number of scheduler steps (virtual time) before sending the notification; the handler then interleaves with the scan workers at DashMap lock points"]),
        "C19" => base("C19", vec![Box::new(super::scen_diag::Diag)], vec!["the history starts after the initial scan reported completion (a document opened during the scan is C10's subject)", "expected findings come from the library on a fresh twin built from the latest valid contents, the changed document analysed last"]),
        "C11" => base("C11", vec![Box::new(super::scen_chaos::Chaos { full_stack: false }), Box::new(super::scen_chaos::Chaos { full_stack: true }), Box::new(super::scen_chaos::ChaosCli)], vec!["alarms only for behaviour a conforming LSP client and a POSIX filesystem can produce (DESIGN.md §6.3); EIO-class disk errors and allocation failure are outside the simulation", "contents come from a generator of hostile layouts, not from byte-level grammar fuzzing (input generation is a different technique family)"]),
        "C12" => base("C12", vec![Box::new(super::scen_locks::Locks { cyclic: false }), Box::new(super::scen_locks::Locks { cyclic: true }), Box::new(super::scen_chaos::Burst)], vec!["the deadlock / self-deadlock detector and the step budgets are also active in every run of every other check", "1-shard placement over-approximates hashing: keys that collide there do collide for some hasher seed in production, which is what the statement forbids relying on", "read-inside-read nestings are admitted exactly as by dashmap 6.1.0's lock"]),
        "C13" => base("C13", vec![Box::new(super::scen_discover::Discover { faults: false }), Box::new(super::scen_discover::Discover { faults: true })], vec!["only faults a real deployment produces without kernel help are injected (delete, truncate, EISDIR, dangling symlink, symlink loop, invalid UTF-8, rewrite); EIO/short reads are not", "exclude patterns are interpreted by the glob crate the repository documents; the ignore list is the documented one"]),
        "C20" => base("C20", vec![Box::new(super::scen_cli::Cli)], vec!["the CLI runs as a seeded child of the harness binary (same shims), so clap parsing, the handlers and process::exit are the real ones", "usage counts are keyed by (file, name) as the CLI prints them; the generator avoids a name defined twice in one file here"]),
        _ => return None,
    })
}

/// `plsim selftest`: stub fidelity and determinism of the simulator itself (exit 2 on failure).
pub fn selftest() -> i32 {
    let mut failures: Vec<String> = vec![];
    // 1. overlay
    if super::OVERLAY_SUBSTITUTIONS != 8 {
        failures.push(format!("overlay made {} substitutions of std::sync::Mutex in fixtures/mod.rs, expected 8", super::OVERLAY_SUBSTITUTIONS));
    }
    // 2. lock admission rule of dashmap 6.1.0's lock, replayed against the stub
    failures.extend(lock_admission_table());
    // 3. interposed getrandom: std HashMap iteration order is a function of the hash seed
    {
        let order = |hs: u64| -> Vec<u32> {
            let cfg = simrt::Cfg { hash_seed: hs, ..Default::default() };
            let (_, r) = simrt::run(cfg, || {
                let mut m = std::collections::HashMap::new();
                for i in 0..64u32 {
                    m.insert(format!("k{}", i), i);
                }
                m.values().copied().collect::<Vec<u32>>()
            });
            r.unwrap_or_default()
        };
        if order(7) != order(7) {
            failures.push("std HashMap iteration order differs between two runs with the same hash seed (getrandom interposition not effective)".into());
        }
        if (1..6).all(|s| order(s) == order(7)) {
            failures.push("std HashMap iteration order does not depend on the hash seed".into());
        }
    }
    // 4. determinism: run seeds twice (16 threads), then a subset again on one thread
    let t0 = std::time::Instant::now();
    let scen: Vec<Box<dyn super::batch::Scenario>> = vec![
        Box::new(super::scen_race::Race),
        Box::new(super::scen_resolve::Resolve { variant: "imports" }),
        Box::new(super::scen_order::Order { variant: "imports" }),
        Box::new(super::scen_history::History { prop: "C07" }),
        Box::new(super::scen_scanedit::ScanEdit),
        Box::new(super::scen_diag::Diag),
        Box::new(super::scen_chaos::Chaos { full_stack: true }),
        Box::new(super::scen_locks::Locks { cyclic: false }),
        Box::new(super::scen_discover::Discover { faults: true }),
        Box::new(super::scen_cacherace::CacheRace),
        Box::new(super::scen_cli::Cli),
        Box::new(super::scen_chaos::Burst),
        Box::new(super::scen_chaos::ChaosCli),
    ];
    let n: u64 = std::env::var("PLSIM_SELFTEST_SEEDS").ok().and_then(|s| s.parse().ok()).unwrap_or(120);
    let mut total = 0u64;
    for s in &scen {
        let digests = std::sync::Mutex::new(std::collections::BTreeMap::new());
        let next = std::sync::atomic::AtomicU64::new(0);
        std::thread::scope(|sc| {
            for _ in 0..16 {
                sc.spawn(|| loop {
                    let i = next.fetch_add(1, std::sync::atomic::Ordering::SeqCst);
                    if i >= n {
                        break;
                    }
                    let seed = super::util::mix(0x5e1f7e57, i);
                    let input = s.gen(seed, super::batch::Tier::Quick);
                    let a = s.exec(&input);
                    let b = s.exec(&input);
                    digests.lock().unwrap().insert(i, (a.log_hash, a.state_hash, a.violations.len(), b.log_hash, b.state_hash, b.violations.len(), a.harness_error.clone()));
                });
            }
        });
        let d = digests.into_inner().unwrap();
        for (i, (al, as_, av, bl, bs, bv, he)) in &d {
            if let Some(e) = he {
                failures.push(format!("{} seed #{}: harness error {}", s.name(), i, e));
            }
            if (al, as_, av) != (bl, bs, bv) {
                failures.push(format!("{} seed #{}: two executions differ (log {:x}/{:x} state {:x}/{:x} violations {}/{})", s.name(), i, al, bl, as_, bs, av, bv));
            }
        }
        // single-threaded re-run of a subset must give the same digests
        for i in 0..(n / 10).max(3) {
            let seed = super::util::mix(0x5e1f7e57, i);
            let input = s.gen(seed, super::batch::Tier::Quick);
            let c = s.exec(&input);
            if let Some((al, as_, av, ..)) = d.get(&i) {
                if (*al, *as_, *av) != (c.log_hash, c.state_hash, c.violations.len()) {
                    failures.push(format!("{} seed #{}: result depends on the number of driver threads", s.name(), i));
                }
            }
        }
        total += 2 * n + (n / 10).max(3);
    }
    // 5. the first execution in a fresh process must equal later ones (process-wide lazily initialised
    //    tables must not be created inside a simulated thread: replay files are executed first in their process)
    for (prop, name) in [("C06", "history"), ("C07", "cache-history"), ("C09", "race"), ("C10", "scanedit"), ("C19", "diagnostics"), ("C12", "locks"), ("C13", "discover-faults"), ("C01", "resolve-venv"), ("C07", "cache-race")] {
        for seed in [2069305113998522011u64, 77] {
            let o = std::process::Command::new(std::env::current_exe().unwrap()).args(["debug-determinism", prop, name, &seed.to_string(), "3"]).output();
            match o {
                Ok(o) => {
                    let so = String::from_utf8_lossy(&o.stdout).to_string();
                    let entries = so.matches("): ").count();
                    if entries != 1 {
                        failures.push(format!("{} {} seed {}: executions in a fresh process are not all equal: {}", prop, name, seed, so.trim()));
                    }
                    total += 3;
                }
                Err(e) => failures.push(format!("cannot start child: {}", e)),
            }
        }
    }
    println!("plsim selftest: {} executions over {} scenarios in {:.1}s, overlay substitutions {}, {} failure(s)", total, scen.len(), t0.elapsed().as_secs_f64(), super::OVERLAY_SUBSTITUTIONS, failures.len());
    for f in failures.iter().take(10) {
        eprintln!("SELFTEST-FAILURE: {}", f);
    }
    if failures.is_empty() {
        0
    } else {
        2
    }
}

/// The reader/writer admission cases of dashmap 6.1.0's `lock.rs`, checked against the stub.
fn lock_admission_table() -> Vec<String> {
    use std::sync::Arc;
    type L = lock_api::RwLock<simrt::RawRwLock, u32>;
    let mut fails = vec![];
    // case A: a reader is admitted while a writer is *waiting* (not holding)
    let (oc, r) = simrt::run(simrt::Cfg { strategy: simrt::Strategy::Random { switch_per_mille: 0 }, ..Default::default() }, || {
        let l = Arc::new(L::new(0));
        let g1 = l.read();
        let l2 = l.clone();
        let w = simrt::spawn(move || {
            let mut g = l2.write();
            *g += 1;
        });
        // give the writer the chance to block
        for _ in 0..50 {
            simrt::user_yield(1);
        }
        let g2 = l.read(); // must not block although a writer waits
        let v = *g2;
        drop(g2);
        drop(g1);
        w.join();
        let end = *l.read();
        (v, end)
    });
    if oc.abort.is_some() || r != Some((0, 1)) {
        fails.push(format!("lock case A (reader admitted past waiting writer) failed: abort={:?} result={:?}", oc.abort.map(|a| a.detail), r));
    }
    // case B: a writer waits for readers; read-inside-write on the same lock self-deadlocks
    let (oc, _) = simrt::run(simrt::Cfg::default(), || {
        let l = Arc::new(L::new(0));
        let _w = l.write();
        let _r = l.read();
    });
    if oc.abort.as_ref().map(|a| a.kind.clone()) != Some(simrt::AbortKind::Deadlock) {
        fails.push("lock case B (read while holding write on the same lock must be reported as self-deadlock) failed".into());
    }
    // case C: write-inside-read on the same lock self-deadlocks; read-inside-read does not
    let (oc, _) = simrt::run(simrt::Cfg::default(), || {
        let l = Arc::new(L::new(0));
        let _r = l.read();
        let _r2 = l.read();
    });
    if oc.abort.is_some() {
        fails.push("lock case C1 (nested reads must be admitted) failed".into());
    }
    let (oc, _) = simrt::run(simrt::Cfg::default(), || {
        let l = Arc::new(L::new(0));
        let _r = l.read();
        let _w = l.write();
    });
    if oc.abort.as_ref().map(|a| a.kind.clone()) != Some(simrt::AbortKind::Deadlock) {
        fails.push("lock case C2 (write while holding read on the same lock must be reported as self-deadlock) failed".into());
    }
    // case D: two threads taking two locks in opposite order deadlock in some schedule
    let mut found = false;
    for seed in 0..200u64 {
        let (oc, _) = simrt::run(simrt::Cfg { seed, strategy: simrt::Strategy::Random { switch_per_mille: 400 }, ..Default::default() }, || {
            let a = Arc::new(L::new(0));
            let b = Arc::new(L::new(0));
            let (a2, b2) = (a.clone(), b.clone());
            let t = simrt::spawn(move || {
                let _x = a2.write();
                let _y = b2.write();
            });
            {
                let _y = b.write();
                let _x = a.write();
            }
            t.join();
        });
        if oc.abort.as_ref().map(|a| a.kind.clone()) == Some(simrt::AbortKind::Deadlock) {
            found = true;
            break;
        }
    }
    if !found {
        fails.push("lock case D (AB/BA deadlock must be found within 200 seeds) failed".into());
    }
    fails
}
