//! Registry: property id -> scenarios.

use super::batch::{CheckSpec, REAL_COMPONENTS, STUB_COMPONENTS};

fn base(property: &'static str, scenarios: Vec<Box<dyn super::batch::Scenario>>, assumptions: Vec<&str>) -> CheckSpec {
    let mut a: Vec<String> = assumptions.into_iter().map(|s| s.to_string()).collect();
    a.push("sampling, not enumeration: a clean batch is evidence, not proof".into());
    a.push("the simulated DashMap lock has the admission rule of dashmap 6.1.0 (pinned by Cargo.lock)".into());
    CheckSpec { property, scenarios, assumptions: a, real_components: REAL_COMPONENTS.to_vec(), stub_components: STUB_COMPONENTS.to_vec() }
}

fn st(prop: &'static str, variant: &'static str, name: &'static str) -> Box<dyn super::batch::Scenario> {
    Box::new(super::scen_static::Static { prop, variant, name })
}

pub fn check_spec(prop: &str) -> Option<CheckSpec> {
    Some(match prop {
        "C09" => base(
            "C09",
            vec![Box::new(super::scen_race::Race)],
            vec!["all cross-thread state of the index lives behind DashMap shard locks, the three mutexes and one SeqCst atomic; yield points sit on both sides of every lock operation"],
        ),
        "C01" => base(
            "C01",
            vec![
                Box::new(super::scen_resolve::Resolve { variant: "plain" }),
                Box::new(super::scen_resolve::Resolve { variant: "imports" }),
                Box::new(super::scen_resolve::Resolve { variant: "venv" }),
            ],
            vec!["the reference model accepts any member where the statement leaves the choice open (several plugins / third-party packages, a conftest that both defines and imports a name)"],
        ),
        "C08" => base(
            "C08",
            vec![Box::new(super::scen_order::Order { variant: "plain" }), Box::new(super::scen_order::Order { variant: "imports" })],
            vec!["the rayon shim lets workers pull items in any order (the statement quantifies over all permutations of per-file analysis order)", "a new process = a new std hash seed: simulated by the seeded getrandom per simulated thread"],
        ),
        "C02" => base("C02", vec![st("C02", "plain", "override-plain"), st("C02", "imports", "override-imports"), st("C02", "venv", "override-venv")], vec!["go-to-definition on a definition's own name may answer nothing or the definition itself"]),
        "C04" => base("C04", vec![st("C04", "plain", "refs-plain"), st("C04", "imports", "refs-imports"), st("C04", "venv", "refs-venv"), Box::new(super::scen_history::History { prop: "C04" })], vec!["position queries inside a currently unparsable document are excluded (its recorded spans no longer denote tokens of the cached text)"]),
        "C05" => base("C05", vec![st("C05", "plain", "agree-plain"), st("C05", "imports", "agree-imports"), st("C05", "venv", "agree-venv")], vec!["pure cross-feature comparison; the reference model is only used to name violation classes"]),
        "C14" => base("C14", vec![st("C14", "imports", "visible-imports"), st("C14", "venv", "visible-venv")], vec!["the generator records the module file each import statement means; VIRTUAL_ENV fallback is not explored (process-global environment)"]),
        "C16" => base("C16", vec![st("C16", "plain", "deps-plain"), st("C16", "imports", "deps-imports")], vec!["the reference dependency graph resolves each dependency with the PytestModel from the depending fixture's file"]),
        "C06" => base("C06", vec![Box::new(super::scen_history::History { prop: "C06" })], vec!["the fresh twin analyses files in the order of each file's last successful analysis so that differences are due to history, not to the registration-order dependence C08 owns", "position queries inside a currently unparsable document are excluded"]),
        "C07" => base("C07", vec![Box::new(super::scen_history::History { prop: "C07" })], vec!["eviction cannot be switched off in the cold twin, so it is checked by the filler-file metamorphic relation", "open/close and cache pressure are applied only to documents whose buffer equals the on-disk text (the statement says 'unmodified')"]),
        "C10" => base("C10", vec![Box::new(super::scen_scanedit::ScanEdit)], vec!["the client waits a generated number of scheduler steps (virtual time) before sending the notification; the handler then interleaves with the scan workers at DashMap lock points"]),
        "C19" => base("C19", vec![Box::new(super::scen_diag::Diag)], vec!["the history starts after the initial scan reported completion (a document opened during the scan is C10's subject)", "expected findings come from the library on a fresh twin built from the latest valid contents, the changed document analysed last"]),
        "C11" => base("C11", vec![Box::new(super::scen_chaos::Chaos { full_stack: false }), Box::new(super::scen_chaos::Chaos { full_stack: true })], vec!["alarms only for behaviour a conforming LSP client and a POSIX filesystem can produce (DESIGN.md §6.3); EIO-class disk errors and allocation failure are outside the simulation", "contents come from a generator of hostile layouts, not from byte-level grammar fuzzing (input generation is a different technique family)"]),
        "C12" => base("C12", vec![Box::new(super::scen_locks::Locks { cyclic: false }), Box::new(super::scen_locks::Locks { cyclic: true })], vec!["the deadlock / self-deadlock detector and the step budgets are also active in every run of every other check", "1-shard placement over-approximates hashing: keys that collide there do collide for some hasher seed in production, which is what the statement forbids relying on", "read-inside-read nestings are admitted exactly as by dashmap 6.1.0's lock"]),
        "C13" => base("C13", vec![Box::new(super::scen_discover::Discover { faults: false }), Box::new(super::scen_discover::Discover { faults: true })], vec!["only faults a real deployment produces without kernel help are injected (delete, truncate, EISDIR, dangling symlink, symlink loop, invalid UTF-8, rewrite); EIO/short reads are not", "exclude patterns are interpreted by the glob crate the repository documents; the ignore list is the documented one"]),
        "C20" => base("C20", vec![Box::new(super::scen_cli::Cli)], vec!["the CLI runs as a seeded child of the harness binary (same shims), so clap parsing, the handlers and process::exit are the real ones", "usage counts are keyed by (file, name) as the CLI prints them; the generator avoids a name defined twice in one file here"]),
        _ => return None,
    })
}

pub fn selftest() -> i32 {
    0
}
