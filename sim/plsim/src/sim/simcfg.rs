//! Simulation parameters σ as a serialisable value (part of every replay file).

use super::util::Rng;
use serde::{Deserialize, Serialize};

#[derive(Clone, Debug, Serialize, Deserialize, PartialEq)]
pub struct SimParams {
    pub seed: u64,
    pub hash_seed: u64,
    /// "random" | "pct"
    pub strategy: String,
    /// switch probability per mille (random) or depth (pct)
    pub param: u32,
    pub est_steps: u64,
    pub shards: usize,
    pub workers: usize,
    pub max_steps: u64,
}

impl SimParams {
    /// Swarm-style: every dimension varies per run.
    pub fn gen(rng: &mut Rng, est_steps: u64) -> SimParams {
        let (strategy, param) = match rng.below(10) {
            0..=1 => ("random", 0),   // coarse
            2..=3 => ("random", 5),
            4..=5 => ("random", 50),
            6 => ("random", 300),
            7 => ("pct", 1),
            8 => ("pct", 2),
            _ => ("pct", 3),
        };
        SimParams {
            seed: rng.next(),
            hash_seed: rng.next(),
            strategy: strategy.to_string(),
            param,
            est_steps,
            shards: *rng.pick(&[1usize, 2, 4, 4, 16, 64]),
            workers: rng.range(1, 4),
            max_steps: 20_000_000, // a cap for runaway runs, not a liveness bound: a thorough-tier workspace (scan + every query of a scenario) came within 344 steps of the former 2 M
        }
    }

    pub fn dense(rng: &mut Rng, est_steps: u64) -> SimParams {
        let mut p = Self::gen(rng, est_steps);
        if p.strategy == "random" && p.param < 50 {
            p.param = *rng.pick(&[50u32, 150, 300, 500]);
        }
        p.shards = *rng.pick(&[1usize, 2, 4]);
        p
    }

    pub fn cfg(&self, replay: Option<Vec<u32>>) -> simrt::Cfg {
        simrt::Cfg {
            seed: self.seed,
            hash_seed: self.hash_seed,
            strategy: if self.strategy == "pct" {
                simrt::Strategy::Pct { depth: self.param.max(1), est_steps: self.est_steps.max(1) }
            } else {
                simrt::Strategy::Random { switch_per_mille: self.param }
            },
            shards: self.shards.max(1),
            workers: self.workers.max(1),
            max_steps: self.max_steps,
            replay,
            trace: false,
        }
    }
}

/// Explicit schedules recorded in a replay file: one decision list per `simrt::run` of the run.
pub fn replay_list(input: &serde_json::Value, k: usize) -> Option<Vec<u32>> {
    input
        .get("decisions")
        .and_then(|d| d.as_array())
        .and_then(|a| a.get(k))
        .and_then(|l| l.as_array())
        .map(|l| l.iter().map(|x| x.as_u64().unwrap_or(0) as u32).collect())
}
