//! S-RESOLVE (C01, C02): generated workspace × real `scan_workspace` under σ; every usage at every
//! column is resolved and compared with the PytestModel.

use super::batch::{RunOut, Scenario, Tier};
use super::model::{Expect, Model, Via};
use super::pytext::TokKind;
use super::simcfg::{replay_list, SimParams};
use super::util::{fnv, mix, Rng, Sandbox};
use super::ws::{gen_ws, WsOpts, WsSpec};
use crate::fixtures::{FixtureDatabase, FixtureDefinition};
use serde::{Deserialize, Serialize};
use serde_json::Value;
use std::collections::BTreeSet;
use std::path::{Path, PathBuf};
use std::sync::Arc;

#[derive(Clone, Debug, Serialize, Deserialize)]
pub struct ResolveInput {
    pub sim: SimParams,
    pub spec: WsSpec,
    #[serde(default)]
    pub sandbox: Option<String>,
    pub run_seed: u64,
    /// files re-sent through `analyze_file` with identical text after the scan (must not matter)
    #[serde(default)]
    pub reopen: Vec<String>,
    /// documents the editor opened (file, buffer text) BEFORE the scan reached them (history: open, then scan)
    #[serde(default)]
    pub preopen: Vec<(String, String)>,
    /// edits applied after the scan and after a first, cache-warming round of queries
    #[serde(default)]
    pub edits: Vec<(String, String)>,
    /// after the edits (and a round of queries on them) the editor closes the edited documents without saving
    #[serde(default)]
    pub close_after_edits: bool,
}

/// One observed answer of the real code.
#[derive(Clone, Debug)]
pub struct Obs {
    pub file: String,
    pub line: usize,
    pub col: usize,
    pub got: Option<(String, usize, String)>, // (rel file, line, name)
}

pub fn rel_of(root: &Path, p: &Path) -> String {
    super::dbsnap::rel(root, p)
}

pub fn obs_def(root: &Path, d: &Option<FixtureDefinition>) -> Option<(String, usize, String)> {
    d.as_ref().map(|d| (rel_of(root, &d.file_path), d.line, d.name.clone()))
}

/// Scan `root` with the real scanner inside a simulation and run `after` on the index.
pub fn scan_then<R: Send + 'static>(
    sim: &SimParams,
    replay: Option<Vec<u32>>,
    root: PathBuf,
    after: impl FnOnce(&Arc<FixtureDatabase>, &Path) -> R + Send + 'static,
) -> (simrt::Outcome, Option<R>) {
    scan_then_pre(sim, replay, root, vec![], after)
}

/// Same, with documents analysed through the editor path before the scan starts.
pub fn scan_then_pre<R: Send + 'static>(
    sim: &SimParams,
    replay: Option<Vec<u32>>,
    root: PathBuf,
    preopen: Vec<(String, String)>,
    after: impl FnOnce(&Arc<FixtureDatabase>, &Path) -> R + Send + 'static,
) -> (simrt::Outcome, Option<R>) {
    simrt::run(sim.cfg(replay), move || {
        let db = Arc::new(FixtureDatabase::new());
        for (f, t) in &preopen {
            db.analyze_file(root.join(f), t);
        }
        db.scan_workspace(&root);
        after(&db, &root)
    })
}

pub fn abort_to_violation(out: &mut RunOut, a: &simrt::AbortInfo, what: &str) {
    match a.kind {
        simrt::AbortKind::Deadlock => out.violate("deadlock", format!("deadlock during {}: {}", what, a.detail)),
        simrt::AbortKind::StepBudget => out.violate("no-termination", format!("{}: {}", what, a.detail)),
        simrt::AbortKind::Panic => out.violate("panic", format!("panic in T{} during {}: {}", a.thread, what, a.detail)),
        simrt::AbortKind::Harness => out.harness_error = Some(a.detail.clone()),
    }
}

pub struct Resolve {
    pub variant: &'static str,
}

fn opts_for(variant: &str, rng: &mut Rng, tier: Tier) -> WsOpts {
    let mut o = WsOpts::default();
    o.file.in_class = false;
    match variant {
        "plain" => {
            o.imports = false;
            o.same_file_dups = rng.chance(300);
            if rng.chance(120) {
                o.file.unicode_test_names_per_mille = 400;
            }
        }
        "imports" => {
            o.colliding_imports = rng.chance(600);
            o.import_cycles = rng.chance(200);
            o.stdlib_named_helpers = rng.chance(500);
            o.import_plain_names = rng.chance(500);
        }
        "venv" => {
            o.venv = true;
            o.colliding_imports = rng.chance(500);
        }
        _ => {}
    }
    if tier == Tier::Thorough {
        o.max_dirs = 8;
        o.n_names = rng.range(3, 6);
    } else {
        o.n_names = rng.range(3, 5);
    }
    o
}

/// Does `got` lie in the import closure of conftest `c`?
fn classify_wrong(model: &Model, exp: &Expect, got: &(String, usize, String)) -> &'static str {
    if let Via::ConftestImport(_) = &exp.via {
        let in_accept = exp.accept.iter().any(|i| model.defs[*i].file == got.0 && model.defs[*i].line == got.1);
        if !in_accept {
            return "RC-IMPORT-ORIGIN";
        }
    }
    "resolve-wrong-target"
}

impl Scenario for Resolve {
    fn name(&self) -> &'static str {
        match self.variant {
            "plain" => "resolve-plain",
            "imports" => "resolve-imports",
            _ => "resolve-venv",
        }
    }
    fn rule(&self) -> &'static str {
        "generated workspace (conftest hierarchy depth<=3, helper modules star/explicit/pytest_plugins-imported, overrides, same-named \
         definitions in siblings, optional synthetic venv) scanned by the real scan_workspace under a seeded schedule/worker count/shard \
         count/hash seed/readdir order; every usage token x every column inside it is resolved and compared with the reference model; \
         non-trivial = at least one fixture name has >= 2 definitions in the workspace; distinct = workspace-spec hash x decision-list hash"
    }
    fn runs(&self, tier: Tier) -> u64 {
        match (tier, self.variant) {
            (Tier::Quick, _) => 4_000,
            (Tier::Thorough, _) => 150_000,
        }
    }
    fn shrink_paths(&self) -> Vec<&'static str> {
        vec!["/spec/files", "/spec/files/*/items", "/reopen", "/decisions/0"]
    }

    fn gen(&self, run_seed: u64, tier: Tier) -> Value {
        let mut rng = Rng::new(run_seed);
        let o = opts_for(self.variant, &mut rng, tier);
        let spec = if self.variant == "imports" && rng.chance(80) {
            if rng.chance(500) { super::ws::diamond_ws(&mut rng) } else { super::ws::ring_ws(&mut rng) }
        } else {
            gen_ws(&mut rng, &o)
        };
        let sim = SimParams::gen(&mut rng, 3000);
        let mut reopen = vec![];
        if rng.chance(300) {
            for f in &spec.files {
                if rng.chance(300) && !f.rel.starts_with(".venv") {
                    reopen.push(f.rel.clone());
                }
            }
        }
        serde_json::to_value(ResolveInput { sim, spec, sandbox: None, run_seed, reopen, preopen: vec![], edits: vec![], close_after_edits: false }).unwrap()
    }

    fn exec(&self, input: &Value) -> RunOut {
        let mut out = RunOut::default();
        let inp: ResolveInput = match serde_json::from_value(input.clone()) {
            Ok(i) => i,
            Err(e) => {
                out.harness_error = Some(format!("bad input: {}", e));
                return out;
            }
        };
        let sb = Sandbox::acquire("res", inp.run_seed, inp.sandbox.as_deref().map(Path::new));
        let root = inp.spec.materialise(&sb.root());
        let model = Model::new(&inp.spec);
        // queries are asked in a seeded order: memoised import walks are order-sensitive
        let mut toks = model.usage_tokens();
        Rng::new(inp.run_seed ^ 0x0bde).shuffle(&mut toks);
        let toks2 = toks.clone();
        let reopen = inp.reopen.clone();
        let spec2 = inp.spec.clone();
        let (oc, obs) = scan_then(&inp.sim, replay_list(input, 0), root.clone(), move |db, root| {
            for r in &reopen {
                if let Some(f) = spec2.file(r) {
                    db.analyze_file(root.join(r), &super::pytext::render(&f.items).text);
                }
            }
            let mut obs: Vec<Obs> = vec![];
            let cached: BTreeSet<String> = db.file_cache.iter().map(|e| rel_of(root, e.key())).collect();
            for (file, t) in &toks2 {
                if !cached.contains(file) {
                    continue;
                }
                let abs = root.join(file);
                for col in t.start..t.end {
                    let d = db.find_fixture_definition(&abs, (t.line - 1) as u32, col as u32);
                    obs.push(Obs { file: file.clone(), line: t.line, col, got: obs_def(root, &d) });
                }
            }
            (obs, cached)
        });
        out.absorb_outcome(&oc);
        let mut dh = 0u64;
        for d in &oc.decisions {
            dh = mix(dh, *d as u64);
        }
        out.fingerprint = mix(fnv(&serde_json::to_string(&inp.spec).unwrap()), dh);
        let mut by_name: std::collections::BTreeMap<&str, usize> = Default::default();
        for d in &model.defs {
            *by_name.entry(d.name.as_str()).or_insert(0) += 1;
        }
        out.nontrivial = by_name.values().any(|n| *n >= 2);
        if let Some(a) = &oc.abort {
            abort_to_violation(&mut out, a, "workspace scan / resolution");
            return out;
        }
        let Some((obs, cached)) = obs else {
            out.harness_error = Some("no observations".into());
            return out;
        };
        let mut sh = 0u64;
        let mut k = 0usize;
        for (file, t) in &toks {
            if !cached.contains(file) {
                out.count("usage_tokens_in_unscanned_files", 1);
                continue;
            }
            let excl = if matches!(t.kind, TokKind::FixtureParam) {
                match model.enclosing_fixture(file, t.line, &t.in_fixture) {
                    Some(i) if model.defs[i].name == t.name => Some(i),
                    _ => None,
                }
            } else {
                None
            };
            let exp = model.resolve(file, &t.name, excl);
            match &exp.via {
                Via::SameFile => out.count("probe.expect_same_file", 1),
                Via::OwnImport => out.count("probe.expect_import_of_using_module", 1),
                Via::ConftestOwn(_) => out.count("probe.expect_conftest_own", 1),
                Via::ConftestImport(_) => out.count("probe.expect_conftest_import", 1),
                Via::WorkspacePlugin => out.count("probe.expect_workspace_plugin", 1),
                Via::ThirdParty => out.count("probe.expect_third_party", 1),
                Via::Nothing => out.count("probe.expect_nothing", 1),
            }
            if excl.is_some() {
                out.count("probe.self_named_parameter", 1);
            }
            for _col in t.start..t.end {
                let o = &obs[k];
                k += 1;
                sh = mix(sh, fnv(&format!("{:?}", o.got)));
                out.count("queries", 1);
                let ok = match &o.got {
                    None => exp.accept.is_empty() || exp.none_ok,
                    Some(g) => exp.accept.iter().any(|i| model.defs[*i].file == g.0 && model.defs[*i].line == g.1 && model.defs[*i].name == g.2),
                };
                if !ok {
                    // usage columns are recorded as byte offsets, the cursor column counts UTF-16 units: right of a
                    // non-ASCII character the two disagree
                    let line_text = model.rendered.get(file).and_then(|r| r.text.lines().nth(t.line - 1)).unwrap_or("");
                    let class = match &o.got {
                        _ if !line_text.is_ascii() => "RC-BYTE-COLUMNS",
                        None => "resolve-missing",
                        Some(_) if exp.accept.is_empty() => "resolve-invisible-returned",
                        Some(g) => classify_wrong(&model, &exp, g),
                    };
                    let want: Vec<String> = exp.accept.iter().map(|i| model.defs[*i].key()).collect();
                    out.violate(
                        class,
                        format!(
                            "{} usage of '{}' at {}:{}:{} ({:?}): expected {:?} via {:?}, got {:?}",
                            match t.kind {
                                TokKind::TestParam => "test-parameter",
                                TokKind::FixtureParam => "fixture-parameter",
                                TokKind::Usefixtures => "usefixtures",
                                TokKind::Pytestmark => "pytestmark",
                                TokKind::Indirect => "indirect-parametrize",
                                _ => "?",
                            },
                            t.name,
                            file,
                            t.line,
                            o.col,
                            t.kind,
                            want,
                            exp.via,
                            o.got
                        ),
                    );
                }
            }
        }
        out.state_hash = sh;
        out
    }
}
