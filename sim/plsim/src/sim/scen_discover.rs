//! S-DISCOVER (C13): generated trees (file names near the patterns, ignored names at every depth,
//! exclude patterns from pyproject.toml, a venv inside the root) materialised at several absolute
//! locations, with a filesystem adversary.  Oracle: discovery model relative to the root; relocation
//! metamorphic relation; faulted files may be missing, nothing else may change.

use super::batch::{RunOut, Scenario, Tier};
use super::dbsnap::{map_snap, rel, MapSnap};
use super::pytext::{render, Fx, Item, PyFile, Tst};
use super::scen_resolve::abort_to_violation;
use super::simcfg::{replay_list, SimParams};
use super::util::{fnv, mix, Rng, Sandbox};
use super::ws::{join_rel, WsSpec};
use crate::fixtures::FixtureDatabase;
use serde::{Deserialize, Serialize};
use serde_json::Value;
use std::collections::BTreeSet;
use std::path::Path;
use std::sync::Arc;

#[derive(Clone, Debug, Serialize, Deserialize)]
pub struct DiscoverInput {
    pub spec: WsSpec,
    /// ancestor directory names for each materialisation (first = neutral reference)
    pub locations: Vec<Vec<String>>,
    /// exclude patterns written to pyproject.toml (valid and invalid ones)
    pub excludes: Vec<String>,
    /// static faults applied before the scan: (relative path, kind)
    pub faults: Vec<(String, String)>,
    /// adversary acting while the scan runs: (scheduler steps to wait, action, relative path)
    pub adversary: Vec<(u64, String, String)>,
    /// content of a pyproject.toml placed in an ANCESTOR directory of the relocated workspaces (it is not
    /// the workspace's configuration and must have no effect)
    #[serde(default)]
    pub ancestor_config: Option<String>,
    /// the root conftest.py imports a module name that only exists ABOVE the workspace root (in the second location)
    #[serde(default)]
    pub ancestor_decoy: bool,
    pub sim: SimParams,
    pub run_seed: u64,
    #[serde(default)]
    pub sandbox: Option<String>,
}

pub struct Discover {
    pub faults: bool,
}

const IGNORED: [&str; 26] = [
    ".git", ".hg", ".svn", ".venv", "venv", "env", ".env", "__pycache__", ".pytest_cache", ".mypy_cache", ".ruff_cache", ".tox", ".nox", "build", "dist", ".eggs", "node_modules", "bower_components", "target", ".idea", ".vscode", ".cache", ".local", "vendor", "site-packages", "pkg.egg-info",
];
const NEAR_IGNORED: [&str; 8] = ["builds", "environment", "egg-info", "x.egg-infos", "targets", "venv2", "Build", "git"];
const NEUTRAL: [&str; 6] = ["a", "b", "src", "tests", "unit", "lib"];
const FILES: [&str; 14] = ["conftest.py", "test_a.py", "b_test.py", "test_.py", "_test.py", "xtest_a.py", "a_test.py", "conftest.pyc", "Conftest.py", "test_a.txt", "tests.py", "test_b.pyi", "testa.py", "conftest_extra.py"];

fn is_ignored_dir(name: &str) -> bool {
    IGNORED[..25].contains(&name) || name.ends_with(".egg-info")
}

fn matches_pattern(name: &str) -> bool {
    name == "conftest.py" || (name.starts_with("test_") && name.ends_with(".py")) || name.ends_with("_test.py")
}

/// The discovery model: which generated files must be indexed by the walk (relative to root).
pub fn model_discovered(spec: &WsSpec, excludes: &[String]) -> BTreeSet<String> {
    let pats: Vec<glob::Pattern> = excludes.iter().filter_map(|p| glob::Pattern::new(p).ok()).collect();
    let mut out = BTreeSet::new();
    for f in &spec.files {
        let parts: Vec<&str> = f.rel.split('/').collect();
        let (dirs, name) = parts.split_at(parts.len() - 1);
        if dirs.iter().any(|d| is_ignored_dir(d)) {
            continue;
        }
        if !matches_pattern(name[0]) {
            continue;
        }
        if pats.iter().any(|p| p.matches(&f.rel)) {
            continue;
        }
        out.insert(f.rel.clone());
    }
    // plus the modules those files pull in (star imports, transitively)
    loop {
        let mut added = false;
        for f in &spec.files {
            if !out.contains(&f.rel) {
                continue;
            }
            for it in &f.items {
                if let Item::Star { target: Some(t), .. } = it {
                    if spec.file(t).is_some() && out.insert(t.clone()) {
                        added = true;
                    }
                }
            }
        }
        if !added {
            break;
        }
    }
    out
}

fn tiny_file(rng: &mut Rng, rel: &str, k: usize) -> PyFile {
    let fx = format!("fx_{}", k);
    let mut items = vec![Item::Fixture(Fx { func: fx.clone(), ..Default::default() })];
    if rng.chance(700) {
        items.push(Item::Test(Tst { name: format!("test_{}", k), params: vec![fx, "shared".into()], ..Default::default() }));
    }
    PyFile { rel: rel.to_string(), items }
}

fn gen_tree(rng: &mut Rng) -> WsSpec {
    let mut dirs: Vec<String> = vec![String::new()];
    for _ in 0..rng.range(2, 7) {
        let parent = rng.pick(&dirs).clone();
        if parent.matches('/').count() >= 3 {
            continue;
        }
        let name = match rng.below(10) {
            0..=3 => rng.pick(&NEUTRAL).to_string(),
            4..=6 => rng.pick(&IGNORED).to_string(),
            _ => rng.pick(&NEAR_IGNORED).to_string(),
        };
        let d = join_rel(&parent, &name);
        if !dirs.contains(&d) {
            dirs.push(d);
        }
    }
    let mut files = vec![];
    let mut k = 0;
    for d in &dirs {
        for _ in 0..rng.range(0, 3) {
            let name = rng.pick(&FILES).to_string();
            let r = join_rel(d, &name);
            if files.iter().any(|f: &PyFile| f.rel == r) {
                continue;
            }
            k += 1;
            files.push(tiny_file(rng, &r, k));
        }
    }
    if !files.iter().any(|f| f.rel == "conftest.py") {
        files.push(PyFile { rel: "conftest.py".into(), items: vec![Item::Fixture(Fx { func: "shared".into(), ..Default::default() })] });
    }
    // helper modules pulled in by the root conftest only through imports (one of them transitively)
    if rng.chance(500) {
        let n = rng.range(2, 3);
        let mut stars = vec![];
        for h in 0..n {
            let rel = format!("helpers_{}.py", h);
            let mut items = vec![Item::Fixture(Fx { func: format!("helper_fx_{}", h), ..Default::default() })];
            if h == 0 {
                items.insert(0, Item::Star { module: "deep_helper".into(), target: Some("deep_helper.py".into()) });
            }
            files.push(PyFile { rel: rel.clone(), items });
            stars.push(Item::Star { module: format!("helpers_{}", h), target: Some(rel) });
        }
        files.push(PyFile { rel: "deep_helper.py".into(), items: vec![Item::Fixture(Fx { func: "deep_fx".into(), ..Default::default() })] });
        if let Some(c) = files.iter_mut().find(|f| f.rel == "conftest.py") {
            for (i, st) in stars.into_iter().enumerate() {
                c.items.insert(i, st);
            }
        }
    }
    let mut spec = WsSpec { files, ..Default::default() };
    if rng.chance(300) {
        // a venv inside the root: ignored by the walk, scanned for plugins in phase 3
        let names = vec!["shared".to_string(), "tp_fx".to_string()];
        super::ws::add_venv(rng, &mut spec, &names);
    }
    rng.shuffle(&mut spec.files);
    spec
}

fn gen_excludes(rng: &mut Rng, spec: &WsSpec) -> Vec<String> {
    let mut v = vec![];
    for _ in 0..rng.below(4) {
        let p = match rng.below(8) {
            0 => "**/b_test.py".to_string(),
            1 => "tests/*".to_string(),
            2 => "[unclosed".to_string(),
            3 => "***/x".to_string(),
            4 => "*test_a.py".to_string(),
            5 => spec.files.get(rng.below(spec.files.len().max(1))).map(|f| f.rel.clone()).unwrap_or_else(|| "x".into()),
            6 => "a/**".to_string(),
            _ => "src/test_?.py".to_string(),
        };
        v.push(p);
    }
    v
}

impl Scenario for Discover {
    fn name(&self) -> &'static str {
        if self.faults {
            "discover-faults"
        } else {
            "discover-relocate"
        }
    }
    fn rule(&self) -> &'static str {
        if self.faults {
            "generated tree at a neutral location scanned twice by the real scan (Config::load + scan_workspace_with_excludes): once fault-free, \
             once with a filesystem adversary (invalid UTF-8, file replaced by directory, dangling symlink, symlink loop, truncation, deletion or \
             rewrite between walk and read at a generated scheduler step); faulted files may be absent, every other file must be indexed with \
             the same records; non-trivial = at least one fault hit a file the walk selects; distinct = spec hash x fault list x schedule"
        } else {
            "generated tree (file names near the patterns, ignored / near-ignored directory names at any depth, valid and invalid exclude globs \
             in pyproject.toml, optional venv inside the root) materialised at 3-6 absolute locations: neutral, under ancestors named like ignored \
             directories (build, env, target, x.egg-info, .venv), under an ancestor containing 'site-packages', the root itself named like \
             an ignored directory, the root reached through a symbolic link; mistyped neighbour settings next to the exclude list; indexed file set compared with the \
             discovery model relative to the root and relative snapshots (incl. third-party flags) compared across locations; non-trivial = the \
             tree has an ignored directory or an exclude hit below the root; distinct = spec hash x locations"
        }
    }
    fn runs(&self, tier: Tier) -> u64 {
        match tier {
            Tier::Quick => 1_500,
            Tier::Thorough => 50_000,
        }
    }
    fn shrink_paths(&self) -> Vec<&'static str> {
        vec!["/spec/files", "/excludes", "/faults", "/adversary", "/locations"]
    }

    fn gen(&self, run_seed: u64, _tier: Tier) -> Value {
        let mut rng = Rng::new(run_seed);
        let spec = gen_tree(&mut rng);
        let excludes = gen_excludes(&mut rng, &spec);
        let mut locations = vec![vec!["proj".to_string()]];
        let mut faults = vec![];
        let mut adversary = vec![];
        if self.faults {
            let cands: Vec<String> = spec.files.iter().filter(|f| !f.rel.starts_with(".venv")).map(|f| f.rel.clone()).collect();
            for _ in 0..rng.range(1, 3) {
                let f = rng.pick(&cands).clone();
                let kind = rng.pick(&["invalid-utf8", "directory", "dangling-symlink", "symlink-loop", "truncate"]).to_string();
                faults.push((f, kind));
            }
            if rng.chance(600) {
                for _ in 0..rng.range(1, 2) {
                    let f = rng.pick(&cands).clone();
                    let act = rng.pick(&["delete", "rewrite", "truncate", "to-directory", "invalid-utf8"]).to_string();
                    adversary.push((rng.below(3000) as u64, act, f));
                }
            }
        } else {
            let hostile_names = ["build", "env", "target", "x.egg-info", ".venv", "dist", "node_modules", "vendor", ".cache"];
            locations.push(vec![rng.pick(&hostile_names).to_string(), "inner".to_string()]);
            locations.push(vec![rng.pick(&["my-site-packages", "site-packages", "x-site-packages-y"]).to_string()]);
            if rng.chance(300) {
                locations.push(vec!["home".into(), "user".into(), rng.pick(&hostile_names).to_string()]);
            }
            if rng.chance(350) {
                // the root directory itself is named like an ignored one
                locations.push(vec!["work".into(), format!("={}", rng.pick(&hostile_names))]);
            }
            if rng.chance(350) {
                // the workspace is reached through a symbolic link (the tree itself lives under store/), the link's
                // directory is neutral or named like an ignored one
                locations.push(vec!["store".into(), format!("@{}", rng.pick(&["links", "build", "env", "x.egg-info", "my-site-packages"]))]);
            }
        }
        let mut sim = SimParams::gen(&mut rng, 3000);
        sim.max_steps = 20_000_000;
        let ancestor_config = if !self.faults && rng.chance(400) {
            Some(format!("[tool.pytest-language-server]\nexclude = {:?}\ndisabled_diagnostics = [\"undeclared-fixture\"]\n", rng.pick(&[vec!["*", "**/*"], vec!["**/conftest.py"], vec!["*test*"]])))
        } else {
            None
        };
        let ancestor_decoy = !self.faults && rng.chance(250);
        serde_json::to_value(DiscoverInput { spec, locations, excludes, faults, adversary, ancestor_config, ancestor_decoy, sim, run_seed, sandbox: None }).unwrap()
    }

    fn exec(&self, input: &Value) -> RunOut {
        let mut out = RunOut::default();
        let inp: DiscoverInput = match serde_json::from_value(input.clone()) {
            Ok(i) => i,
            Err(e) => {
                out.harness_error = Some(format!("bad input: {}", e));
                return out;
            }
        };
        if inp.locations.is_empty() || (!self.faults && inp.locations.len() < 2) {
            return out;
        }
        let sb = Sandbox::acquire(if self.faults { "c13f" } else { "c13r" }, inp.run_seed, inp.sandbox.as_deref().map(Path::new));
        let mut spec = inp.spec.clone();
        if !inp.excludes.is_empty() {
            // in a third of the runs the neighbouring settings are mistyped (a non-string entry, a string instead of a list,
            // an unknown code): each is ignored on its own, the exclude patterns stay in effect
            let neighbours = match inp.run_seed % 6 {
                0 => "skip_plugins = [\"pytest-xdist\", 3]\n",
                1 => "fixture_paths = \"fixtures/\"\ndisabled_diagnostics = [\"undeclared-fixture\", 7, \"no-such-code\"]\n",
                _ => "",
            };
            if !neighbours.is_empty() {
                out.count("fault.pyproject_mistyped_neighbour_setting", 1);
            }
            spec.extra.push(("pyproject.toml".into(), format!("[tool.pytest-language-server]\nexclude = {:?}\n{}", inp.excludes, neighbours)));
        }
        out.fingerprint = fnv(&serde_json::to_string(&(&inp.spec, &inp.locations, &inp.excludes, &inp.faults, &inp.adversary)).unwrap());
        let model = model_discovered(&inp.spec, &inp.excludes);
        let has_ignored = inp.spec.files.iter().any(|f| f.rel.split('/').rev().skip(1).any(is_ignored_dir));
        let has_exclude_hit = inp.spec.files.iter().filter(|f| matches_pattern(f.rel.rsplit('/').next().unwrap_or(""))).count() > model.len();
        let mut results: Vec<(Vec<String>, BTreeSet<String>, MapSnap)> = vec![];
        let mut k = 0usize;
        let runs: Vec<(Vec<String>, bool)> = if self.faults { vec![(inp.locations[0].clone(), false), (inp.locations[0].clone(), true)] } else { inp.locations.iter().map(|l| (l.clone(), false)).collect() };
        for (loc, with_faults) in runs {
            let _ = std::fs::remove_dir_all(sb.root());
            // an element "=name" names the workspace root directory itself
            spec.ancestors = loc.iter().filter(|a| !a.starts_with('=') && !a.starts_with('@')).cloned().collect();
            spec.root_name = loc.iter().find(|a| a.starts_with('=')).map(|a| a[1..].to_string());
            let root = spec.materialise(&sb.root());
            // an element "@name": the scan is given <sandbox>/name/lnk, a symbolic link to the root
            let mut scan_root = root.clone();
            if let Some(l) = loc.iter().find(|a| a.starts_with('@')) {
                let ld = sb.root().join(&l[1..]);
                let _ = std::fs::create_dir_all(&ld);
                if std::os::unix::fs::symlink(&root, ld.join("lnk")).is_ok() {
                    scan_root = ld.join("lnk");
                    out.count("fault.workspace_root_is_a_symbolic_link", 1);
                }
            }
            if inp.ancestor_decoy && !self.faults {
                // `from decoy_helper import *` in the root conftest: nothing under the root provides it
                let cp = root.join("conftest.py");
                let cur = std::fs::read_to_string(&cp).unwrap_or_else(|_| "import pytest\n".to_string());
                let _ = std::fs::write(&cp, format!("from decoy_helper import *\n{}", cur));
                if results.len() >= 1 {
                    if let Some(parent) = root.parent() {
                        if parent != sb.root() {
                            let _ = std::fs::write(parent.join("decoy_helper.py"), "import pytest\n\n@pytest.fixture\ndef decoy_fx():\n    return 1\n");
                            out.count("fault.same_named_module_above_the_root", 1);
                        }
                    }
                }
            }
            if let (Some(cfg), true) = (&inp.ancestor_config, results.len() >= 1 && !self.faults) {
                if let Some(parent) = root.parent() {
                    if parent != sb.root() {
                        let _ = std::fs::write(parent.join("pyproject.toml"), cfg);
                        out.count("fault.pyproject_in_ancestor_directory", 1);
                    }
                }
            }
            let mut hit = 0u64;
            if with_faults {
                for (f, kind) in &inp.faults {
                    if apply_fault(&root, f, kind) {
                        out.count(&format!("fault.{}", kind.replace('-', "_")), 1);
                        if model.contains(f) {
                            hit += 1;
                        }
                    }
                }
            }
            let adv = if with_faults { inp.adversary.clone() } else { vec![] };
            for (_, act, f) in &adv {
                out.count(&format!("fault.during_scan_{}", act.replace('-', "_")), 1);
                if model.contains(f) {
                    hit += 1;
                }
            }
            if hit > 0 {
                out.nontrivial = true;
            }
            let r2 = scan_root.clone();
            // index keys are canonical paths: relative names are taken against the real root
            let real_root = root.clone();
            let (oc, res) = simrt::run(inp.sim.cfg(replay_list(input, k)), move || {
                let db = Arc::new(FixtureDatabase::new());
                let cfg = crate::config::Config::load(&r2);
                let mut hs = vec![];
                for (delay, act, f) in adv {
                    let r3 = r2.clone();
                    hs.push(simrt::spawn(move || {
                        simrt::sleep_steps(delay);
                        apply_fault(&r3, &f, &act);
                    }));
                }
                db.scan_workspace_with_excludes(&r2, &cfg.exclude);
                for h in hs {
                    h.join();
                }
                let files: BTreeSet<String> = db.file_cache.iter().map(|e| rel(&real_root, e.key())).collect();
                (files, map_snap(&db, &real_root))
            });
            k += 1;
            out.absorb_outcome(&oc);
            if let Some(a) = &oc.abort {
                abort_to_violation(&mut out, a, "workspace scan");
                return out;
            }
            let Some((files, snap)) = res else {
                out.harness_error = Some("no result".into());
                return out;
            };
            results.push((loc, files, snap));
        }
        out.state_hash = results[0].2.hash();
        if !self.faults {
            out.nontrivial = has_ignored || has_exclude_hit;
            // 1. discovery model at the neutral location
            let (loc0, files0, snap0) = &results[0];
            let walk_files: BTreeSet<String> = files0.iter().filter(|f| !f.starts_with(".venv/") && (!f.starts_with("plugsrc/") || model.contains(*f))).cloned().collect();
            for m in model.difference(&walk_files) {
                out.violate("discover-file-missing", format!("{} matches the patterns, is not under an ignored directory and is not excluded ({:?}) but was not indexed (root under {:?})", m, inp.excludes, loc0));
            }
            for x in walk_files.difference(&model) {
                out.violate("discover-file-unexpected", format!("{} was indexed although it is ignored/excluded/not matching (excludes {:?})", x, inp.excludes));
            }
            // 2. relocation
            for (loc, files, snap) in results.iter().skip(1) {
                if files != files0 {
                    let ancestor_ignored = loc.iter().any(|a| !a.starts_with('=') && is_ignored_dir(a));
                    let root_ignored = loc.iter().any(|a| a.starts_with('=') && is_ignored_dir(&a[1..]));
                    // the only difference is a module found ABOVE the root by walking up from an absolute import
                    let above_only = files0.iter().all(|f| files.contains(f)) && files.difference(files0).all(|f| f.starts_with("../") && !f.starts_with("../extsrc/"));
                    let class = if above_only && inp.ancestor_decoy {
                        "RC-IMPORT-CLIMBS-ABOVE-ROOT"
                    } else if root_ignored && files.len() < files0.len() {
                        "RC-ROOT-NAMED-LIKE-IGNORED"
                    } else if ancestor_ignored && files.len() < files0.len() {
                        "RC-ANCESTOR-SKIP"
                    } else {
                        "relocation-changes-file-set"
                    };
                    out.violate(class, format!("the same tree indexes {:?} under {:?} but {:?} under {:?}", files0, loc0, files, loc));
                    continue;
                }
                if let Some(d) = snap0.diff(snap, true) {
                    let sp = loc.iter().any(|a| a.contains("site-packages"));
                    let class = if sp && d.contains("tp=true") { "RC-SITE-PACKAGES-SUBSTRING" } else { "relocation-changes-records" };
                    out.violate(class, format!("relative snapshot differs between {:?} and {:?}: {}", loc0, loc, d));
                }
            }
        } else {
            let (_, files0, snap0) = &results[0];
            let (_, files1, snap1) = &results[1];
            let touched: BTreeSet<String> = inp.faults.iter().map(|f| f.0.clone()).chain(inp.adversary.iter().map(|a| a.2.clone())).collect();
            // symlink loops create a second path
            // (a later write through a dangling symlink creates its target; the index keys files by canonical path)
            let extra_ok: BTreeSet<String> = touched.iter().map(|t| format!("{}.loop", t)).chain(["no_such_target.py".to_string()]).collect();
            // what must still be reachable when the faulted files contribute nothing (a module imported only
            // through a faulted file is legitimately lost with it)
            let mut degraded = inp.spec.clone();
            for f in degraded.files.iter_mut() {
                if touched.contains(&f.rel) {
                    f.items.clear();
                }
            }
            let still: BTreeSet<String> = model_discovered(&degraded, &inp.excludes);
            // plugin / venv modules that are pulled in by a faulted file (a plugin's star-imported helper) go with it
            let mut via_touched: BTreeSet<String> = BTreeSet::new();
            let mut work: Vec<String> = touched.iter().cloned().collect();
            while let Some(t) = work.pop() {
                for it in inp.spec.file(&t).map(|f| f.items.clone()).unwrap_or_default() {
                    let targets: Vec<String> = match it {
                        Item::Star { target: Some(x), .. } | Item::Import { target: Some(x), .. } => vec![x],
                        Item::Plugins { targets, .. } => targets.into_iter().flatten().collect(),
                        _ => vec![],
                    };
                    for x in targets {
                        if via_touched.insert(x.clone()) {
                            work.push(x);
                        }
                    }
                }
            }
            let venv_kept = |f: &str| (f.starts_with(".venv/") || f.starts_with("plugsrc/") || f.contains(".venv/") || f.contains("plugsrc/")) && !via_touched.iter().any(|v| f.contains(v.as_str()));
            for f in files0.difference(files1) {
                if !touched.contains(f) && (still.contains(f) || venv_kept(f)) {
                    out.violate("fault-removes-other-file", format!("{} is indexed without faults but missing when {:?}/{:?} are faulted", f, inp.faults, inp.adversary));
                }
            }
            for f in files1.difference(files0) {
                if !touched.contains(f) && !extra_ok.contains(f) {
                    out.violate("fault-adds-file", format!("{} appears only in the faulted run", f));
                }
            }
            let strip = |s: &MapSnap| -> Vec<String> {
                let keep = |l: &String| !touched.iter().any(|t| l.contains(t.as_str())) && !l.contains("no_such_target.py") && !via_touched.iter().any(|v| l.contains(v.as_str())) && (still.iter().any(|f| l.contains(f.as_str())) || venv_kept(l));
                s.definitions.iter().chain(s.usages.iter()).chain(s.imports.iter()).filter(|l| keep(l)).cloned().collect()
            };
            if strip(snap0) != strip(snap1) {
                out.violate("fault-changes-other-records", format!("records of files that were not faulted differ: {:?}", snap0.diff(snap1, false)));
            }
        }
        out
    }
}

/// Apply a filesystem fault; returns true when it actually changed something.
pub fn apply_fault(root: &Path, relp: &str, kind: &str) -> bool {
    let p = root.join(relp);
    match kind {
        "invalid-utf8" => std::fs::write(&p, [b'i', b'm', 0xff, 0xfe, b'\n', 0xc3, 0x28]).is_ok(),
        "directory" | "to-directory" => {
            let _ = std::fs::remove_file(&p);
            std::fs::create_dir_all(&p).is_ok()
        }
        "dangling-symlink" => {
            let _ = std::fs::remove_file(&p);
            std::os::unix::fs::symlink(root.join("no_such_target.py"), &p).is_ok()
        }
        "symlink-loop" => {
            let _ = std::fs::remove_file(&p);
            let q = root.join(format!("{}.loop", relp));
            let a = std::os::unix::fs::symlink(&q, &p).is_ok();
            let b = std::os::unix::fs::symlink(&p, &q).is_ok();
            a && b
        }
        "truncate" => std::fs::write(&p, "").is_ok(),
        "delete" => std::fs::remove_file(&p).is_ok(),
        "rewrite" => std::fs::write(&p, render(&[Item::Fixture(Fx { func: "rewritten".into(), ..Default::default() })]).text).is_ok(),
        _ => false,
    }
}
