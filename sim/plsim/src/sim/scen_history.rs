//! S-HISTORY / S-CACHE (C04, C06, C07): edit histories over a small workspace, checked at every
//! prefix against a fresh twin (C06), the references⇔definition relation (C04) or a cold twin and
//! the filler-file relation (C07).  DESIGN.md §7.2–§7.4.

use super::batch::{RunOut, Scenario, Tier};
use super::dbsnap::{all_defs, all_usages, map_snap, rel, MapSnap as MapSnapT};
use super::observe::{snapshot_opts, Snapshot};
use super::pytext::{break_syntax, gen_items, names_pool, render, GenOpts, Item};
use super::scen_resolve::abort_to_violation;
use super::simcfg::{replay_list, SimParams};
use super::util::{fnv, mix, Rng, Sandbox};
use super::ws::{gen_ws, WsOpts, WsSpec};
use crate::fixtures::FixtureDatabase;
use serde::{Deserialize, Serialize};
use serde_json::Value;
use std::collections::{BTreeMap, BTreeSet};
use std::path::{Path, PathBuf};
use std::sync::Arc;

#[derive(Clone, Debug, Serialize, Deserialize, PartialEq)]
pub enum HOp {
    /// a full-text version of a document (didOpen / didChange)
    Analyze { file: String, text: String },
    /// run every query once on the long-lived index (fills the caches)
    Query,
    /// ask for the fixtures available to these files, in this order (memoisation is order-sensitive)
    Probe { files: Vec<String> },
    /// didOpen with the on-disk text followed by didClose
    OpenClose { file: String },
    /// didClose of a document whose buffer equals the disk text
    Close { file: String },
    /// analyse n filler files (cache pressure; eviction beyond 2000 cached files)
    Fill { n: usize },
    /// didClose of a document whose buffer differs from the file on disk (unsaved changes are discarded); from then on only
    /// the cache-transparency check applies (no statement says what a cold twin of that history is)
    CloseUnsaved { file: String },
}

#[derive(Clone, Debug, Serialize, Deserialize)]
pub struct HistoryInput {
    pub spec: WsSpec,
    pub ops: Vec<HOp>,
    pub sim: SimParams,
    /// the index is first built by the real workspace scan (venv plugins get their markers) instead of
    /// per-file analyses; the cold twin then scans too
    #[serde(default)]
    pub scan_first: bool,
    pub run_seed: u64,
    #[serde(default)]
    pub sandbox: Option<String>,
}

pub struct History {
    pub prop: &'static str,
}

fn parses(text: &str) -> bool {
    rustpython_parser::parse(text, rustpython_parser::Mode::Module, "").is_ok()
}

fn small_ws(rng: &mut Rng, imports: bool) -> WsSpec {
    let mut o = WsOpts::default();
    o.max_dirs = 3;
    o.n_names = rng.range(2, 4);
    o.imports = imports;
    o.colliding_imports = rng.chance(300);
    o.import_cycles = imports && rng.chance(350);
    o.file.in_class = false;
    // a name defined twice in one file: redefinition, `name=` override next to the function, override in a test class -
    // which earlier definition is alive is decided from what each definition binds
    o.same_file_dups = rng.chance(300);
    o.file.class_override_per_mille = 350;
    gen_ws(rng, &o)
}

/// A new version for `file` derived from the spec by an edit that matters to the index.
pub fn next_version(rng: &mut Rng, spec: &WsSpec, file: &str, current: &str, last_valid: &str, names: &[String], prop: &str) -> String {
    let Some(pf) = spec.file(file) else { return current.to_string() };
    let is_test = pf.items.iter().any(|i| matches!(i, Item::Test(_)));
    let imports: Vec<Item> = pf.items.iter().filter(|i| matches!(i, Item::Star { .. } | Item::Import { .. } | Item::Plugins { .. })).cloned().collect();
    let o = GenOpts { in_class: false, alias: rng.chance(200), dup_names: rng.chance(300), class_override_per_mille: 350, ..GenOpts::default() };
    let fdir = super::ws::dir_of(file);
    let (orphan, orphan_mod) = if spec.file(&super::ws::join_rel(&fdir, "orph/orphan_fixtures.py")).is_some() {
        (super::ws::join_rel(&fdir, "orph/orphan_fixtures.py"), "orph.orphan_fixtures")
    } else {
        (super::ws::join_rel(&fdir, "orphan_fixtures.py"), "orphan_fixtures")
    };
    let site_orphan = format!("{}/thirdlib_orphan/fixtures.py", super::ws::SITE);
    if file == "conftest.py" && spec.file(&site_orphan).is_some() && !current.contains("thirdlib_orphan") && rng.chance(400) {
        // the edit declares an installed module (no entry point, the scan never reached it) as a plugin and uses one of
        // its fixtures in a body without declaring it: a finding of this very version
        let mut all = vec![Item::Plugins { modules: vec!["thirdlib_orphan.fixtures".into()], targets: vec![Some(site_orphan.clone())] }];
        all.extend(pf.items.iter().filter(|i| !matches!(i, Item::Plugins { .. })).cloned());
        all.push(Item::Fixture(super::pytext::Fx { func: "uses_lib_orphan".into(), body_uses: vec!["lib_orphan_fx".into()], ..Default::default() }));
        return render(&all).text;
    }
    let pick = if file.ends_with("conftest.py") && spec.file(&orphan).is_some() && !current.contains("orphan_fixtures") && rng.chance(300) { 7 } else { rng.below(12) };
    match pick {
        0 => current.to_string(),                 // identical resend
        1 | 2 => break_syntax(rng, current),      // break syntax
        3 => last_valid.to_string(),              // repair
        4 => rng.pick(&["import pytest\n", "", "# everything commented out\n# def test_x(alpha): pass\n", "\n\n", "import pytest\n"]).to_string(), // removes every definition and usage
        5 => {
            // removal-only: keep tests, drop fixtures
            let items: Vec<Item> = gen_items(rng, names, is_test, &o).into_iter().filter(|i| !matches!(i, Item::Fixture(_))).collect();
            let mut all = if rng.chance(700) { imports.clone() } else { vec![] };
            all.extend(items);
            render(&all).text
        }
        7 if file.ends_with("conftest.py") && spec.file(&orphan).is_some() => {
            // the edit starts importing a module nobody imported so far (the scan never analysed it)
            let mut all = vec![Item::Star { module: if rng.chance(500) { format!(".{}", orphan_mod) } else { orphan_mod.to_string() }, target: Some(orphan.clone()) }];
            all.extend(pf.items.iter().cloned());
            // ... and uses one of its fixtures in a body without declaring it (a finding of THIS version of the document)
            if let Some(n) = spec.file(&orphan).and_then(|of| of.items.iter().find_map(|i| if let Item::Fixture(fx) = i { Some(fx.name().to_string()) } else { None })) {
                if rng.chance(600) {
                    all.push(Item::Fixture(super::pytext::Fx { func: "uses_imported".into(), body_uses: vec![n], ..Default::default() }));
                }
            }
            render(&all).text
        }
        6 if !imports.is_empty() || prop == "C07" => {
            // imports-only change: same body, imports toggled
            let body: Vec<Item> = pf.items.iter().filter(|i| !matches!(i, Item::Star { .. } | Item::Import { .. } | Item::Plugins { .. })).cloned().collect();
            let mut all = if current.contains("import *") || current.contains("pytest_plugins") || current.contains("from .") { vec![] } else { imports.clone() };
            all.extend(body);
            render(&all).text
        }
        _ => {
            let mut all = if rng.chance(800) { imports.clone() } else { vec![] };
            all.extend(gen_items(rng, names, is_test, &o));
            render(&all).text
        }
    }
}

impl Scenario for History {
    fn name(&self) -> &'static str {
        match self.prop {
            "C04" => "refs-history",
            "C06" => "history",
            "C06L" => "history-lsp",
            _ => "cache-history",
        }
    }
    fn rule(&self) -> &'static str {
        match self.prop {
            "C04" => "edit histories (4-12 full-text versions incl. syntax break/repair, removal-only, identical resend) over a generated 2-6 file workspace; after EVERY prefix all (definition, usage) pairs are checked for references <=> go-to-definition and usage_by_fixture mirroring usages; non-trivial = >= 2 steps touched the same file; distinct = (spec, ops) hash",
            "C06L" => "the same edit histories sent as didOpen/didChange through the full LSP stack (real Backend handlers, real scan at initialize); after every notification, at quiescence, the server's index is compared with the fresh twin (maps, answers, undeclared findings of the document changed last); non-trivial = >= 2 steps touched the same file; distinct = (spec, ops) hash",
            "C06" => "edit histories over a generated workspace; after EVERY prefix the long-lived index is compared with a fresh twin built from the latest valid content of each file (maps as multisets + normalised answer snapshot; undeclared findings for the document changed last); non-trivial = >= 2 steps touched the same file; distinct = (spec, ops) hash",
            _ => "histories interleaving analyses with cache-filling queries, open/close of unmodified documents and cache pressure (2001 filler files); at each checkpoint warm answers are compared with a cold twin that received the same analyses but no queries/closes/fillers; non-trivial = a query preceded a later analysis, or a close/eviction happened; distinct = (spec, ops) hash",
        }
    }
    fn runs(&self, tier: Tier) -> u64 {
        match (self.prop, tier) {
            ("C07", Tier::Quick) => 3_000,
            ("C07", Tier::Thorough) => 100_000,
            ("C06L", Tier::Quick) => 1_200,
            ("C06L", Tier::Thorough) => 40_000,
            (_, Tier::Quick) => 4_000,
            (_, Tier::Thorough) => 150_000,
        }
    }
    fn shrink_paths(&self) -> Vec<&'static str> {
        vec!["/ops", "/spec/files/*/items"]
    }

    fn gen(&self, run_seed: u64, tier: Tier) -> Value {
        let mut rng = Rng::new(run_seed);
        let imports = match self.prop {
            "C07" => rng.chance(700),
            _ => rng.chance(350),
        };
        let mut scan_first = false;
        let mut spec = if self.prop == "C07" && rng.chance(160) {
            if rng.chance(600) { super::ws::ring_ws(&mut rng) } else { super::ws::diamond_ws(&mut rng) }
        } else if self.prop == "C07" && rng.chance(250) {
            // a workspace with a venv (third-party plugin, in-workspace editable plugin): built by the real scan
            scan_first = true;
            let mut o = WsOpts::default();
            o.max_dirs = 2;
            o.n_names = 3;
            o.venv = true;
            o.file.in_class = false;
            gen_ws(&mut rng, &o)
        } else {
            small_ws(&mut rng, imports)
        };
        let names = names_pool(4);
        if self.prop == "C06L" && rng.chance(250) {
            // an installed library module with a fixture, not registered through any entry point
            spec.files.push(super::pytext::PyFile { rel: format!("{}/thirdlib_orphan/fixtures.py", super::ws::SITE), items: vec![Item::Fixture(super::pytext::Fx { func: "lib_orphan_fx".into(), ..Default::default() })] });
            spec.files.push(super::pytext::PyFile { rel: format!("{}/thirdlib_orphan/__init__.py", super::ws::SITE), items: vec![] });
            if spec.file("conftest.py").is_none() {
                spec.files.push(super::pytext::PyFile { rel: "conftest.py".into(), items: vec![] });
            }
        }
        // (the module nobody imports is never edited directly: whether the index holds its on-disk version then depends on
        // whether an import was followed before or after the editor opened it - the statement has no answer for that)
        let files: Vec<String> = spec.files.iter().filter(|f| f.rel.ends_with(".py") && !f.rel.ends_with("__init__.py") && !f.rel.ends_with("orphan_fixtures.py") && !f.rel.ends_with("deep_orphan.py") && !f.rel.starts_with(".venv")).map(|f| f.rel.clone()).collect();
        let mut cur: BTreeMap<String, String> = spec.files.iter().map(|f| (f.rel.clone(), render(&f.items).text)).collect();
        let disk = cur.clone();
        let mut last_valid = cur.clone();
        let mut ops = vec![];
        let steps = if tier == Tier::Quick { rng.range(3, 10) } else { rng.range(4, 16) };
        let mut filled = false;
        for _ in 0..steps {
            if files.is_empty() {
                break;
            }
            let f = rng.pick(&files).clone();
            if self.prop == "C07" {
                match rng.below(10) {
                    0 | 1 => {
                        ops.push(HOp::Query);
                        continue;
                    }
                    2 => {
                        let mut fs = files.clone();
                        rng.shuffle(&mut fs);
                        fs.truncate(rng.range(1, fs.len()));
                        ops.push(HOp::Probe { files: fs });
                        continue;
                    }
                    3 => {
                        ops.push(HOp::OpenClose { file: f.clone() });
                        if rng.chance(500) {
                            // the editor re-opens the document it just closed
                            ops.push(HOp::Analyze { file: f.clone(), text: cur[&f].clone() });
                        }
                        continue;
                    }
                    4 => {
                        ops.push(HOp::Close { file: f });
                        continue;
                    }
                    5 if !filled && rng.chance(120) => {
                        filled = true;
                        ops.push(HOp::Fill { n: 2001 });
                        continue;
                    }
                    _ => {}
                }
            }
            let t = next_version(&mut rng, &spec, &f, &cur[&f], &last_valid[&f], &names, if self.prop == "C06L" { "C06" } else { self.prop });
            if parses(&t) {
                last_valid.insert(f.clone(), t.clone());
            }
            cur.insert(f.clone(), t.clone());
            ops.push(HOp::Analyze { file: f, text: t });
        }
        if self.prop == "C06L" && rng.chance(400) {
            // the module nobody imports yet is open in the editor, half typed (its buffer does not parse, so nothing is indexed
            // for it): when an edit starts importing it, its last valid version - the file on disk - is indexed, and the module
            // that one imports in turn has to be reached through the last valid version as well
            if let Some(orph) = spec.files.iter().find(|f| f.rel.ends_with("orph/orphan_fixtures.py")) {
                let text = break_syntax(&mut rng, &render(&orph.items).text);
                ops.insert(0, HOp::Analyze { file: orph.rel.clone(), text });
            }
        }
        if self.prop == "C07" {
            // the user looks into a library module of the virtualenv (go-to-definition into site-packages) and closes it again
            if let Some(lib) = spec.files.iter().find(|f| f.rel.contains("/otherlib/testing_helpers.py")) {
                if rng.chance(600) {
                    let at = rng.below(ops.len() + 1);
                    ops.insert(at, HOp::OpenClose { file: lib.rel.clone() });
                }
            }
            // a conftest that does not parse ON DISK, repaired in the editor, queried, then closed without saving
            if !scan_first && rng.chance(120) {
                if let Some(cf) = spec.files.iter().find(|f| f.rel.ends_with("conftest.py") && f.items.iter().any(|i| matches!(i, Item::Star { .. } | Item::Import { .. } | Item::Plugins { .. }))).map(|f| f.rel.clone()) {
                    spec.extra.push((cf.clone(), "import pytest\nfrom broken_on_disk import (\n".to_string()));
                    ops.retain(|o| !matches!(o, HOp::OpenClose { file } | HOp::Close { file } if *file == cf));
                    ops.push(HOp::Analyze { file: cf.clone(), text: render(&spec.file(&cf).unwrap().items).text });
                    ops.push(HOp::Query);
                    ops.push(HOp::CloseUnsaved { file: cf });
                }
            }
            // a conftest stored in ISO-8859-1 (legal with a coding cookie): looked at in the editor, closed again unmodified
            if !scan_first && !spec.extra.iter().any(|(f, _)| f.ends_with(".py")) && rng.chance(100) {
                if let Some(cf) = spec.files.iter().find(|f| f.rel.ends_with("conftest.py") && f.items.iter().any(|i| matches!(i, Item::Star { .. } | Item::Import { .. } | Item::Plugins { .. }))).map(|f| f.rel.clone()) {
                    let text = format!("# -*- coding: latin-1 -*-\n# Auteur: Andr\u{e9}\n{}", render(&spec.file(&cf).unwrap().items).text);
                    spec.extra.push((cf.clone(), format!("@latin1:{}", text)));
                    ops.retain(|o| !matches!(o, HOp::Analyze { file, .. } | HOp::OpenClose { file } | HOp::Close { file } | HOp::CloseUnsaved { file } if *file == cf));
                    ops.push(HOp::Query);
                    ops.push(HOp::Close { file: cf.clone() });
                    if rng.chance(500) {
                        // ... and re-opened, half typed, before anything asked about it again: its last valid version is
                        // then the file on disk, and nothing has parsed that since the close
                        ops.pop();
                        ops.pop();
                        ops.push(HOp::Close { file: cf.clone() });
                        ops.push(HOp::Analyze { file: cf, text: break_syntax(&mut rng, &text) });
                    }
                }
            }
            ops.push(HOp::Query);
        }
        let _ = disk;
        let mut sim = SimParams { strategy: "random".into(), param: 0, workers: 1, ..SimParams::gen(&mut rng, 1000) };
        // cache-pressure runs perform > 2000 analyses: the step budget is a liveness bound for the
        // code under test, not for the workload size
        sim.max_steps = if filled { 4_000_000_000 } else { 50_000_000 };
        serde_json::to_value(HistoryInput { spec, ops, sim, scan_first, run_seed, sandbox: None }).unwrap()
    }

    fn exec(&self, input: &Value) -> RunOut {
        let mut out = RunOut::default();
        let inp: HistoryInput = match serde_json::from_value(input.clone()) {
            Ok(i) => i,
            Err(e) => {
                out.harness_error = Some(format!("bad input: {}", e));
                return out;
            }
        };
        let sb = Sandbox::acquire(self.prop, inp.run_seed, inp.sandbox.as_deref().map(Path::new));
        let root = inp.spec.materialise(&sb.root());
        let prop = self.prop;
        let spec = inp.spec.clone();
        let ops = inp.ops.clone();
        let scan_first = inp.scan_first;
        let (oc, res) = simrt::run(inp.sim.cfg(replay_list(input, 0)), move || if prop == "C06L" { run_history_lsp(&spec, &ops, &root) } else { run_history(prop, &spec, &ops, &root, scan_first) });
        out.absorb_outcome(&oc);
        out.fingerprint = fnv(&serde_json::to_string(&(&inp.spec, &inp.ops)).unwrap());
        if let Some(a) = &oc.abort {
            abort_to_violation(&mut out, a, "edit history");
            return out;
        }
        let Some(res) = res else {
            out.harness_error = Some("no result".into());
            return out;
        };
        out.nontrivial = res.nontrivial;
        out.state_hash = res.state_hash;
        for (k, v) in res.counters {
            out.count(&k, v);
        }
        for (c, d) in res.violations {
            out.violate(&c, d);
        }
        out
    }
}

#[derive(Default)]
struct HRes {
    violations: Vec<(String, String)>,
    nontrivial: bool,
    state_hash: u64,
    counters: BTreeMap<String, u64>,
}

impl HRes {
    fn count(&mut self, k: &str) {
        *self.counters.entry(k.to_string()).or_insert(0) += 1;
    }
    fn violate(&mut self, class: &str, detail: String) {
        if !self.violations.iter().any(|(c, _)| c == class) {
            self.violations.push((class.to_string(), detail));
        }
    }
}

fn initial_order(spec: &WsSpec) -> Vec<(String, String)> {
    spec.files.iter().filter(|f| !f.rel.ends_with("__init__.py") || !f.items.is_empty()).map(|f| (f.rel.clone(), render(&f.items).text)).collect()
}

/// C06 through the full stack: the history is sent as didOpen/didChange notifications.
fn run_history_lsp(spec: &WsSpec, ops: &[HOp], root: &Path) -> HRes {
    let mut res = HRes::default();
    let _ = spec;
    let mut srv = super::lspdrv::LspServer::start(root);
    let id = srv.initialize();
    if srv.await_response(id, 300).is_none() {
        res.violate("history-server-failure", format!("no response to initialize: {:?}", srv.server_panic));
        return res;
    }
    srv.notify("initialized", serde_json::json!({}));
    srv.steps(3);
    srv.join_scan();
    if !srv.settle(3, 3000) || !srv.scan_complete_seen() {
        res.violate("history-server-failure", format!("scan did not complete: {:?} {:?}", srv.server_panic, srv.log_messages));
        return res;
    }
    let live = srv.db.clone();
    let mut log: Vec<(String, String)> = vec![];
    for p in super::dbsnap::files_in_cache(&live) {
        if let Some(t) = live.file_cache.get(&p) {
            log.push((rel(root, &p), t.value().as_ref().clone()));
        }
    }
    let scan_len = log.len();
    let mut opened: std::collections::BTreeSet<String> = Default::default();
    let mut touched: BTreeMap<String, usize> = BTreeMap::new();
    let mut version = 1;
    for (step, op) in ops.iter().enumerate() {
        let HOp::Analyze { file, text } = op else { continue };
        version += 1;
        if opened.insert(file.clone()) {
            srv.did_open(file, text, version);
        } else {
            srv.did_change(file, text, version);
        }
        if !srv.settle(3, 4000) {
            res.violate("history-server-failure", format!("server not quiescent after step {}: {:?}", step, srv.server_panic));
            return res;
        }
        log.push((file.clone(), text.clone()));
        *touched.entry(file.clone()).or_insert(0) += 1;
        if touched.values().any(|n| *n >= 2) {
            res.nontrivial = true;
        }
        if !parses(text) {
            res.count("probe.parse_failure_kept_old_data");
        }
        check_fresh_twin(&mut res, &live, &log, root, step, scan_len);
        if !res.violations.is_empty() {
            break;
        }
    }
    res.state_hash = map_snap(&live, root).hash();
    // crash + restart: the index is volatile, the durable state is the files on disk plus the buffers
    // the client re-opens.  With every open buffer parsable, the restarted server must answer like the
    // one that lived through the history.
    let mut latest: BTreeMap<String, String> = BTreeMap::new();
    for (f, t) in log.iter().skip(scan_len) {
        latest.insert(f.clone(), t.clone());
    }
    if res.violations.is_empty() && !latest.is_empty() && latest.values().all(|t| parses(t)) {
        // in half of the histories the editor saved every buffer before the crash: the restarted server then finds
        // the latest contents on disk (and follows imports the edits introduced)
        let saved = super::util::fnv(&serde_json::to_string(&latest).unwrap_or_default()) % 2 == 0;
        if saved {
            for (f, t) in &latest {
                let _ = std::fs::write(root.join(f), t);
            }
            res.count("fault.buffers_saved_before_crash");
        }
        let before = map_snap(&live, root);
        let files = super::dbsnap::files_in_cache(&live);
        let sa = super::observe::snapshot_files(&live, root, &files, false, false);
        drop(srv);
        let mut srv2 = super::lspdrv::LspServer::start(root);
        let id = srv2.initialize();
        let ok = srv2.await_response(id, 300).is_some();
        srv2.notify("initialized", serde_json::json!({}));
        srv2.steps(3);
        srv2.join_scan();
        if !ok || !srv2.settle(3, 3000) || !srv2.scan_complete_seen() {
            res.violate("history-server-failure", format!("restarted server did not come up: {:?}", srv2.server_panic));
            return res;
        }
        let mut v = 1;
        for (f, t) in &latest {
            v += 1;
            srv2.did_open(f, t, v);
        }
        if !srv2.settle(3, 6000) {
            res.violate("history-server-failure", format!("restarted server not quiescent: {:?}", srv2.server_panic));
            return res;
        }
        res.count("fault.crash_restart_with_buffers_reopened");
        let after = map_snap(&srv2.db, root);
        if let Some(d) = before.diff(&after, false) {
            // modules that only one of the two servers has indexed at all (reached through an import that an edit added / removed)
            let files_before: BTreeSet<String> = live.file_cache.iter().map(|e| rel(root, e.key())).chain(live.file_definitions.iter().map(|e| rel(root, e.key()))).collect();
            let files_after: BTreeSet<String> = srv2.db.file_cache.iter().map(|e| rel(root, e.key())).chain(srv2.db.file_definitions.iter().map(|e| rel(root, e.key()))).collect();
            let gone: Vec<&String> = files_before.difference(&files_after).collect();
            let new: Vec<&String> = files_after.difference(&files_before).collect();
            let (l, r) = before.only(&after);
            let all_about = |lines: &Vec<String>, files: &Vec<&String>| !lines.is_empty() && lines.iter().all(|x| files.iter().any(|f| x.contains(f.as_str())));
            let class = if saved && r.is_empty() && all_about(&l, &gone) {
                "RC-UNIMPORTED-MODULE-KEPT"
            } else if saved && l.is_empty() && all_about(&r, &new) {
                "RC-NEW-IMPORT-NOT-FOLLOWED"
            } else {
                "restart-changes-index"
            };
            res.violate(class, format!("after crash + restart with the same buffers re-opened (saved: {}) the index differs: {}", saved, d));
        } else {
            let sb = super::observe::snapshot_files(&srv2.db, root, &files, false, false);
            if let Some((k, x, y)) = sa.first_diff(&sb) {
                res.violate("restart-changes-answers", format!("after crash + restart `{}` answers {:?}, before the crash {:?}", k, y, x));
            }
        }
    }
    res
}

fn run_history(prop: &str, spec: &WsSpec, ops: &[HOp], root: &Path, scan_first: bool) -> HRes {
    let mut res = HRes::default();
    let live = Arc::new(FixtureDatabase::new());
    // the analyses performed so far, in order: (file, text)
    let mut log: Vec<(String, String)> = vec![];
    let mut disk: BTreeMap<String, String> = spec.files.iter().map(|f| (f.rel.clone(), render(&f.items).text)).collect();
    // files whose on-disk text was overwritten by the generator (e.g. made unparsable)
    for (f, t) in &spec.extra {
        if disk.contains_key(f) {
            // (`@latin1:` = stored in ISO-8859-1; the text is what an editor shows for it)
            disk.insert(f.clone(), t.strip_prefix("@latin1:").unwrap_or(t).to_string());
        }
    }
    let mut unsaved_close = false;
    let mut cur: BTreeMap<String, String> = BTreeMap::new();
    if scan_first {
        live.scan_workspace(root);
        for (f, t) in initial_order(spec) {
            cur.insert(f, t);
        }
        res.count("fault.index_built_by_real_scan_with_venv");
    } else {
        for (f, t) in initial_order(spec) {
            let t = disk.get(&f).cloned().unwrap_or(t);
            live.analyze_file(root.join(&f), &t);
            cur.insert(f.clone(), t.clone());
            log.push((f, t));
        }
    }
    let mut touched: BTreeMap<String, usize> = BTreeMap::new();
    let mut queried_before_analysis = false;
    let mut pending_query = false;
    let mut disturbed = false; // a close / eviction happened
    let mut reopened: BTreeSet<String> = BTreeSet::new(); // documents opened (and closed) without modification
    for (step, op) in ops.iter().enumerate() {
        match op {
            HOp::Analyze { file, text } => {
                if pending_query {
                    queried_before_analysis = true;
                }
                // what did_open does: the document is open in the editor from now on
                live.document_opened(&root.join(file));
                live.analyze_file(root.join(file), text);
                cur.insert(file.clone(), text.clone());
                log.push((file.clone(), text.clone()));
                *touched.entry(file.clone()).or_insert(0) += 1;
                if !parses(text) {
                    res.count("probe.parse_failure_kept_old_data");
                }
                if text.trim() == "import pytest" {
                    res.count("probe.edit_removes_every_definition");
                }
            }
            HOp::Query => {
                let _ = snapshot_opts(&live, root, false, true);
                pending_query = true;
                res.count("fault.cache_filling_query");
            }
            HOp::Probe { files } => {
                for f in files {
                    let _ = live.get_available_fixtures(&root.join(f));
                }
                pending_query = true;
                res.count("fault.cache_filling_probe_in_generated_order");
            }
            HOp::OpenClose { file } => {
                let Some(d) = disk.get(file) else { continue };
                if cur.get(file) != Some(d) {
                    continue; // only *unmodified* documents
                }
                // (not logged: the cold twin is the server in which this document was never opened)
                reopened.insert(file.clone());
                live.document_opened(&root.join(file));
                live.analyze_file(root.join(file), d);
                live.cleanup_file_cache(&root.join(file));
                live.document_closed(&root.join(file));
                disturbed = true;
                res.count("fault.open_close_unmodified");
            }
            HOp::Close { file } => {
                let Some(d) = disk.get(file) else { continue };
                if cur.get(file) != Some(d) {
                    continue;
                }
                live.cleanup_file_cache(&root.join(file));
                live.document_closed(&root.join(file));
                disturbed = true;
                res.count("fault.close_unmodified");
            }
            HOp::CloseUnsaved { file } => {
                live.cleanup_file_cache(&root.join(file));
                live.document_closed(&root.join(file));
                unsaved_close = true;
                res.count("fault.close_with_unsaved_changes");
            }
            HOp::Fill { n } => {
                // (documents the history edited are open in the editor: their buffers may differ from the files on disk)
                if cur.iter().any(|(f, t)| disk.get(f) != Some(t)) {
                    res.count("fault.cache_pressure_with_unsaved_open_documents");
                }
                for i in 0..*n {
                    live.analyze_file(root.join(format!("zz_fill/filler_{}.py", i)), "x = 1\n");
                }
                disturbed = true;
                res.count("fault.cache_pressure_2001_fillers");
                if live.file_cache.len() < *n {
                    res.count("probe.eviction_happened");
                }
            }
        }
        if touched.values().any(|n| *n >= 2) {
            res.nontrivial = true;
        }
        match prop {
            "C06" => {
                if matches!(op, HOp::Analyze { .. }) {
                    check_fresh_twin(&mut res, &live, &log, root, step, 0);
                }
            }
            "C04" => {
                if matches!(op, HOp::Analyze { .. }) {
                    check_refs_relation(&mut res, &live, &cur, root, step);
                }
            }
            _ => {
                if matches!(op, HOp::Query) || step + 1 == ops.len() {
                    if queried_before_analysis || disturbed {
                        res.nontrivial = true;
                    }
                    if !unsaved_close {
                        check_cold_twin(&mut res, &live, &log, root, step, spec, scan_first, &reopened);
                    }
                    if step + 1 == ops.len() {
                        check_cache_transparency(&mut res, &live, root, step);
                    }
                }
            }
        }
        if !res.violations.is_empty() && prop != "C07" {
            break;
        }
    }
    res.state_hash = map_snap(&live, root).hash();
    res
}

/// C06: fresh twin from the latest valid content of each file, in the order of each file's last
/// successful analysis.
fn check_fresh_twin(res: &mut HRes, live: &Arc<FixtureDatabase>, log: &[(String, String)], root: &Path, step: usize, scan_len: usize) {
    let mut last_valid: BTreeMap<String, (usize, String)> = BTreeMap::new();
    for (i, (f, t)) in log.iter().enumerate() {
        if parses(t) {
            last_valid.insert(f.clone(), (i, t.clone()));
        }
    }
    let mut order: Vec<(usize, String, String)> = last_valid.into_iter().map(|(f, (i, t))| (i, f, t)).collect();
    order.sort();
    let twin = Arc::new(FixtureDatabase::new());
    if scan_len > 0 {
        // the long-lived server started with a scan of the files on disk: so does the fresh one (it learns where
        // site-packages is, which plugins exist, ...); the analyses below then replace what the history changed
        twin.scan_workspace(root);
    }
    for (_, f, t) in &order {
        twin.analyze_file(root.join(f), t);
    }
    let a = map_snap(live, root);
    let b = map_snap(&twin, root);
    if let Some(c) = a.consistency() {
        res.violate("history-index-inconsistent", format!("after step {}: {}", step, c));
    }
    if let Some(d) = a.diff(&b, false) {
        // records of modules that only the long-lived index still holds: reached through an import that a later
        // edit removed, never analysed directly by the history
        let files_live: BTreeSet<String> = live.file_cache.iter().map(|e| rel(root, e.key())).chain(live.file_definitions.iter().map(|e| rel(root, e.key()))).collect();
        let files_twin: BTreeSet<String> = twin.file_cache.iter().map(|e| rel(root, e.key())).chain(twin.file_definitions.iter().map(|e| rel(root, e.key()))).collect();
        let gone: Vec<&String> = files_live.difference(&files_twin).filter(|f| !log.iter().skip(scan_len).any(|(lf, _)| lf == *f)).collect();
        let (l, r) = a.only(&b);
        let class = if r.is_empty() && !l.is_empty() && l.iter().all(|x| gone.iter().any(|f| x.contains(f.as_str()))) { "RC-UNIMPORTED-MODULE-KEPT" } else { "history-maps-differ" };
        res.violate(class, format!("after step {} the index differs from a fresh index built from the latest valid contents: {}", step, d));
        return;
    }
    // undeclared findings of the document changed last (only when that last change was valid)
    // (`scan_len` leading log entries stand for the initial scan, whose per-file order is not the log's:
    // a document whose last successful analysis is the scan itself was analysed at an unknown instant)
    if let Some((idx, lastf, _)) = order.last() {
        if log.last().map(|(f, _)| f) == Some(lastf) && *idx >= scan_len {
            let p = root.join(lastf);
            // "obtained by analyzing it last on that fresh server": once the fresh index is complete (modules the
            // document imports included), the document is analysed (again) and its findings are read
            if let Some((_, _, t)) = order.last() {
                twin.analyze_file(p.clone(), t);
            }
            let ua: Vec<String> = live.get_undeclared_fixtures(&p).iter().map(|u| format!("{}@{}:{}", u.name, u.line, u.start_char)).collect();
            let ub: Vec<String> = twin.get_undeclared_fixtures(&p).iter().map(|u| format!("{}@{}:{}", u.name, u.line, u.start_char)).collect();
            if ua != ub {
                res.violate("history-undeclared-differ", format!("after step {}: undeclared findings of {} are {:?}, fresh index says {:?}", step, lastf, ua, ub));
            }
        }
    }
    // answers; position queries inside currently unparsable documents are excluded
    let unparsable: Vec<PathBuf> = {
        let mut latest: BTreeMap<&String, &String> = BTreeMap::new();
        for (f, t) in log {
            latest.insert(f, t);
        }
        latest.into_iter().filter(|(_, t)| !parses(t)).map(|(f, _)| root.join(f)).collect()
    };
    // per-file queries for the documents the fresh index knows (a document that never had a valid
    // version is cached by the long-lived server only)
    let files = super::dbsnap::files_in_cache(&twin);
    let sa = filtered_snapshot(live, root, &unparsable, &files);
    let sb = filtered_snapshot(&twin, root, &unparsable, &files);
    // names that currently-unparsable files provided through imports in their last valid version
    let mut dropped_imports: std::collections::BTreeSet<String> = Default::default();
    for p in &unparsable {
        let mut visited = std::collections::HashSet::new();
        dropped_imports.extend(twin.get_imported_fixtures(p, &mut visited));
    }
    for (key, x, y) in sa.all_diffs(&sb) {
        let mentions_dropped = dropped_imports.iter().any(|n| x.contains(n.as_str()) || y.contains(n.as_str()) || key.contains(n.as_str()));
        let class = if mentions_dropped {
            "RC-UNPARSABLE-DROPS-IMPORTS"
        } else if key.starts_with("available ") || key.starts_with("cycles ") {
            "history-cached-answer-stale"
        } else {
            "history-answer-differs"
        };
        res.violate(class, format!("after step {}: `{}` answers {:?}, a fresh index answers {:?}", step, key, x, y));
    }
}

fn filtered_snapshot(db: &Arc<FixtureDatabase>, root: &Path, unparsable: &[PathBuf], files: &[PathBuf]) -> Snapshot {
    let mut s = super::observe::snapshot_files(db, root, files, false, false);
    let bad: Vec<String> = unparsable.iter().map(|p| rel(root, p)).collect();
    s.entries.retain(|k, _| !(k.starts_with("goto ") && bad.iter().any(|b| k[5..].starts_with(&format!("{}:", b)))));
    // the file-content cache of the twin holds the last valid text while the live one holds the
    // unparsable text: entries keyed by those files are position queries too
    s.entries.retain(|k, _| !bad.iter().any(|b| k == &format!("available {}", b) && false));
    s
}

/// C04 over a history: references ⇔ go-to-definition for all pairs of the current index.
fn check_refs_relation(res: &mut HRes, live: &Arc<FixtureDatabase>, cur: &BTreeMap<String, String>, root: &Path, step: usize) {
    let a = map_snap(live, root);
    if let Some(c) = a.consistency() {
        res.violate("reverse-index-out-of-sync", format!("after step {}: {}", step, c));
    }
    let defs = all_defs(live);
    let usages = all_usages(live);
    let mut listed: BTreeMap<(PathBuf, usize, usize), Vec<String>> = BTreeMap::new();
    for d in &defs {
        let refs = live.find_references_for_definition(d);
        let mut seen = std::collections::BTreeSet::new();
        for r in &refs {
            if !seen.insert((r.file_path.clone(), r.line, r.start_char)) {
                res.violate("reference-listed-twice", format!("after step {}: {:?}:{}:{} twice under {}", step, r.file_path, r.line, r.start_char, super::dbsnap::def_key(root, d)));
            }
            listed.entry((r.file_path.clone(), r.line, r.start_char)).or_default().push(super::dbsnap::def_key(root, d));
        }
    }
    for u in &usages {
        let relf = rel(root, &u.file_path);
        if cur.get(&relf).map(|t| !parses(t)).unwrap_or(false) {
            continue; // recorded spans no longer denote tokens of the cached text
        }
        let g = live.find_fixture_definition(&u.file_path, (u.line - 1) as u32, u.start_char as u32);
        let l = listed.get(&(u.file_path.clone(), u.line, u.start_char)).cloned().unwrap_or_default();
        *res.counters.entry("pairs".into()).or_insert(0) += defs.len() as u64;
        match g {
            None => {
                if !l.is_empty() {
                    res.violate("unresolved-usage-listed", format!("after step {}: usage {} at {}:{} resolves to nothing but is listed under {:?}", step, u.name, relf, u.line, l));
                }
            }
            Some(g) => {
                let gk = super::dbsnap::def_key(root, &g);
                if !l.contains(&gk) {
                    res.violate("reference-missing", format!("after step {}: usage {} at {}:{} lands on {} but is listed under {:?}", step, u.name, relf, u.line, gk, l));
                }
                if l.iter().any(|x| *x != gk) {
                    res.violate("reference-extra", format!("after step {}: usage {} at {}:{} lands on {} but is listed under {:?}", step, u.name, relf, u.line, gk, l));
                }
            }
        }
    }
}

/// C07: cold twin = the same analyses (same order, same texts) with no queries, closes, fillers.
/// "Warm caches answer like cold caches", literally: drop every derived cache entry of the long-lived index (per-file views,
/// import sets, cycles, line tables, and the parsed ASTs of documents that are not open) and ask everything again.
fn check_cache_transparency(res: &mut HRes, live: &Arc<FixtureDatabase>, root: &Path, step: usize) {
    let files: Vec<PathBuf> = live.file_definitions.iter().map(|e| e.key().clone()).chain(live.file_cache.iter().map(|e| e.key().clone())).collect::<BTreeSet<_>>().into_iter().filter(|p| !rel(root, p).contains("zz_fill/")).collect();
    let before = super::observe::snapshot_files(live, root, &files, false, false);
    live.available_fixtures_cache.clear();
    live.imported_fixtures_cache.clear();
    live.cycle_cache.clear();
    live.line_index_cache.clear();
    // (the AST kept for an OPEN document that does not parse is state, not a cache: it stands for its last valid version)
    let drop_ast: Vec<PathBuf> = live.ast_cache.iter().map(|e| e.key().clone()).filter(|p| !live.open_documents.contains_key(p)).collect();
    for p in drop_ast {
        live.ast_cache.remove(&p);
    }
    let after = super::observe::snapshot_files(live, root, &files, false, false);
    for (key, x, y) in before.all_diffs(&after) {
        res.violate("answer-depends-on-a-cache-entry", format!("at step {}: `{}` answers {:?} with the caches as they are and {:?} once every derived cache entry is dropped", step, key, x, y));
    }
    res.count("probe.cache_transparency_checked");
}

fn check_cold_twin(res: &mut HRes, live: &Arc<FixtureDatabase>, log: &[(String, String)], root: &Path, step: usize, spec: &WsSpec, scan_first: bool, reopened: &BTreeSet<String>) {
    let cold = Arc::new(FixtureDatabase::new());
    if scan_first {
        cold.scan_workspace(root);
    }
    for (f, t) in log {
        cold.analyze_file(root.join(f), t);
    }
    let files = super::dbsnap::files_in_cache(&cold);
    // undeclared-fixture findings reflect the instant of a file's analysis; the two scans (live and cold) analyse
    // in orders of their own, so after a real scan they are compared only for documents analysed by the history
    let mut sa = super::observe::snapshot_files(live, root, &files, false, !scan_first);
    let mut sb = super::observe::snapshot_files(&cold, root, &files, false, !scan_first);
    if scan_first {
        let analysed: BTreeSet<&String> = log.iter().map(|(f, _)| f).collect();
        for f in analysed {
            let p = root.join(f);
            let fmt = |db: &Arc<FixtureDatabase>| {
                let mut un: Vec<String> = db.get_undeclared_fixtures(&p).iter().map(|u| format!("{}@{}:{}", u.name, u.line, u.start_char)).collect();
                un.sort();
                un.join(" ")
            };
            sa.entries.insert(format!("undeclared {}", f), fmt(live));
            sb.entries.insert(format!("undeclared {}", f), fmt(&cold));
        }
    }
    let has_import_cycle = {
        let m = super::model::Model::new(spec);
        spec.files.iter().any(|f| {
            let mut stack = vec![f.rel.clone()];
            let mut seen = std::collections::BTreeSet::new();
            let mut cyc = false;
            while let Some(x) = stack.pop() {
                for t in m.spec.file(&x).map(|pf| pf.items.iter().filter_map(|i| match i { Item::Star { target: Some(t), .. } => Some(t.clone()), _ => None }).collect::<Vec<_>>()).unwrap_or_default() {
                    if t == f.rel {
                        cyc = true;
                    }
                    if seen.insert(t.clone()) {
                        stack.push(t);
                    }
                }
            }
            cyc
        })
    };
    // which conftests lost their cache entry (close / eviction)?
    // documents the scan / the history never indexed and the editor merely looked at: their records exist in the long-lived
    // index only (workspace-level answers - the unused list, symbols - mention them; no per-document answer does)
    // (a later edit of such a document that does not parse leaves its text in the cold twin's cache, and still nothing in its index)
    let opened_only: Vec<&String> = reopened.iter().filter(|f| { let p = root.join(f.as_str()); !cold.file_definitions.contains_key(&p) && !cold.imports.contains_key(&p) && !cold.usages.contains_key(&p) }).collect();
    // the index itself (as multisets): queries, closes of unmodified documents and evictions do not add, drop or duplicate records
    {
        let strip = |m: MapSnapT| -> MapSnapT {
            let keep = |v: Vec<String>| -> Vec<String> { v.into_iter().filter(|l| !l.contains("zz_fill/") && !opened_only.iter().any(|f| l.contains(f.as_str()))).collect() };
            MapSnapT { definitions: keep(m.definitions), file_definitions: keep(m.file_definitions), usages: keep(m.usages), usage_by_fixture: keep(m.usage_by_fixture), imports: keep(m.imports), undeclared: vec![], empties: m.empties }
        };
        let (ml, mc) = (strip(map_snap(live, root)), strip(map_snap(&cold, root)));
        if let Some(d) = ml.diff(&mc, false) {
            let library_file_indexed = live.file_definitions.iter().any(|e| rel(root, e.key()).contains("/otherlib/"));
            let class = if library_file_indexed { "RC-OPENED-LIBRARY-FILE-LEAKS" } else { "warm-index-differs" };
            res.violate(class, format!("at step {}: the index differs from the cold twin's: {}", step, d));
        }
    }
    // call hierarchy (handler level): outgoing calls of a few project fixtures, with their call-site ranges
    {
        let (ll, lc) = (super::observe::Lsp::new(live.clone(), root), super::observe::Lsp::new(cold.clone(), root));
        let mut defs: Vec<_> = all_defs(&cold).into_iter().filter(|d| !d.is_third_party && !d.dependencies.is_empty()).collect();
        defs.sort_by(|a, b| (&a.file_path, a.line).cmp(&(&b.file_path, b.line)));
        for d in defs.iter().take(6) {
            let fr = rel(root, &d.file_path);
            let q = |l: &super::observe::Lsp| l.prepare(&fr, (d.line - 1) as u32, d.start_char as u32).and_then(|it| l.outgoing_with_ranges(&it));
            let (x, y) = (q(&ll), q(&lc));
            if x != y {
                let library_file_indexed = live.file_definitions.iter().any(|e| rel(root, e.key()).contains("/otherlib/"));
                res.violate(if library_file_indexed { "RC-OPENED-LIBRARY-FILE-LEAKS" } else { "warm-answer-differs" }, format!("at step {}: outgoing calls of {}@{}:{} warm={:?} cold={:?}", step, d.name, fr, d.line, x, y));
            }
        }
    }
    let uncached_conftest = spec.files.iter().any(|f| f.rel.ends_with("conftest.py") && !live.file_cache.contains_key(&root.join(&f.rel)));
    let last_analysis_recorded_no_definition = log.last().map(|(_, t)| !t.contains("@pytest.fixture") && !t.contains("pytest.fixture()(")).unwrap_or(false);
    for (key, x, y) in sa.all_diffs(&sb) {
        if y == "<absent>" && x.is_empty() {
            continue;
        }
        // undeclared-fixture findings reflect the instant of a document's last analysis; opening an unmodified document
        // analyses it again (they are not among the answers the statement lists)
        if let Some(f) = key.strip_prefix("undeclared ") {
            if reopened.contains(f) {
                continue;
            }
        }
        if key == "unused" && !opened_only.is_empty() {
            continue;
        }
        // ... and neither are answers asked *in* such a document (the cold twin knows it only if a later edit of it was
        // logged - one that does not parse, or it would be indexed there as well)
        if opened_only.iter().any(|f| key.split_whitespace().nth(1).is_some_and(|k| k == f.as_str() || k.starts_with(&format!("{}:", f)))) {
            continue;
        }
        // mechanism hints (the root causes of these names are repaired; a returning violation keeps the label)
        let library_file_indexed = live.file_definitions.iter().any(|e| rel(root, e.key()).contains("/otherlib/"));
        let class = if library_file_indexed {
            "RC-OPENED-LIBRARY-FILE-LEAKS"
        } else if (key.starts_with("available ") || key.starts_with("goto ") || key.starts_with("refs ") || key == "unused") && uncached_conftest {
            "warm-differs-after-close-or-eviction"
        } else if key.starts_with("available ") && has_import_cycle {
            "warm-differs-on-import-cycle"
        } else if key.starts_with("available ") || key.starts_with("cycles ") || key.starts_with("goto ") || key.starts_with("refs ") || key == "unused" {
            "warm-answer-stale"
        } else {
            "warm-answer-differs"
        };
        let _ = last_analysis_recorded_no_definition;
        res.violate(class, format!("at step {}: `{}` warm={:?} cold={:?}", step, key, x, y));
    }
}
