//! Batch driver: seeded runs on N driver threads, known-finding classification, minimisation,
//! replay files, evidence.

use super::util::{mix, now_s, prop_num};
use serde_json::{json, Value};
use std::collections::{BTreeMap, BTreeSet, HashSet};
use std::sync::atomic::{AtomicBool, AtomicU64, Ordering};
use std::sync::Mutex;

#[derive(Clone, Copy, PartialEq, Debug)]
pub enum Tier {
    Quick,
    Thorough,
}
impl Tier {
    pub fn as_str(&self) -> &'static str {
        match self {
            Tier::Quick => "quick",
            Tier::Thorough => "thorough",
        }
    }
}

#[derive(Clone, Debug)]
pub struct Violation {
    /// mechanism class (DESIGN.md §9); known findings are matched on (property, class)
    pub class: String,
    pub detail: String,
}

#[derive(Clone, Debug, Default)]
pub struct RunOut {
    pub violations: Vec<Violation>,
    /// true when the run exercised what the property is about (rule stated per scenario)
    pub nontrivial: bool,
    /// distinctness fingerprint (input hash, decision-list hash, fault-list hash)
    pub fingerprint: u64,
    pub steps: u64,
    pub switches: u64,
    pub log_hash: u64,
    pub virtual_ms: u64,
    /// fault kinds that actually fired, probes that were hit, other counters
    pub counters: BTreeMap<String, u64>,
    /// explicit schedule recorded by the run (stored into the replay file on violation)
    pub decisions: Vec<Vec<u32>>,
    pub harness_error: Option<String>,
    /// a digest of observable state, used by determinism re-checks
    pub state_hash: u64,
}

impl RunOut {
    pub fn count(&mut self, k: &str, n: u64) {
        *self.counters.entry(k.to_string()).or_insert(0) += n;
    }
    pub fn violate(&mut self, class: &str, detail: String) {
        if self.violations.len() < 8 {
            self.violations.push(Violation { class: class.to_string(), detail });
        }
    }
    pub fn absorb_outcome(&mut self, oc: &simrt::Outcome) {
        self.steps += oc.steps;
        self.switches += oc.switches;
        self.decisions.push(oc.decisions.clone());
        self.log_hash = mix(self.log_hash, oc.log_hash);
        self.count("threads_spawned", oc.threads as u64);
        self.count("lock_blocked_events", oc.blocked_events);
        self.count("probe.reader_admitted_past_waiting_writer", oc.readers_admitted_past_waiting_writer);
        self.count("lock_order_edges_observed", oc.lock_edges.len() as u64);
        let d = oc.max_held_depth as u64;
        let e = self.counters.entry("max_held_lock_depth".into()).or_insert(0);
        if d > *e {
            *e = d;
        }
    }
}

pub trait Scenario: Sync + Send {
    fn name(&self) -> &'static str;
    /// what makes a run non-trivial / distinct, for the evidence file
    fn rule(&self) -> &'static str;
    /// explicit input (replay format) for a run seed
    fn gen(&self, run_seed: u64, tier: Tier) -> Value;
    fn exec(&self, input: &Value) -> RunOut;
    /// JSON pointer paths of arrays that may be shrunk element-wise during minimisation
    fn shrink_paths(&self) -> Vec<&'static str> {
        vec![]
    }
    fn runs(&self, tier: Tier) -> u64;
}

#[derive(Clone, Debug)]
pub struct KnownFinding {
    pub property: String,
    pub class: String,
    pub what_fails: String,
}

pub fn verif_dir() -> std::path::PathBuf {
    std::env::var("PLSIM_VERIF_DIR").map(Into::into).unwrap_or_else(|_| "/verif".into())
}

pub fn load_known(prop: &str) -> Vec<KnownFinding> {
    let p = verif_dir().join("known_findings.json");
    let Ok(s) = std::fs::read_to_string(&p) else { return vec![] };
    let Ok(v) = serde_json::from_str::<Value>(&s) else {
        eprintln!("plsim: cannot parse {:?}", p);
        std::process::exit(2);
    };
    let mut out = vec![];
    if let Some(a) = v.get("findings").and_then(|a| a.as_array()) {
        for f in a {
            let property = f.get("property").and_then(|x| x.as_str()).unwrap_or("").to_string();
            if property != prop {
                continue;
            }
            out.push(KnownFinding {
                property,
                class: f.get("class").and_then(|x| x.as_str()).unwrap_or("").to_string(),
                what_fails: f.get("what_fails").and_then(|x| x.as_str()).unwrap_or("").to_string(),
            });
        }
    }
    out
}

pub struct CheckSpec {
    pub property: &'static str,
    pub scenarios: Vec<Box<dyn Scenario>>,
    pub assumptions: Vec<String>,
    pub real_components: Vec<&'static str>,
    pub stub_components: Vec<&'static str>,
}

pub const REAL_COMPONENTS: &[&str] = &[
    "all of /repo/src (analyzer, resolver, scanner, imports, cli, providers, config, LanguageServer impl, CLI handlers)",
    "rustpython-parser",
    "tower-lsp-server (router, state machine, Server::serve, codec)",
    "tokio runtime (current_thread, paused clock), timers, async locks",
    "dashmap 6.1.0 map logic (hashbrown tables, sharding, entry API, iterators)",
    "walkdir, glob, toml, serde_json, clap",
    "kernel tmpfs (real syscalls)",
];
pub const STUB_COMPONENTS: &[&str] = &[
    "dashmap raw lock -> simrt::RawRwLock (same admission rule), default hasher seeded, shard count from sim",
    "rayon par_iter().for_each -> simulated workers pulling PRNG-chosen items",
    "tokio::task::spawn_blocking -> simulated thread + oneshot",
    "std::sync::Mutex in fixtures/mod.rs -> simrt::sync::Mutex (build-time overlay)",
    "OS entropy (getrandom) -> seeded per simulated thread",
    "stdio -> in-memory pipes; LSP client -> simulator actor",
    "thread scheduling -> simrt baton scheduler",
];

fn master_seed() -> u64 {
    std::env::var("VERIF_SEED").ok().and_then(|s| s.trim().parse::<u64>().ok()).unwrap_or(20260926)
}

fn jobs() -> usize {
    std::env::var("PLSIM_JOBS")
        .ok()
        .and_then(|s| s.parse().ok())
        .unwrap_or_else(|| std::thread::available_parallelism().map(|n| n.get()).unwrap_or(8).min(16))
}

struct Agg {
    evaluations: u64,
    nontrivial: u64,
    fingerprints: HashSet<u64>,
    state_hashes: HashSet<u64>,
    schedules: HashSet<u64>,
    steps: u64,
    switches: u64,
    virtual_ms: u64,
    counters: BTreeMap<String, u64>,
    samples: Vec<Value>,
    known_hits: BTreeMap<String, (u64, String)>,
    known_free_runs: u64,
    rechecks: u64,
    violations: BTreeMap<(usize, u64), (u64, Value, Violation)>, // (scenario idx, run idx) -> (run_seed, input, violation)
    harness_errors: Vec<String>,
    per_scenario: BTreeMap<String, u64>,
}

fn run_seed_for(master: u64, prop: &str, scen_idx: usize, idx: u64) -> u64 {
    mix(mix(mix(master, prop_num(prop)), scen_idx as u64 + 1), idx)
}

/// Run all scenarios of a check; returns the process exit code.
pub fn run_check(spec: &CheckSpec, tier: Tier) -> i32 {
    let t0 = std::time::Instant::now();
    let master = master_seed();
    let known = load_known(spec.property);
    let known_classes: BTreeSet<String> = known.iter().map(|k| k.class.clone()).collect();
    println!("plsim: property={} tier={} VERIF_SEED={} jobs={}", spec.property, tier.as_str(), master, jobs());
    let agg = Mutex::new(Agg {
        evaluations: 0,
        nontrivial: 0,
        fingerprints: HashSet::new(),
        state_hashes: HashSet::new(),
        schedules: HashSet::new(),
        steps: 0,
        switches: 0,
        virtual_ms: 0,
        counters: BTreeMap::new(),
        samples: vec![],
        known_hits: BTreeMap::new(),
        known_free_runs: 0,
        rechecks: 0,
        violations: BTreeMap::new(),
        harness_errors: vec![],
        per_scenario: BTreeMap::new(),
    });
    let wall_cap_s: f64 = std::env::var("PLSIM_WALL_CAP_S").ok().and_then(|s| s.parse().ok()).unwrap_or(match tier {
        Tier::Quick => 600.0,
        Tier::Thorough => 3600.0,
    });
    let scale: f64 = std::env::var("PLSIM_RUN_SCALE").ok().and_then(|s| s.parse().ok()).unwrap_or(1.0);

    for (si, scen) in spec.scenarios.iter().enumerate() {
        let n = ((scen.runs(tier) as f64) * scale).ceil() as u64;
        let next = AtomicU64::new(0);
        let stop_at = AtomicU64::new(u64::MAX);
        let timed_out = AtomicBool::new(false);
        std::thread::scope(|s| {
            for _ in 0..jobs() {
                s.spawn(|| loop {
                    // no run of this worker is in flight (the supervisor's watchdog reads the age of the slot files)
                    clear_progress();
                    let idx = next.fetch_add(1, Ordering::SeqCst);
                    if idx >= n || idx > stop_at.load(Ordering::SeqCst) {
                        break;
                    }
                    if now_s(t0) > wall_cap_s {
                        timed_out.store(true, Ordering::SeqCst);
                        break;
                    }
                    let run_seed = run_seed_for(master, spec.property, si, idx);
                    let input = scen.gen(run_seed, tier);
                    // progress marker: lets the supervising process name the run if this process aborts
                    // (stack overflow, double panic, allocation failure cannot be caught in-process)
                    mark_progress(scen.name(), run_seed, &input);
                    let out = scen.exec(&input);
                    // determinism re-check on ~3% of runs
                    let recheck = mix(run_seed, 0xdec0de) % 100 < 3;
                    let mut recheck_fail = None;
                    if recheck && out.harness_error.is_none() {
                        let out2 = scen.exec(&input);
                        if out2.log_hash != out.log_hash
                            || out2.state_hash != out.state_hash
                            || out2.violations.len() != out.violations.len()
                        {
                            recheck_fail = Some(format!(
                                "determinism re-check failed: scenario={} run_seed={} log {:x}/{:x} state {:x}/{:x} viol {}/{}",
                                scen.name(),
                                run_seed,
                                out.log_hash,
                                out2.log_hash,
                                out.state_hash,
                                out2.state_hash,
                                out.violations.len(),
                                out2.violations.len()
                            ));
                        }
                    }
                    let mut a = agg.lock().unwrap();
                    a.evaluations += 1;
                    *a.per_scenario.entry(scen.name().to_string()).or_insert(0) += 1;
                    if recheck {
                        a.rechecks += 1;
                    }
                    if let Some(e) = recheck_fail {
                        a.harness_errors.push(e);
                    }
                    if let Some(e) = &out.harness_error {
                        a.harness_errors.push(format!("scenario={} run_seed={}: {}", scen.name(), run_seed, e));
                    }
                    if out.nontrivial && a.fingerprints.insert(out.fingerprint) {
                        a.nontrivial += 1;
                    }
                    a.state_hashes.insert(out.state_hash);
                    let mut dh = 0u64;
                    for l in &out.decisions {
                        dh = mix(dh, 0xfeed);
                        for d in l {
                            dh = mix(dh, *d as u64);
                        }
                    }
                    a.schedules.insert(dh);
                    a.steps += out.steps;
                    a.switches += out.switches;
                    a.virtual_ms += out.virtual_ms;
                    for (k, v) in &out.counters {
                        if k.starts_with("max_") {
                            let e = a.counters.entry(k.clone()).or_insert(0);
                            if *v > *e {
                                *e = *v;
                            }
                        } else {
                            *a.counters.entry(k.clone()).or_insert(0) += *v;
                        }
                    }
                    if a.samples.len() < 3 && idx < 3 {
                        a.samples.push(json!({"scenario": scen.name(), "run_seed": run_seed, "input": truncate_json(&input, 6000)}));
                    }
                    let mut any_known = false;
                    let mut seen_known: BTreeSet<&str> = BTreeSet::new();
                    for v in &out.violations {
                        if known_classes.contains(&v.class) {
                            any_known = true;
                            if seen_known.insert(v.class.as_str()) {
                                let e = a.known_hits.entry(v.class.clone()).or_insert((0, v.detail.clone()));
                                e.0 += 1;
                            }
                        } else {
                            let key = (si, idx);
                            if !a.violations.contains_key(&key) {
                                let mut inp = input.clone();
                                if let Some(o) = inp.as_object_mut() {
                                    o.insert("decisions".into(), json!(out.decisions));
                                }
                                a.violations.insert(key, (run_seed, inp, v.clone()));
                                stop_at.fetch_min(idx, Ordering::SeqCst);
                            }
                        }
                    }
                    if !any_known {
                        a.known_free_runs += 1;
                    }
                });
            }
        });
        if timed_out.load(Ordering::SeqCst) {
            println!("plsim: wall cap {}s reached in scenario {}", wall_cap_s, scen.name());
        }
        let a = agg.lock().unwrap();
        if !a.violations.is_empty() || !a.harness_errors.is_empty() {
            break;
        }
    }

    let mut a = agg.into_inner().unwrap();
    for (class, (n, detail)) in &a.known_hits {
        let wf = known.iter().find(|k| &k.class == class).map(|k| k.what_fails.clone()).unwrap_or_default();
        println!("KNOWN-FINDING: property={} {}: {} [met in {} runs; e.g. {}]", spec.property, class, wf, n, clip(detail, 300));
    }

    let mut exit = 0;
    let mut replay_path = None;
    if !a.harness_errors.is_empty() {
        for e in a.harness_errors.iter().take(5) {
            eprintln!("HARNESS-ERROR: {}", e);
        }
        exit = 2;
    } else if let Some(((si, idx), (run_seed, input, viol))) = a.violations.iter().next().map(|(k, v)| (*k, v.clone())) {
        let scen = &spec.scenarios[si];
        println!(
            "plsim: violation in scenario {} run {} (run_seed {}), class {}: {}",
            scen.name(),
            idx,
            run_seed,
            viol.class,
            clip(&viol.detail, 2000)
        );
        let (min_input, min_viol, execs) = minimise(scen.as_ref(), &input, &viol);
        println!("plsim: minimised with {} re-executions", execs);
        let dir = verif_dir().join("replays");
        let _ = std::fs::create_dir_all(&dir);
        let path = dir.join(format!("{}-{:016x}.json", spec.property, run_seed));
        let doc = json!({
            "schema": 1,
            "property": spec.property,
            "scenario": scen.name(),
            "run_seed": run_seed,
            "class": min_viol.class,
            "detail": min_viol.detail,
            "input": min_input,
        });
        std::fs::write(&path, serde_json::to_string_pretty(&doc).unwrap()).unwrap();
        // confirm in a fresh process
        let confirmed = std::process::Command::new(std::env::current_exe().unwrap())
            .args(["replay", spec.property, path.to_str().unwrap()])
            .env("PLSIM_QUIET", "1")
            .output()
            .map(|o| o.status.code() == Some(1))
            .unwrap_or(false);
        if !confirmed {
            eprintln!("HARNESS-ERROR: minimised replay {:?} did not reproduce in a fresh process", path);
            exit = 2;
        } else {
            println!("plsim: minimised violation: {}", clip(&min_viol.detail, 4000));
            println!("VIOLATION property={} replay={}", spec.property, path.display());
            exit = 1;
        }
        replay_path = Some(path);
    }

    // evidence
    let wall = now_s(t0);
    let rules: Vec<String> = spec.scenarios.iter().map(|s| format!("[{}] {}", s.name(), s.rule())).collect();
    if a.samples.is_empty() {
        a.samples.push(json!({"note": "no run completed"}));
    }
    let runs_per_hour = if wall > 0.0 { (a.evaluations as f64 / wall * 3600.0) as u64 } else { 0 };
    let zero_probes: Vec<String> = a.counters.iter().filter(|(k, v)| k.starts_with("probe.") && **v == 0).map(|(k, _)| k.clone()).collect();
    let mut faults = BTreeMap::new();
    let mut probes = BTreeMap::new();
    let mut other = BTreeMap::new();
    for (k, v) in &a.counters {
        if let Some(f) = k.strip_prefix("fault.") {
            faults.insert(f.to_string(), *v);
        } else if let Some(p) = k.strip_prefix("probe.") {
            probes.insert(p.to_string(), *v);
        } else {
            other.insert(k.clone(), *v);
        }
    }
    let ev = json!({
        "property_id": spec.property,
        "tier": tier.as_str(),
        "seed": master,
        "level": "exploration",
        "coverage": {
            "evaluations": a.evaluations,
            "distinct_nontrivial": a.nontrivial,
            "rule": rules.join(" || "),
            "samples": a.samples,
            "runs_per_scenario": a.per_scenario,
            "runs_per_hour": runs_per_hour,
            "scheduler_steps": a.steps,
            "context_switches": a.switches,
            "virtual_time_ms": a.virtual_ms,
            "virtual_time_unit": "scheduler steps: sleep_steps()/time jumps provide simulated time; the tokio clock is paused and never advanced (no alarmed scenario needs a timer)",
            "distinct_schedules": a.schedules.len(),
            "distinct_final_states": a.state_hashes.len(),
            "faults_fired": faults,
            "probes": probes,
            "probes_stuck_at_zero": zero_probes,
            "counters": other,
            "known_finding_hits": a.known_hits.iter().map(|(k, v)| (k.clone(), v.0)).collect::<BTreeMap<_, _>>(),
            "known_finding_free_runs": a.known_free_runs,
            "determinism_rechecks": a.rechecks,
            "real_components": spec.real_components,
            "stub_components": spec.stub_components,
            "overlay_substitutions": super::OVERLAY_SUBSTITUTIONS,
            "repo_path": super::REPO_PATH,
            "replay": replay_path.as_ref().map(|p| p.display().to_string()),
            "exhaustive": false
        },
        "assumptions": spec.assumptions,
        "wall_s": wall,
        "violations": if exit == 1 { 1 } else { 0 },
    });
    let edir = verif_dir().join("evidence");
    let _ = std::fs::create_dir_all(&edir);
    let epath = edir.join(format!("{}.json", spec.property));
    if let Err(e) = std::fs::write(&epath, serde_json::to_string_pretty(&ev).unwrap()) {
        eprintln!("HARNESS-ERROR: cannot write evidence {:?}: {}", epath, e);
        return 2;
    }
    println!(
        "plsim: property={} runs={} distinct_nontrivial={} steps={} wall={:.1}s exit={}",
        spec.property, a.evaluations, a.nontrivial, a.steps, wall, exit
    );
    exit
}

thread_local! {
    static PROGRESS_FILE: std::cell::RefCell<Option<std::path::PathBuf>> = const { std::cell::RefCell::new(None) };
}
static PROGRESS_SEQ: AtomicU64 = AtomicU64::new(0);

fn mark_progress(scenario: &str, run_seed: u64, input: &Value) {
    let Ok(dir) = std::env::var("PLSIM_PROGRESS_DIR") else { return };
    PROGRESS_FILE.with(|p| {
        let mut p = p.borrow_mut();
        if p.is_none() {
            let k = PROGRESS_SEQ.fetch_add(1, Ordering::SeqCst);
            *p = Some(std::path::Path::new(&dir).join(format!("slot-{}.json", k)));
        }
        if let Some(f) = p.as_ref() {
            let _ = std::fs::write(f, serde_json::to_string(&json!({"scenario": scenario, "run_seed": run_seed, "input": input})).unwrap_or_default());
        }
    });
}

fn clear_progress() {
    PROGRESS_FILE.with(|p| {
        if let Some(f) = p.borrow().as_ref() {
            let _ = std::fs::remove_file(f);
        }
    });
}

/// Seconds one run may take on the wall clock before the supervisor calls it stuck (a loop without any scheduling
/// point never returns to the scheduler, so the step budget cannot end it).  Generous on purpose; 0 disables.
fn stuck_after_s(tier: Tier) -> u64 {
    // a quick-tier run takes milliseconds to a few seconds, the largest thorough-tier run (C11's 5 000-fixture document) well under a minute
    std::env::var("PLSIM_STUCK_S").ok().and_then(|s| s.parse().ok()).unwrap_or(match tier {
        Tier::Quick => 300,
        Tier::Thorough => 1800,
    })
}

/// Wait for a child; with a limit, kill it when `stuck()` says so.  Returns (exit code if any, was killed as stuck).
fn wait_watched(child: &mut std::process::Child, mut stuck: impl FnMut() -> bool) -> (Option<i32>, bool) {
    loop {
        match child.try_wait() {
            Ok(Some(st)) => return (st.code(), false),
            Ok(None) => {}
            Err(_) => return (None, false),
        }
        if stuck() {
            let _ = child.kill();
            let _ = child.wait();
            return (None, true);
        }
        std::thread::sleep(std::time::Duration::from_millis(500));
    }
}

/// Supervisor: run the batch in a child process; when the child is killed by a signal (stack
/// overflow, abort) find the in-flight run that reproduces the abort and report it as a violation.
pub fn supervise(prop: &str, tier: Tier) -> i32 {
    let dir = super::util::sandbox_base().join(format!("progress-{}", std::process::id()));
    let _ = std::fs::remove_dir_all(&dir);
    let _ = std::fs::create_dir_all(&dir);
    let exe = std::env::current_exe().expect("current exe");
    let limit = stuck_after_s(tier);
    let mut child = match std::process::Command::new(&exe).args(["check-inner", prop, "--tier", tier.as_str()]).env("PLSIM_PROGRESS_DIR", &dir).spawn() {
        Ok(c) => c,
        Err(e) => {
            eprintln!("HARNESS-ERROR: cannot start the batch process: {}", e);
            let _ = std::fs::remove_dir_all(&dir);
            return 2;
        }
    };
    let dir2 = dir.clone();
    let (code, stuck) = wait_watched(&mut child, || {
        if limit == 0 {
            return false;
        }
        let Ok(rd) = std::fs::read_dir(&dir2) else { return false };
        rd.flatten().any(|e| e.metadata().ok().and_then(|m| m.modified().ok()).and_then(|t| t.elapsed().ok()).map(|d| d.as_secs() > limit).unwrap_or(false))
    });
    if stuck {
        println!("plsim: a run has been executing for more than {} s of wall-clock time without finishing; the batch was stopped", limit);
    }
    if let Some(c) = code {
        if c == 0 || c == 1 || c == 2 {
            let _ = std::fs::remove_dir_all(&dir);
            return c;
        }
        if c == 101 {
            // a panic outside any simulated thread is a bug of the harness itself, never a verdict
            eprintln!("HARNESS-ERROR: the batch process panicked outside a simulation (exit status 101)");
            let _ = std::fs::remove_dir_all(&dir);
            return 2;
        }
    }
    println!("plsim: the batch process was killed (status {:?}); looking for the run that aborts it", code);
    let mut cands: Vec<(u64, std::path::PathBuf)> = vec![];
    if let Ok(rd) = std::fs::read_dir(&dir) {
        for e in rd.flatten() {
            if let Ok(s) = std::fs::read_to_string(e.path()) {
                if let Ok(v) = serde_json::from_str::<Value>(&s) {
                    cands.push((v["run_seed"].as_u64().unwrap_or(0), e.path()));
                }
            }
        }
    }
    cands.sort();
    if stuck {
        // the run that has been in flight longest first
        cands.sort_by_key(|(_, p)| std::fs::metadata(p).ok().and_then(|m| m.modified().ok()));
    }
    let mut exit = 2;
    for (run_seed, path) in &cands {
        let t1 = std::time::Instant::now();
        let (st, hung): (Option<Option<i32>>, bool) = match std::process::Command::new(&exe).args(["exec-one", prop, path.to_str().unwrap()]).stdout(std::process::Stdio::null()).stderr(std::process::Stdio::null()).spawn() {
            Ok(mut c) => {
                let (code, hung) = wait_watched(&mut c, || limit > 0 && t1.elapsed().as_secs() > limit);
                (Some(code), hung)
            }
            Err(_) => (None, false),
        };
        let died = hung || matches!(st, Some(c) if !matches!(c, Some(0) | Some(1) | Some(2) | Some(101)));
        if died {
            let doc: Value = serde_json::from_str(&std::fs::read_to_string(path).unwrap_or_default()).unwrap_or(Value::Null);
            let rdir = verif_dir().join("replays");
            let _ = std::fs::create_dir_all(&rdir);
            let rp = rdir.join(format!("{}-{:016x}.json", prop, run_seed));
            let out = json!({
                "schema": 1, "property": prop, "scenario": doc["scenario"], "run_seed": run_seed,
                "class": if hung { "no-termination-wall-clock" } else { "process-abort" },
                "detail": if hung { format!("executing this run alone does not finish within {} s of wall-clock time and never returns to the scheduler: an unbounded loop without a scheduling point in the code under test (replaying this file does not return either - run it under `timeout`)", limit) } else { format!("executing this run kills the process (status {:?}): unbounded recursion / stack overflow or abort in the code under test", st.flatten()) },
                "input": doc["input"],
            });
            let _ = std::fs::write(&rp, serde_json::to_string_pretty(&out).unwrap());
            if hung {
                println!("plsim: run_seed {} of scenario {} never finishes (no scheduler step, no return within {} s): every operation has to terminate", run_seed, doc["scenario"], limit);
            } else {
                println!("plsim: run_seed {} of scenario {} aborts the process (stack overflow / abort): no operation of the code under test may do that", run_seed, doc["scenario"]);
            }
            println!("VIOLATION property={} replay={}", prop, rp.display());
            let ev = json!({
                "property_id": prop, "tier": tier.as_str(), "seed": master_seed(), "level": "exploration",
                "coverage": {"evaluations": cands.len().max(1), "distinct_nontrivial": 2, "rule": "batch aborted by a process-killing run; the in-flight runs were re-executed one by one in child processes", "samples": [{"run_seed": run_seed, "scenario": doc["scenario"]}], "replay": rp.display().to_string()},
                "assumptions": ["evidence of an aborted batch: only the aborting run is described"], "wall_s": 0.0, "violations": 1
            });
            let edir = verif_dir().join("evidence");
            let _ = std::fs::create_dir_all(&edir);
            let _ = std::fs::write(edir.join(format!("{}.json", prop)), serde_json::to_string_pretty(&ev).unwrap());
            exit = 1;
            break;
        }
    }
    if exit == 2 {
        eprintln!("HARNESS-ERROR: the batch process was killed (status {:?}) and none of the {} in-flight runs reproduces it alone", code, cands.len());
    }
    let _ = std::fs::remove_dir_all(&dir);
    exit
}

/// `plsim exec-one <prop> <progress-file>`: execute one recorded input (used by the supervisor).
pub fn exec_one(spec: &CheckSpec, file: &str) -> i32 {
    let Ok(s) = std::fs::read_to_string(file) else { return 2 };
    let Ok(doc) = serde_json::from_str::<Value>(&s) else { return 2 };
    let Some(scen) = spec.scenarios.iter().find(|x| Some(x.name()) == doc["scenario"].as_str()) else { return 2 };
    let out = scen.exec(&doc["input"]);
    if out.harness_error.is_some() {
        2
    } else if out.violations.is_empty() {
        0
    } else {
        1
    }
}

pub fn clip(s: &str, n: usize) -> String {
    if s.len() <= n {
        s.to_string()
    } else {
        let mut e = n;
        while !s.is_char_boundary(e) {
            e -= 1;
        }
        format!("{}…", &s[..e])
    }
}

fn truncate_json(v: &Value, max: usize) -> Value {
    let s = serde_json::to_string(v).unwrap_or_default();
    if s.len() <= max {
        v.clone()
    } else {
        json!({"truncated": clip(&s, max)})
    }
}

fn has_class(out: &RunOut, class: &str) -> Option<Violation> {
    out.violations.iter().find(|v| v.class == class).cloned()
}

fn get_path<'a>(v: &'a Value, path: &str) -> Option<&'a Value> {
    v.pointer(path)
}

/// Bounded delta-debugging over the arrays named by the scenario's shrink paths (wildcards `*`
/// address every element of an array).  A candidate is kept only when the same violation class
/// persists.
pub fn minimise(scen: &dyn Scenario, input: &Value, viol: &Violation) -> (Value, Violation, u32) {
    let mut best = input.clone();
    let mut best_v = viol.clone();
    let mut execs = 0u32;
    let budget = 400u32;
    // first make sure the recorded explicit schedule reproduces it
    let out = scen.exec(&best);
    execs += 1;
    match has_class(&out, &viol.class) {
        Some(v) => best_v = v,
        None => return (best, best_v, execs),
    }
    let mut progress = true;
    while progress && execs < budget {
        progress = false;
        for pat in scen.shrink_paths() {
            for path in expand_paths(&best, pat) {
                let Some(len) = get_path(&best, &path).and_then(|a| a.as_array()).map(|a| a.len()) else { continue };
                if len == 0 {
                    continue;
                }
                let mut chunk = len.div_ceil(2);
                loop {
                    let mut i = 0;
                    loop {
                        let cur_len = get_path(&best, &path).and_then(|a| a.as_array()).map(|a| a.len()).unwrap_or(0);
                        if i >= cur_len || execs >= budget {
                            break;
                        }
                        let mut cand = best.clone();
                        if let Some(arr) = cand.pointer_mut(&path).and_then(|a| a.as_array_mut()) {
                            let end = (i + chunk).min(arr.len());
                            arr.drain(i..end);
                        }
                        let out = scen.exec(&cand);
                        execs += 1;
                        if let Some(v) = has_class(&out, &viol.class) {
                            best = cand;
                            best_v = v;
                            progress = true;
                        } else {
                            i += chunk;
                        }
                    }
                    if chunk == 1 || execs >= budget {
                        break;
                    }
                    chunk = chunk.div_ceil(2);
                }
            }
        }
    }
    (best, best_v, execs)
}

fn expand_paths(v: &Value, pat: &str) -> Vec<String> {
    let parts: Vec<&str> = pat.split('/').skip(1).collect();
    let mut cur = vec![String::new()];
    for p in parts {
        let mut next = vec![];
        for base in &cur {
            if p == "*" {
                if let Some(a) = v.pointer(base).and_then(|x| x.as_array()) {
                    for i in 0..a.len() {
                        next.push(format!("{}/{}", base, i));
                    }
                }
            } else {
                next.push(format!("{}/{}", base, p));
            }
        }
        cur = next;
    }
    cur
}

/// `plsim replay <prop> <file>`
pub fn replay(spec: &CheckSpec, path: &str) -> i32 {
    let Ok(s) = std::fs::read_to_string(path) else {
        eprintln!("plsim: cannot read {}", path);
        return 2;
    };
    let Ok(doc) = serde_json::from_str::<Value>(&s) else {
        eprintln!("plsim: cannot parse {}", path);
        return 2;
    };
    let scen_name = doc.get("scenario").and_then(|x| x.as_str()).unwrap_or("");
    let Some(scen) = spec.scenarios.iter().find(|s| s.name() == scen_name) else {
        eprintln!("plsim: unknown scenario {:?} for {}", scen_name, spec.property);
        return 2;
    };
    let input = doc.get("input").cloned().unwrap_or(Value::Null);
    if doc.get("class").and_then(|c| c.as_str()) == Some("process-abort") && std::env::var("PLSIM_IN_CHILD").is_err() {
        // this input is recorded as killing the process: execute it in a child
        let st = std::process::Command::new(std::env::current_exe().unwrap()).args(["replay", spec.property, path]).env("PLSIM_IN_CHILD", "1").status();
        return match st.ok().and_then(|s| s.code()) {
            Some(c) if c == 0 || c == 1 || c == 2 => c,
            other => {
                println!("replay: the process was killed (status {:?}) - stack overflow / abort reproduced", other);
                println!("VIOLATION property={} replay={}", spec.property, path);
                1
            }
        };
    }
    let out = scen.exec(&input);
    if let Some(e) = out.harness_error {
        eprintln!("HARNESS-ERROR: {}", e);
        return 2;
    }
    let class = doc.get("class").and_then(|x| x.as_str()).unwrap_or("");
    let quiet = std::env::var("PLSIM_QUIET").is_ok();
    if let Some(v) = out.violations.iter().find(|v| v.class == class).or(out.violations.first()) {
        if !quiet {
            println!("replay: class={} {}", v.class, v.detail);
            println!("replay: log_hash={:x} steps={}", out.log_hash, out.steps);
        }
        println!("VIOLATION property={} replay={}", spec.property, path);
        1
    } else {
        println!("replay: no violation (log_hash={:x} steps={})", out.log_hash, out.steps);
        0
    }
}
