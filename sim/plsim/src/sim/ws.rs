//! Workspace specs: the generator's ground truth (a value, not text), their materialisation on
//! tmpfs, and the generators for the scenario families that need whole workspaces.

use super::pytext::{gen_items, names_pool, render, Fx, GenOpts, Item, PyFile, Rendered, Tst};
use super::util::Rng;
use serde::{Deserialize, Serialize};
use std::collections::BTreeMap;
use std::path::{Path, PathBuf};

pub const SITE: &str = ".venv/lib/python3.11/site-packages";
/// Other places a virtualenv keeps its packages (relative to the venv directory, without `/site-packages`)
pub const VENV_LAYOUTS: [&str; 3] = ["lib/python3.9", "lib/pypy3.10", "Lib"];

#[derive(Clone, Debug, Serialize, Deserialize, PartialEq, Default)]
pub struct WsSpec {
    /// Python files; vector order = creation order on disk (tmpfs lists in reverse creation order)
    pub files: Vec<PyFile>,
    /// other files (pyproject.toml, venv metadata, …): (relative path, content)
    #[serde(default)]
    pub extra: Vec<(String, String)>,
    /// directory names between the sandbox directory and the workspace root
    #[serde(default)]
    pub ancestors: Vec<String>,
    /// relative paths of files that are workspace plugins (entry-point modules of in-workspace
    /// editable installs and what they star-import / declare as pytest_plugins)
    #[serde(default)]
    pub plugin_files: Vec<String>,
    /// relative paths (or absolute, for out-of-workspace editables) of third-party files
    #[serde(default)]
    pub third_party_files: Vec<String>,
    /// name of the workspace root directory itself (default "ws")
    #[serde(default)]
    pub root_name: Option<String>,
}

impl WsSpec {
    pub fn file(&self, rel: &str) -> Option<&PyFile> {
        self.files.iter().find(|f| f.rel == rel)
    }
    pub fn rendered(&self) -> BTreeMap<String, Rendered> {
        self.files.iter().map(|f| (f.rel.clone(), render(&f.items))).collect()
    }
    pub fn root_in(&self, sandbox_root: &Path) -> PathBuf {
        let mut p = sandbox_root.to_path_buf();
        for a in &self.ancestors {
            p.push(a);
        }
        p.push(self.root_name.as_deref().unwrap_or("ws"));
        p
    }
    /// Write the tree.  Returns the workspace root.
    /// Where a spec path lives on disk: specs always name the virtualenv's library directory `SITE`; an `extra` entry
    /// `("@venv-layout", "lib/pypy3.10")` moves it (other interpreter versions, PyPy, the Windows layout).  `dbsnap::rel`
    /// maps the paths the index reports back to `SITE`, so models and oracles never see the difference.
    pub fn disk_rel(&self, rel: &str) -> String {
        if let Some((_, layout)) = self.extra.iter().find(|(k, _)| k == "@venv-layout") {
            if let Some(rest) = rel.strip_prefix(SITE) {
                return format!(".venv/{}/site-packages{}", layout, rest);
            }
        }
        rel.to_string()
    }

    pub fn materialise(&self, sandbox_root: &Path) -> PathBuf {
        let root = self.root_in(sandbox_root);
        std::fs::create_dir_all(&root).expect("create workspace root");
        for f in &self.files {
            let p = root.join(self.disk_rel(&f.rel));
            if let Some(d) = p.parent() {
                let _ = std::fs::create_dir_all(d);
            }
            std::fs::write(&p, render(&f.items).text).expect("write py file");
        }
        for (rel, content) in &self.extra {
            if rel.starts_with('@') {
                continue; // a directive, not a file
            }
            let p = if rel.starts_with('/') { PathBuf::from(rel) } else { root.join(self.disk_rel(rel)) };
            if let Some(d) = p.parent() {
                let _ = std::fs::create_dir_all(d);
            }
            let parent = root.parent().map(|p| p.to_string_lossy().to_string()).unwrap_or_default();
            if let Some(text) = content.strip_prefix("@latin1:") {
                // a Python file stored in ISO-8859-1 (PEP 263 coding cookie): not UTF-8 on disk
                let bytes: Vec<u8> = text.chars().map(|c| if (c as u32) < 256 { c as u32 as u8 } else { b'?' }).collect();
                std::fs::write(&p, bytes).expect("write latin-1 file");
                continue;
            }
            std::fs::write(&p, content.replace("${ROOT}", &root.to_string_lossy()).replace("${PARENT}", &parent)).expect("write extra file");
        }
        root
    }
}

pub fn dir_of(rel: &str) -> String {
    match rel.rfind('/') {
        Some(i) => rel[..i].to_string(),
        None => String::new(),
    }
}
pub fn join_rel(dir: &str, name: &str) -> String {
    if dir.is_empty() {
        name.to_string()
    } else {
        format!("{}/{}", dir, name)
    }
}
pub fn parent_dir(dir: &str) -> Option<String> {
    // ".." is the directory that holds the workspace: files next to the workspace are not below its root
    if dir.is_empty() || dir == ".." {
        None
    } else {
        Some(dir_of(dir))
    }
}

#[derive(Clone, Debug)]
pub struct WsOpts {
    pub n_names: usize,
    pub max_dirs: usize,
    pub imports: bool,
    /// imported names may collide with definitions elsewhere (trigger of RC-IMPORT-ORIGIN)
    pub colliding_imports: bool,
    /// the same name may be defined twice in one test file (trigger of RC-FIRST-VS-LAST)
    pub same_file_dups: bool,
    pub venv: bool,
    pub import_cycles: bool,
    pub self_dep_per_mille: u32,
    pub scopes: bool,
    pub dep_cycles: bool,
    /// overrides (a fixture requesting its own name) may also live in imported helper modules
    pub helper_self_dep_per_mille: u32,
    /// helper modules may be named like stdlib modules (then they are imported relatively)
    pub stdlib_named_helpers: bool,
    /// explicit imports may also name something the module does not define as a fixture
    pub import_plain_names: bool,
    pub file: GenOpts,
}

impl Default for WsOpts {
    fn default() -> Self {
        WsOpts {
            n_names: 5,
            max_dirs: 5,
            imports: true,
            colliding_imports: true,
            same_file_dups: false,
            venv: false,
            import_cycles: false,
            self_dep_per_mille: 200,
            scopes: true,
            dep_cycles: false,
            helper_self_dep_per_mille: 0,
            stdlib_named_helpers: false,
            import_plain_names: false,
            file: GenOpts { alias: false, assign_style: false, ..GenOpts::default() },
        }
    }
}

fn dir_tree(rng: &mut Rng, max_dirs: usize) -> Vec<String> {
    let mut dirs = vec![String::new()];
    let labels = ["a", "b", "c", "sub", "pkg", "unit"];
    let n = rng.range(1, max_dirs.max(1));
    for _ in 0..n {
        let parent = rng.pick(&dirs).clone();
        if parent.matches('/').count() >= 2 {
            continue;
        }
        // (now and then a project directory whose name merely CONTAINS "site-packages")
        let name = if rng.chance(40) { "site-packages-compat".to_string() } else { rng.pick(&labels).to_string() };
        let d = join_rel(&parent, &name);
        if !dirs.contains(&d) {
            dirs.push(d);
        }
    }
    dirs
}

/// A helper module with fixtures, placed in `dir`.
fn helper_module(rng: &mut Rng, dir: &str, k: usize, names: &[String], o: &WsOpts) -> PyFile {
    let mut fo = o.file.clone();
    fo.max_tests = 0;
    fo.max_fixtures = 2;
    fo.marks = false;
    fo.self_dep_per_mille = o.helper_self_dep_per_mille;
    fo.dup_names = o.same_file_dups;
    let mut items = gen_items(rng, names, false, &fo);
    if !items.iter().any(|i| matches!(i, Item::Fixture(_))) {
        items.push(Item::Fixture(Fx { func: rng.pick(names).clone(), ..Default::default() }));
    }
    items.retain(|i| !matches!(i, Item::Test(_)));
    // now and then a local module is named like a standard-library module (legal: it is imported relatively)
    // (a helper may also be named like a test module - `test_support_1.py` imported by others: the walk picks it up as well)
    let name = if o.stdlib_named_helpers && rng.chance(200) {
        format!("{}.py", rng.pick(&["http", "types", "random", "email", "string"]))
    } else if rng.chance(120) {
        format!("test_support_{}{}.py", dir.replace(['/', '-'], "_"), k)
    } else {
        format!("fx_{}{}.py", dir.replace(['/', '-'], "_"), k)
    };
    PyFile { rel: join_rel(dir, &name), items }
}

fn module_ref(rng: &mut Rng, from_dir: &str, target_rel: &str) -> Option<String> {
    let tdir = dir_of(target_rel);
    let stem = target_rel.rsplit('/').next().unwrap().trim_end_matches(".py").to_string();
    let stdlib_like = ["http", "types", "random", "email", "string"].contains(&stem.as_str());
    if tdir == from_dir {
        Some(if stdlib_like || rng.chance(500) { format!(".{}", stem) } else { stem })
    } else if parent_dir(from_dir).as_deref() == Some(tdir.as_str()) {
        // module lives in the parent directory
        Some(if stdlib_like || rng.chance(500) { format!("..{}", stem) } else { stem })
    } else if parent_dir(&tdir).as_deref() == Some(from_dir) {
        // module lives in a child directory: dotted path through the sub-package
        let sub = tdir.rsplit('/').next().unwrap().to_string();
        if !sub.chars().all(|c| c.is_ascii_alphanumeric() || c == '_') {
            return None; // not importable by name
        }
        Some(if stdlib_like || rng.chance(500) { format!(".{}.{}", sub, stem) } else { format!("{}.{}", sub, stem) })
    } else {
        None
    }
}

/// One link of the workspace plugin's module chain: `from .name import *` or `pytest_plugins = ["myplug.name"]`.
fn plug_link(rng: &mut Rng, name: &str, target: &str) -> Item {
    if rng.chance(350) {
        Item::Plugins { modules: vec![format!("myplug.{}", name)], targets: vec![Some(target.to_string())] }
    } else {
        Item::Star { module: format!(".{}", name), target: Some(target.to_string()) }
    }
}

fn fixture_names_of(f: &PyFile) -> Vec<String> {
    f.items
        .iter()
        .filter_map(|i| if let Item::Fixture(fx) = i { Some(fx.name().to_string()) } else { None })
        .collect()
}

/// General-purpose workspace: conftest hierarchy, helper modules imported by conftests, test files
/// with overrides, sibling directories with same-named definitions.
pub fn gen_ws(rng: &mut Rng, o: &WsOpts) -> WsSpec {
    let names = names_pool(o.n_names);
    let dirs = dir_tree(rng, o.max_dirs);
    let mut files: Vec<PyFile> = vec![];
    let mut imported_names: Vec<String> = vec![];
    let mut extra_files: Vec<PyFile> = vec![];
    let mut helper_k = 0;
    for d in &dirs {
        // helper modules of this directory
        let mut helpers: Vec<PyFile> = vec![];
        if o.imports && rng.chance(450) {
            let nh = rng.range(1, 2);
            for _ in 0..nh {
                helper_k += 1;
                let pool: Vec<String> = if o.colliding_imports {
                    names.clone()
                } else {
                    // names private to imports: never defined anywhere else
                    vec![format!("imp{}", helper_k), format!("imq{}", helper_k)]
                };
                let mut h = helper_module(rng, d, helper_k, &pool, o);
                if files.iter().chain(helpers.iter()).any(|f: &PyFile| f.rel == h.rel) {
                    h.rel = join_rel(d, &format!("fx_{}{}.py", d.replace(['/', '-'], "_"), helper_k));
                }
                imported_names.extend(fixture_names_of(&h));
                helpers.push(h);
            }
            // transitive: helper 0 star-imports helper 1
            if helpers.len() == 2 && rng.chance(500) {
                let t = helpers[1].rel.clone();
                if let Some(m) = module_ref(rng, d, &t) {
                    helpers[0].items.insert(0, Item::Star { module: m, target: Some(t) });
                }
                if o.import_cycles && rng.chance(500) {
                    let t0 = helpers[0].rel.clone();
                    if let Some(m) = module_ref(rng, d, &t0) {
                        helpers[1].items.insert(0, Item::Star { module: m, target: Some(t0) });
                    }
                }
            }
        }
        // conftest
        let has_conftest = rng.chance(if d.is_empty() { 850 } else { 650 }) || !helpers.is_empty();
        if has_conftest {
            let mut fo = o.file.clone();
            fo.max_tests = 0;
            fo.self_dep_per_mille = o.self_dep_per_mille;
            fo.scopes = o.scopes;
            fo.dup_names = o.same_file_dups;
            let mut items = gen_items(rng, &names, false, &fo);
            items.retain(|i| !matches!(i, Item::Test(_)));
            let mut import_items = vec![];
            for (hi, h) in helpers.iter().enumerate() {
                if hi == 1 && helpers[0].items.iter().any(|i| matches!(i, Item::Star { .. })) && rng.chance(600) {
                    continue; // reached only transitively
                }
                let Some(m) = module_ref(rng, d, &h.rel) else { continue };
                let hn = fixture_names_of(h);
                let it = match rng.below(10) {
                    0..=4 => Item::Star { module: m, target: Some(h.rel.clone()) },
                    5..=7 => {
                        let mut ns: Vec<String> = hn.clone();
                        rng.shuffle(&mut ns);
                        ns.truncate(rng.range(1, ns.len().max(1)));
                        if o.import_plain_names && rng.chance(300) {
                            // a plain (non-fixture) name of that module which happens to be a fixture name elsewhere
                            let extra = rng.pick(&names).clone();
                            if !hn.contains(&extra) {
                                ns.push(extra);
                            }
                        }
                        Item::Import { module: m, names: ns, target: Some(h.rel.clone()) }
                    }
                    _ if ["http", "types", "random", "email", "string"].contains(&h.rel.rsplit('/').next().unwrap_or("").trim_end_matches(".py")) => Item::Star { module: m, target: Some(h.rel.clone()) },
                    _ => Item::Plugins { modules: vec![m.trim_start_matches('.').to_string()], targets: vec![Some(h.rel.clone())] },
                };
                // pytest_plugins only understands absolute names; keep the module reachable that way
                import_items.push(it);
            }
            // two declarations become one with two entries (written as a list, a comma-separated string, `a + b` or `+=`)
            let plug_idx: Vec<usize> = import_items.iter().enumerate().filter(|(_, i)| matches!(i, Item::Plugins { .. })).map(|(k, _)| k).collect();
            if plug_idx.len() == 2 {
                if let Item::Plugins { modules: m2, targets: t2 } = import_items.remove(plug_idx[1]) {
                    if let Item::Plugins { modules, targets } = &mut import_items[plug_idx[0]] {
                        modules.extend(m2);
                        targets.extend(t2);
                    }
                }
            }
            // a conftest never both defines and imports the same name in the default sweep
            let imported_here: Vec<String> = helpers.iter().flat_map(fixture_names_of).collect();
            items.retain(|i| if let Item::Fixture(f) = i { !imported_here.contains(&f.name().to_string()) } else { true });
            let mut all = import_items;
            all.extend(items);
            if o.imports && rng.chance(90) {
                // `try: from .fast_impl_k import backend_k / except ImportError: from .slow_impl_k import backend_k`
                // (the renderer writes the fallback): both modules exist, the one in the try body binds
                helper_k += 1;
                let fx = format!("backend_{}", helper_k);
                let fast = join_rel(d, &format!("fast_impl_{}.py", helper_k));
                let slow = join_rel(d, &format!("slow_impl_{}.py", helper_k));
                extra_files.push(PyFile { rel: fast.clone(), items: vec![Item::Fixture(Fx { func: fx.clone(), ..Default::default() })] });
                extra_files.push(PyFile { rel: slow, items: vec![Item::Fixture(Fx { func: "slow_only".into(), ..Default::default() }), Item::Fixture(Fx { func: fx.clone(), ..Default::default() })] });
                all.insert(0, Item::Import { module: format!(".fast_impl_{}", helper_k), names: vec![fx], target: Some(fast) });
            }
            if o.imports && rng.chance(70) {
                // an import that only type checkers execute: nothing it names is a fixture of this conftest
                helper_k += 1;
                let m = format!("typing_only_{}", helper_k);
                extra_files.push(PyFile { rel: join_rel(d, &format!("{}.py", m)), items: vec![Item::Fixture(Fx { func: format!("tc_only_{}", helper_k), ..Default::default() })] });
                all.insert(0, Item::Raw { text: format!("from typing import TYPE_CHECKING\nif TYPE_CHECKING:\n    from .{} import *\n", m) });
            }
            files.push(PyFile { rel: join_rel(d, "conftest.py"), items: all });
            if helpers.iter().any(|_| true) && rng.chance(500) {
                files.push(PyFile { rel: join_rel(d, "__init__.py"), items: vec![] });
            }
        }
        let helper_refs: Vec<(String, Vec<String>)> = helpers.iter().map(|h| (h.rel.clone(), fixture_names_of(h))).collect();
        files.extend(helpers);
        // test files
        let nt = if d.is_empty() { rng.below(2) } else { rng.range(0, 2) };
        for k in 0..nt {
            let mut fo = o.file.clone();
            fo.max_fixtures = 2;
            fo.self_dep_per_mille = o.self_dep_per_mille * 2;
            fo.dup_names = o.same_file_dups;
            fo.scopes = o.scopes;
            let mut items = gen_items(rng, &names, true, &fo);
            // a test module importing fixtures itself (they are visible in that module only)
            if o.imports && !helper_refs.is_empty() && rng.chance(200) {
                let (h, hn) = rng.pick(&helper_refs).clone();
                if let Some(m) = module_ref(rng, d, &h) {
                    let it = if hn.is_empty() || rng.chance(500) {
                        Item::Star { module: m, target: Some(h) }
                    } else {
                        let mut ns = hn.clone();
                        rng.shuffle(&mut ns);
                        ns.truncate(rng.range(1, ns.len()));
                        Item::Import { module: m, names: ns, target: Some(h) }
                    };
                    items.insert(0, it);
                }
            }
            let tag = if d.is_empty() { "root".to_string() } else { d.replace(['/', '-'], "_") };
            let rel = if rng.chance(800) { join_rel(d, &format!("test_{}_{}.py", tag, k)) } else { join_rel(d, &format!("{}_{}_test.py", tag, k)) };
            files.push(PyFile { rel, items });
        }
    }
    files.extend(extra_files);
    if !files.iter().any(|f| f.items.iter().any(|i| matches!(i, Item::Test(_)))) {
        let d = rng.pick(&dirs).clone();
        let mut fo = o.file.clone();
        fo.max_fixtures = 1;
        files.push(PyFile { rel: join_rel(&d, "test_extra.py"), items: gen_items(rng, &names, true, &fo) });
    }
    // a module nobody imports (its definitions must never be returned)
    if rng.chance(300) {
        let d = rng.pick(&dirs).clone();
        if rng.chance(500) {
            files.push(PyFile { rel: join_rel(&d, "orphan_fixtures.py"), items: vec![Item::Fixture(Fx { func: "orphan_only_fx".into(), ..Default::default() }), Item::Fixture(Fx { func: rng.pick(&names).clone(), ..Default::default() })] });
        } else {
            // ... in a sub-directory of its own, importing a sibling there relatively (two hops from whoever starts importing it)
            let od = join_rel(&d, "orph");
            files.push(PyFile { rel: join_rel(&od, "orphan_fixtures.py"), items: vec![Item::Star { module: ".deep_orphan".into(), target: Some(join_rel(&od, "deep_orphan.py")) }, Item::Fixture(Fx { func: "orphan_only_fx".into(), ..Default::default() }), Item::Fixture(Fx { func: rng.pick(&names).clone(), ..Default::default() })] });
            files.push(PyFile { rel: join_rel(&od, "deep_orphan.py"), items: vec![Item::Fixture(Fx { func: "deep_orphan_fx".into(), ..Default::default() })] });
        }
    }
    // imports that cross a directory boundary: a conftest importing a helper module of its parent directory
    // (`from ..fx import *` / absolute name found by walking up) or of a child directory (`from .sub.fx import *`)
    if o.imports && rng.chance(300) {
        let helpers: Vec<(String, Vec<String>)> = files
            .iter()
            .filter(|f| {
                let base = f.rel.rsplit('/').next().unwrap_or("");
                f.rel.ends_with(".py") && base != "conftest.py" && base != "__init__.py" && !f.items.iter().any(|i| matches!(i, Item::Test(_))) && base != "orphan_fixtures.py" && base != "deep_orphan.py" && !base.starts_with("slow_impl_") && !base.starts_with("fast_impl_") && !base.starts_with("typing_only_")
            })
            .map(|f| (f.rel.clone(), fixture_names_of(f)))
            .collect();
        let conftests: Vec<usize> = files.iter().enumerate().filter(|(_, f)| f.rel.ends_with("conftest.py")).map(|(i, _)| i).collect();
        for ci in conftests {
            if !rng.chance(400) {
                continue;
            }
            let cdir = dir_of(&files[ci].rel);
            let cands: Vec<&(String, Vec<String>)> = helpers
                .iter()
                .filter(|(h, _)| {
                    let hd = dir_of(h);
                    hd != cdir && (parent_dir(&cdir).as_deref() == Some(hd.as_str()) || parent_dir(&hd).as_deref() == Some(cdir.as_str()))
                })
                .collect();
            if cands.is_empty() {
                continue;
            }
            let (h, hn) = (*rng.pick(&cands)).clone();
            // importing back into a module that (transitively) imports this conftest's directory helpers is fine: the model handles cycles
            let Some(m) = module_ref(rng, &cdir, &h) else { continue };
            let it = if hn.is_empty() || rng.chance(600) {
                Item::Star { module: m, target: Some(h.clone()) }
            } else {
                let mut ns = hn.clone();
                rng.shuffle(&mut ns);
                ns.truncate(rng.range(1, ns.len()));
                Item::Import { module: m, names: ns, target: Some(h.clone()) }
            };
            let at = rng.below(files[ci].items.iter().take_while(|i| matches!(i, Item::Star { .. } | Item::Import { .. } | Item::Plugins { .. })).count() + 1);
            files[ci].items.insert(at, it);
        }
    }
    // a conftest importing the conftest.py of a SIBLING directory (`from ..other.conftest import *`, `from other.conftest
    // import name`): that conftest's fixtures become visible in a tree that is not below it
    if o.imports && rng.chance(250) {
        let conftests: Vec<(usize, String)> = files.iter().enumerate().filter(|(_, f)| f.rel.ends_with("conftest.py")).map(|(i, f)| (i, dir_of(&f.rel))).collect();
        for (ci, cdir) in conftests.iter() {
            if cdir.is_empty() || !rng.chance(500) {
                continue;
            }
            let cands: Vec<&(usize, String)> = conftests
                .iter()
                .filter(|(_, sd)| sd != cdir && !sd.is_empty() && parent_dir(sd) == parent_dir(cdir) && sd.rsplit('/').next().unwrap().chars().all(|c| c.is_ascii_alphanumeric() || c == '_'))
                .collect();
            if cands.is_empty() {
                continue;
            }
            let (si, sdir) = (*rng.pick(&cands)).clone();
            let sub = sdir.rsplit('/').next().unwrap().to_string();
            // the absolute spelling is looked up next to the importer first: usable only if the importer's directory has no
            // sub-directory of that name
            let shadowed = files.iter().any(|f| f.rel.starts_with(&format!("{}/{}/", cdir, sub)));
            let m = if shadowed || rng.chance(500) { format!("..{}.conftest", sub) } else { format!("{}.conftest", sub) };
            let hn = fixture_names_of(&files[si]);
            let target = files[si].rel.clone();
            let it = if hn.is_empty() || rng.chance(500) {
                Item::Star { module: m, target: Some(target) }
            } else {
                let mut ns = hn.clone();
                rng.shuffle(&mut ns);
                ns.truncate(rng.range(1, ns.len()));
                Item::Import { module: m, names: ns, target: Some(target) }
            };
            let at = rng.below(files[*ci].items.iter().take_while(|i| matches!(i, Item::Star { .. } | Item::Import { .. } | Item::Plugins { .. })).count() + 1);
            files[*ci].items.insert(at, it);
        }
    }
    if o.dep_cycles {
        inject_dep_cycle(rng, &mut files, &names);
    }
    let mut spec = WsSpec { files, ..Default::default() };
    if o.venv {
        add_venv(rng, &mut spec, &names);
        if rng.chance(350) {
            add_external_editable(rng, &mut spec, &names);
        }
    }
    rng.shuffle(&mut spec.files);
    // creation order of the metadata files decides the readdir order of site-packages (dist-info directories)
    rng.shuffle(&mut spec.extra);
    let _ = imported_names;
    spec
}

/// Make some fixtures depend on each other in a ring (C16).
fn inject_dep_cycle(rng: &mut Rng, files: &mut [PyFile], names: &[String]) {
    let k = rng.range(1, 3);
    let mut ring: Vec<String> = names.to_vec();
    rng.shuffle(&mut ring);
    ring.truncate(k);
    // find (or reuse) fixtures with those names and set deps to the next in the ring
    for (i, n) in ring.iter().enumerate() {
        let next = ring[(i + 1) % ring.len()].clone();
        let mut done = false;
        for f in files.iter_mut() {
            for it in f.items.iter_mut() {
                if let Item::Fixture(fx) = it {
                    if fx.name() == n && fx.style != 2 && !done {
                        if !fx.deps.contains(&next) {
                            fx.deps.push(next.clone());
                        }
                        done = true;
                    }
                }
            }
        }
        if !done {
            if let Some(f) = files.iter_mut().find(|f| f.rel.ends_with("conftest.py")) {
                f.items.push(Item::Fixture(Fx { func: n.clone(), deps: vec![next], ..Default::default() }));
            }
        }
    }
}

/// Synthetic virtualenv: a third-party plugin (dist-info entry point), pytest's built-ins, and
/// optionally an editable install inside the workspace (workspace plugin).
pub fn add_venv(rng: &mut Rng, spec: &mut WsSpec, names: &[String]) {
    let sp = SITE;
    // third-party plugin package
    let tp_name = rng.pick(names).clone();
    let layout = rng.below(3);
    let (modpath, rel) = match layout {
        0 => ("pytest_foo.plugin".to_string(), format!("{}/pytest_foo/plugin.py", sp)),
        1 => ("pytest_foo".to_string(), format!("{}/pytest_foo/__init__.py", sp)),
        _ => ("pytest_foo".to_string(), format!("{}/pytest_foo.py", sp)),
    };
    spec.files.push(PyFile { rel: rel.clone(), items: vec![Item::Fixture(Fx { func: tp_name.clone(), ret: Some("int".into()), ..Default::default() }), Item::Fixture(Fx { func: "tp_only".into(), ..Default::default() })] });
    spec.third_party_files.push(rel);
    if layout == 0 {
        spec.files.push(PyFile { rel: format!("{}/pytest_foo/__init__.py", sp), items: vec![] });
        spec.third_party_files.push(format!("{}/pytest_foo/__init__.py", sp));
    }
    let meta = if rng.chance(700) { "pytest_foo-1.2.3.dist-info" } else { "pytest_foo-1.2.3.egg-info" };
    spec.extra.push((format!("{}/{}/entry_points.txt", sp, meta), format!("[console_scripts]\nx = y:z\n\n[pytest11]\nfoo = {}\n", modpath)));
    // a second installed plugin that defines the SAME fixture name (which one wins must not depend on who registered first)
    if rng.chance(350) {
        let rel = format!("{}/pytest_bar.py", sp);
        spec.files.push(PyFile { rel: rel.clone(), items: vec![Item::Fixture(Fx { func: tp_name.clone(), ret: Some("str".into()), ..Default::default() }), Item::Fixture(Fx { func: "bar_only".into(), ..Default::default() })] });
        spec.third_party_files.push(rel);
        spec.extra.push((format!("{}/pytest_bar-0.9.dist-info/entry_points.txt", sp), "[pytest11]\nbar = pytest_bar\n".to_string()));
    }
    // an installed library that ships fixtures in a module no entry point registers (its own test helpers): not a plugin,
    // so nothing in the workspace sees them
    if rng.chance(300) {
        let rel = format!("{}/otherlib/testing_helpers.py", sp);
        spec.files.push(PyFile { rel, items: vec![Item::Fixture(Fx { func: "lib_internal_fixture".into(), ..Default::default() }), Item::Fixture(Fx { func: rng.pick(names).clone(), ..Default::default() })] });
        spec.files.push(PyFile { rel: format!("{}/otherlib/__init__.py", sp), items: vec![] });
    }
    // pytest built-ins
    if rng.chance(600) {
        let rel = format!("{}/_pytest/fixtures.py", sp);
        spec.files.push(PyFile { rel: rel.clone(), items: vec![Item::Fixture(Fx { func: "tmp_path".into(), ..Default::default() }), Item::Fixture(Fx { func: rng.pick(names).clone(), ..Default::default() })] });
        spec.third_party_files.push(rel);
    }
    // in-workspace editable install = workspace plugin
    if rng.chance(500) {
        let pname = rng.pick(names).clone();
        let rel = "plugsrc/myplug/plugin.py".to_string();
        let mut plugin_items = vec![Item::Fixture(Fx { func: pname, ..Default::default() }), Item::Fixture(Fx { func: "plug_only".into(), ..Default::default() })];
        if rng.chance(300) {
            // the plugin overrides a fixture of the installed plugin under its own name and requests the parent
            plugin_items.push(Item::Fixture(Fx { func: "tp_only".into(), deps: vec!["tp_only".into()], ..Default::default() }));
        }
        if rng.chance(400) {
            // the plugin star-imports a helper module (which thereby provides plugin fixtures too); a conftest
            // somewhere below the root imports the same module: whoever the import scan visits first, the
            // module's fixtures stay visible to the whole workspace
            let shared = "plugsrc/myplug/shared.py".to_string();
            spec.files.push(PyFile { rel: shared.clone(), items: vec![Item::Fixture(Fx { func: "shared_only".into(), ..Default::default() }), Item::Fixture(Fx { func: rng.pick(names).clone(), ..Default::default() })] });
            if rng.chance(400) {
                // the plugin reaches the helper through one more module, so a conftest that imports the helper directly
                // gets there a round earlier in the import scan
                let mid = "plugsrc/myplug/mid.py".to_string();
                // (each link of the chain is a star import or, in a third of the cases, a `pytest_plugins` declaration)
                let l1 = plug_link(rng, "shared", &shared);
                spec.files.push(PyFile { rel: mid.clone(), items: vec![l1, Item::Fixture(Fx { func: "mid_only".into(), ..Default::default() })] });
                plugin_items.insert(0, plug_link(rng, "mid", &mid));
            } else {
                plugin_items.insert(0, plug_link(rng, "shared", &shared));
            }
            if rng.chance(450) {
                // ... and that helper star-imports a second one: plugin status has to propagate along the chain
                // whichever file the import scan happens to look at first
                let deep = "plugsrc/myplug/deep.py".to_string();
                spec.files.push(PyFile { rel: deep.clone(), items: vec![Item::Fixture(Fx { func: "deep_only".into(), ..Default::default() }), Item::Fixture(Fx { func: rng.pick(names).clone(), ..Default::default() })] });
                if let Some(sf) = spec.files.iter_mut().find(|f| f.rel == shared) {
                    let l = plug_link(rng, "deep", &deep);
                    sf.items.insert(0, l);
                }
            }
            let confs: Vec<usize> = spec.files.iter().enumerate().filter(|(_, f)| f.rel.ends_with("/conftest.py") && !f.rel.starts_with('.') && !f.rel.starts_with("plugsrc")).map(|(i, _)| i).collect();
            if !confs.is_empty() && rng.chance(700) {
                let i = *rng.pick(&confs);
                spec.files[i].items.insert(0, Item::Star { module: "myplug.shared".into(), target: Some(shared) });
            }
        }
        if rng.chance(350) {
            // the entry module names ONE fixture of another module in an explicit import: that fixture is a plugin
            // fixture, its neighbour in the same module is not
            let expl = "plugsrc/myplug/expl.py".to_string();
            spec.files.push(PyFile { rel: expl.clone(), items: vec![Item::Fixture(Fx { func: "expl_fix".into(), ..Default::default() }), Item::Fixture(Fx { func: "expl_other".into(), ..Default::default() })] });
            plugin_items.insert(0, Item::Import { module: ".expl".into(), names: vec!["expl_fix".into()], target: Some(expl) });
        }
        spec.files.push(PyFile { rel: rel.clone(), items: plugin_items });
        spec.files.push(PyFile { rel: "plugsrc/myplug/__init__.py".into(), items: vec![] });
        spec.plugin_files.push(rel);
        spec.extra.push((format!("{}/myplug-0.1.0.dist-info/direct_url.json", sp), "{\"url\": \"file://${ROOT}/plugsrc\", \"dir_info\": {\"editable\": true}}".to_string()));
        spec.extra.push((format!("{}/myplug-0.1.0.dist-info/entry_points.txt", sp), "[pytest11]\nmyplug = myplug.plugin\n".to_string()));
        let pth = match rng.below(3) {
            0 => "__editable__.myplug-0.1.0.pth",
            1 => "_myplug.pth",
            _ => "myplug.pth",
        };
        spec.extra.push((format!("{}/{}", sp, pth), "${ROOT}/plugsrc\n".to_string()));
        // an untidy venv: a stale path file of an earlier install of the same distribution, pointing to a directory
        // that no longer holds the package (the documented lookup order prefers the `__editable__.` file)
        if pth.starts_with("__editable__") && rng.chance(300) {
            spec.extra.push((format!("{}/myplug.pth", sp), "${ROOT}/old_checkout\n".to_string()));
            spec.extra.push(("old_checkout/README.txt".to_string(), "moved\n".to_string()));
        }
    }
}

/// An editable install whose sources live OUTSIDE the workspace (next to it): its pytest11 plugin is
/// third-party although it is not in site-packages.
pub fn add_external_editable(rng: &mut Rng, spec: &mut WsSpec, names: &[String]) {
    let sp = SITE;
    let (dist, module) = match rng.below(3) {
        0 => ("extplug", "extplug"),
        1 => ("ext-plug", "ext_plug"),
        _ => ("Ext.Plug", "ext_plug"),
    };
    let rel = format!("../extsrc/{}/plugin.py", module);
    spec.files.push(PyFile { rel: rel.clone(), items: vec![Item::Fixture(Fx { func: "ext_only".into(), ..Default::default() }), Item::Fixture(Fx { func: rng.pick(names).clone(), ..Default::default() })] });
    spec.files.push(PyFile { rel: format!("../extsrc/{}/__init__.py", module), items: vec![] });
    spec.third_party_files.push(rel);
    let info = format!("{}/{}-2.0.dist-info", sp, dist);
    spec.extra.push((format!("{}/direct_url.json", info), "{\"url\": \"file://${PARENT}/extsrc\", \"dir_info\": {\"editable\": true}}".to_string()));
    spec.extra.push((format!("{}/entry_points.txt", info), format!("[pytest11]\next = {}.plugin\n", module)));
    let norm = dist.replace(['-', '.'], "_").to_lowercase();
    let pth = match rng.below(4) {
        0 => format!("__editable__.{}-2.0.pth", norm),
        1 => format!("_{}.pth", norm),
        2 => format!("__editable__.{}-2.0.pth", dist),
        _ => format!("{}.pth", norm),
    };
    spec.extra.push((format!("{}/{}", sp, pth), "# editable\nimport sys\n${PARENT}/extsrc\n".to_string()));
}

/// All usage/def tokens of a workspace with absolute positions.
pub struct Positions {
    pub by_file: BTreeMap<String, Rendered>,
}

impl Positions {
    pub fn of(spec: &WsSpec) -> Positions {
        Positions { by_file: spec.rendered() }
    }
}

#[allow(dead_code)]
pub fn simple_fixture(name: &str, deps: &[&str]) -> Item {
    Item::Fixture(Fx { func: name.to_string(), deps: deps.iter().map(|s| s.to_string()).collect(), ..Default::default() })
}
#[allow(dead_code)]
pub fn simple_test(name: &str, params: &[&str]) -> Item {
    Item::Test(Tst { name: name.to_string(), params: params.iter().map(|s| s.to_string()).collect(), ..Default::default() })
}

/// Three mutually importing modules (ma -> mb -> mc -> ma) entered at two different points by two
/// sibling conftests: the shape on which a memoised, `visited`-truncated import walk goes wrong.
pub fn ring_ws(rng: &mut Rng) -> WsSpec {
    if rng.chance(400) {
        return conftest_ring_ws(rng);
    }
    let mods = ["ma", "mb", "mc"];
    let fx = ["fa", "fb", "fc"];
    let mut files = vec![];
    for i in 0..3 {
        let next = mods[(i + 1) % 3];
        files.push(PyFile {
            rel: format!("{}.py", mods[i]),
            items: vec![Item::Star { module: next.to_string(), target: Some(format!("{}.py", next)) }, Item::Fixture(Fx { func: fx[i].to_string(), ..Default::default() })],
        });
    }
    let entries = [("p", rng.below(3)), ("q", rng.below(3))];
    for (d, e) in entries {
        files.push(PyFile { rel: format!("{}/conftest.py", d), items: vec![Item::Star { module: mods[e].to_string(), target: Some(format!("{}.py", mods[e])) }] });
        files.push(PyFile { rel: format!("{}/test_{}.py", d, d), items: vec![Item::Test(Tst { name: "test_ring".into(), params: fx.iter().map(|s| s.to_string()).collect(), ..Default::default() })] });
    }
    rng.shuffle(&mut files);
    WsSpec { files, ..Default::default() }
}

/// An import cycle that passes through a conftest: p/conftest.py star-imports mb (and md), mb star-imports p.conftest;
/// q/conftest.py enters the cycle at mb.  A walk rooted at p/conftest.py sees mb cut short by `visited`; a walk
/// rooted at q/conftest.py must still see everything (fb, fd, fp).
pub fn conftest_ring_ws(rng: &mut Rng) -> WsSpec {
    let star = |m: &str, t: &str| Item::Star { module: m.to_string(), target: Some(t.to_string()) };
    let fx = |n: &str| Item::Fixture(Fx { func: n.to_string(), ..Default::default() });
    let mut pc = vec![star("mb", "mb.py"), star("md", "md.py"), fx("fp")];
    if rng.chance(500) {
        pc.swap(0, 1);
    }
    let mut files = vec![
        PyFile { rel: "mb.py".into(), items: vec![star("p.conftest", "p/conftest.py"), fx("fb")] },
        PyFile { rel: "md.py".into(), items: vec![fx("fd")] },
        PyFile { rel: "p/conftest.py".into(), items: pc },
        PyFile { rel: "q/conftest.py".into(), items: vec![star("mb", "mb.py")] },
    ];
    for d in ["p", "q"] {
        files.push(PyFile { rel: format!("{}/test_{}.py", d, d), items: vec![Item::Test(Tst { name: "test_ring".into(), params: vec!["fb".into(), "fd".into(), "fp".into()], ..Default::default() })] });
    }
    rng.shuffle(&mut files);
    WsSpec { files, ..Default::default() }
}

/// The repository's own `tests/test_project` as a fixed real-world corpus (files verbatim).
pub fn corpus_spec() -> WsSpec {
    fn walk(base: &Path, dir: &Path, out: &mut Vec<PyFile>) {
        let Ok(rd) = std::fs::read_dir(dir) else { return };
        let mut entries: Vec<PathBuf> = rd.flatten().map(|e| e.path()).collect();
        entries.sort();
        for p in entries {
            if p.is_dir() {
                if p.file_name().and_then(|n| n.to_str()).map(|n| n.starts_with('.') || n == "__pycache__").unwrap_or(false) {
                    continue;
                }
                walk(base, &p, out);
            } else if p.extension().and_then(|e| e.to_str()) == Some("py") {
                if let Ok(text) = std::fs::read_to_string(&p) {
                    let rel = p.strip_prefix(base).unwrap().to_string_lossy().to_string();
                    out.push(PyFile { rel, items: vec![Item::Raw { text }] });
                }
            }
        }
    }
    let base = PathBuf::from(super::REPO_PATH).join("tests/test_project");
    let mut files = vec![];
    walk(&base, &base, &mut files);
    WsSpec { files, ..Default::default() }
}

/// Import diamond: a/conftest imports left and right, both import common, common imports deep;
/// b/conftest imports only right.  Memoising a walk that was cut by `visited` goes wrong here.
pub fn diamond_ws(rng: &mut Rng) -> WsSpec {
    let star = |m: &str| Item::Star { module: m.to_string(), target: Some(format!("{}.py", m)) };
    let fx = |n: &str| Item::Fixture(Fx { func: n.to_string(), ..Default::default() });
    let mut files = vec![
        PyFile { rel: "m_deep.py".into(), items: vec![fx("deep_fx")] },
        PyFile { rel: "m_common.py".into(), items: vec![star("m_deep"), fx("common_fx")] },
        PyFile { rel: "m_left.py".into(), items: vec![star("m_common"), fx("left_fx")] },
        PyFile { rel: "m_right.py".into(), items: vec![star("m_common"), fx("right_fx")] },
        PyFile { rel: "a/conftest.py".into(), items: vec![star("m_left"), star("m_right")] },
        PyFile { rel: "b/conftest.py".into(), items: vec![star("m_right")] },
    ];
    for d in ["a", "b"] {
        let mut params: Vec<String> = vec!["deep_fx".into(), "common_fx".into(), "right_fx".into(), "left_fx".into()];
        rng.shuffle(&mut params);
        files.push(PyFile { rel: format!("{}/test_{}.py", d, d), items: vec![Item::Test(Tst { name: "test_diamond".into(), params, usefixtures: vec!["deep_fx".into()], ..Default::default() })] });
    }
    rng.shuffle(&mut files);
    WsSpec { files, ..Default::default() }
}
