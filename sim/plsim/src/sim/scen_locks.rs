//! S-LOCKS (C12): every public query and every handler runs concurrently with re-analyses and the
//! real scan under adversarial shard placement (1 shard = every pair of keys of a map collides),
//! PCT schedules and cyclic inputs.  Oracle: the scheduler's deadlock / self-deadlock detector and
//! bounded steps per operation.

use super::batch::{RunOut, Scenario, Tier};
use super::hostile::valid_hostile;
use super::observe::Lsp;
use super::pytext::{gen_items, names_pool, render, Fx, GenOpts, Item, PyFile, Tst};
use super::scen_resolve::abort_to_violation;
use super::simcfg::{replay_list, SimParams};
use super::util::{fnv, mix, Rng, Sandbox};
use super::ws::{gen_ws, ring_ws, WsOpts, WsSpec};
use crate::fixtures::FixtureDatabase;
use serde::{Deserialize, Serialize};
use serde_json::Value;
use std::path::{Path, PathBuf};
use std::sync::{Arc, Mutex};

#[derive(Clone, Debug, Serialize, Deserialize)]
pub struct LocksInput {
    pub spec: WsSpec,
    pub sim: SimParams,
    /// re-analyses performed by the editing thread: (file, text)
    pub edits: Vec<(String, String)>,
    /// files the query thread asks about
    pub query_files: Vec<String>,
    pub with_scan: bool,
    pub two_query_threads: bool,
    /// the editing thread additionally analyses this many filler files (> 2000 cached files => eviction)
    #[serde(default)]
    pub fillers: usize,
    pub run_seed: u64,
    #[serde(default)]
    pub sandbox: Option<String>,
}

pub struct Locks {
    pub cyclic: bool,
}

const OP_STEP_BOUND: u64 = 200_000;

pub fn cyclic_ws(rng: &mut Rng) -> WsSpec {
    let mut spec = match rng.below(3) {
        0 => ring_ws(rng),
        _ => {
            let mut o = WsOpts::default();
            o.file.in_class = false;
            o.import_cycles = true;
            o.dep_cycles = true;
            o.max_dirs = 3;
            o.n_names = 3;
            gen_ws(rng, &o)
        }
    };
    // self imports / pytest_plugins pointing at the declaring module
    if rng.chance(600) {
        let items = vec![
            Item::Star { module: "conftest".into(), target: Some("selfimp/conftest.py".into()) },
            Item::Star { module: ".".into(), target: None },
            Item::Import { module: ".conftest".into(), names: vec!["loop_a".into()], target: Some("selfimp/conftest.py".into()) },
            Item::Plugins { modules: vec!["conftest".into(), "selfimp.conftest".into()], targets: vec![Some("selfimp/conftest.py".into()), None] },
            Item::Fixture(Fx { func: "loop_a".into(), deps: vec!["loop_b".into(), "loop_a".into()], ..Default::default() }),
            Item::Fixture(Fx { func: "loop_b".into(), deps: vec!["loop_a".into()], scope: 4, ..Default::default() }),
        ];
        spec.files.push(PyFile { rel: "selfimp/conftest.py".into(), items });
        spec.files.push(PyFile { rel: "selfimp/__init__.py".into(), items: vec![Item::Star { module: ".conftest".into(), target: None }] });
        spec.files.push(PyFile { rel: "selfimp/test_loop.py".into(), items: vec![Item::Test(Tst { name: "test_l".into(), params: vec!["loop_a".into(), "loop_b".into()], ..Default::default() })] });
    }
    // two modules naming each other in pytest_plugins
    if rng.chance(500) {
        spec.files.push(PyFile { rel: "plug_a.py".into(), items: vec![Item::Plugins { modules: vec!["plug_b".into()], targets: vec![Some("plug_b.py".into())] }, Item::Fixture(Fx { func: "from_a".into(), ..Default::default() })] });
        spec.files.push(PyFile { rel: "plug_b.py".into(), items: vec![Item::Plugins { modules: vec!["plug_a".into()], targets: vec![Some("plug_a.py".into())] }, Item::Fixture(Fx { func: "from_b".into(), ..Default::default() })] });
        spec.files.push(PyFile { rel: "plugs/conftest.py".into(), items: vec![Item::Plugins { modules: vec!["plug_a".into()], targets: vec![Some("plug_a.py".into())] }] });
        spec.files.push(PyFile { rel: "plugs/test_plugs.py".into(), items: vec![Item::Test(Tst { name: "test_p".into(), params: vec!["from_a".into(), "from_b".into()], ..Default::default() })] });
    }
    // an in-workspace editable plugin whose entry module and a helper star-import each other (and the entry module
    // itself): plugin status propagates along star imports, round and round unless each module is marked once
    if rng.chance(400) {
        let sp = super::ws::SITE;
        spec.files.push(PyFile { rel: "plugsrc/cycplug/__init__.py".into(), items: vec![] });
        spec.files.push(PyFile { rel: "plugsrc/cycplug/plugin.py".into(), items: vec![Item::Star { module: ".helper".into(), target: Some("plugsrc/cycplug/helper.py".into()) }, Item::Star { module: ".plugin".into(), target: Some("plugsrc/cycplug/plugin.py".into()) }, Item::Fixture(Fx { func: "cyc_plugin_fx".into(), ..Default::default() })] });
        spec.files.push(PyFile { rel: "plugsrc/cycplug/helper.py".into(), items: vec![Item::Star { module: ".plugin".into(), target: Some("plugsrc/cycplug/plugin.py".into()) }, Item::Fixture(Fx { func: "cyc_helper_fx".into(), ..Default::default() })] });
        spec.extra.push((format!("{}/cycplug-0.1.0.dist-info/direct_url.json", sp), "{\"url\": \"file://${ROOT}/plugsrc\", \"dir_info\": {\"editable\": true}}".to_string()));
        spec.extra.push((format!("{}/cycplug-0.1.0.dist-info/entry_points.txt", sp), "[pytest11]\ncycplug = cycplug.plugin\n".to_string()));
        spec.extra.push((format!("{}/__editable__.cycplug-0.1.0.pth", sp), "${ROOT}/plugsrc\n".to_string()));
    }
    // arbitrarily deep directory chain
    if rng.chance(400) {
        let depth = rng.range(20, 60);
        let dir = vec!["d"; depth].join("/");
        spec.files.push(PyFile { rel: format!("{}/conftest.py", dir), items: vec![Item::Fixture(Fx { func: "deep".into(), deps: vec!["deep".into()], ..Default::default() })] });
        spec.files.push(PyFile { rel: format!("{}/test_deep.py", dir), items: vec![Item::Test(Tst { name: "test_d".into(), params: vec!["deep".into(), "alpha".into()], ..Default::default() })] });
    }
    spec
}

impl Scenario for Locks {
    fn name(&self) -> &'static str {
        if self.cyclic {
            "locks-cyclic"
        } else {
            "locks"
        }
    }
    fn rule(&self) -> &'static str {
        if self.cyclic {
            "workspaces with circular and self imports (star, explicit, pytest_plugins naming the declaring module), 3-module import rings, \
             circular and self-referential fixture dependencies and directory chains of depth 20-60; the real scan, an editing thread and one \
             or two query threads (every public query + every handler) run concurrently; invariants: no deadlock/self-deadlock, every operation \
             finishes within 200k scheduler steps of its own thread, the run terminates; non-trivial = >= 3 simulated threads overlapped; \
             distinct = spec hash x schedule"
        } else {
            "generated workspaces; scan thread (1-4 shim workers) + editing thread (re-analyses of conftests/tests sharing names) + query \
             threads (all public queries and handlers on all files) under 1 shard (50% of runs: every two keys of a map collide), 2/4/16 shards, \
             PCT depth<=3 and random walks; same invariants; non-trivial = >= 3 simulated threads overlapped and a write lock was requested \
             while a read lock of the same map was held by another thread; distinct = spec hash x schedule"
        }
    }
    fn runs(&self, tier: Tier) -> u64 {
        match tier {
            Tier::Quick => 1_200,
            Tier::Thorough => 60_000,
        }
    }
    fn shrink_paths(&self) -> Vec<&'static str> {
        vec!["/edits", "/query_files", "/spec/files", "/decisions/0"]
    }

    fn gen(&self, run_seed: u64, _tier: Tier) -> Value {
        let mut rng = Rng::new(run_seed);
        let spec = if self.cyclic {
            cyclic_ws(&mut rng)
        } else {
            let mut o = WsOpts::default();
            o.file.in_class = false;
            o.max_dirs = 3;
            o.n_names = rng.range(2, 4);
            o.venv = rng.chance(200);
            o.import_cycles = rng.chance(200);
            gen_ws(&mut rng, &o)
        };
        let names = names_pool(3);
        let files: Vec<String> = spec.files.iter().filter(|f| !f.rel.starts_with(".venv") && f.rel.ends_with(".py")).map(|f| f.rel.clone()).collect();
        let mut edits = vec![];
        for _ in 0..rng.range(1, 5) {
            let f = rng.pick(&files).clone();
            let text = match rng.below(4) {
                0 => "import pytest\n".to_string(),
                1 => valid_hostile(&mut rng, &names),
                _ => {
                    let keep: Vec<Item> = spec.file(&f).map(|pf| pf.items.iter().filter(|i| matches!(i, Item::Star { .. } | Item::Import { .. } | Item::Plugins { .. })).cloned().collect()).unwrap_or_default();
                    let mut items = keep;
                    items.extend(gen_items(&mut rng, &names, true, &GenOpts { in_class: false, ..GenOpts::default() }));
                    render(&items).text
                }
            };
            edits.push((f, text));
        }
        let mut query_files = files.clone();
        rng.shuffle(&mut query_files);
        query_files.truncate(rng.range(1, 4));
        let mut sim = SimParams::gen(&mut rng, 20000);
        sim.shards = *rng.pick(&[1usize, 1, 1, 2, 4, 16]);
        sim.max_steps = 30_000_000;
        if sim.strategy == "random" && sim.param == 0 {
            sim.param = 20;
        }
        let fillers = if rng.chance(40) { 2001 } else { 0 };
        if fillers > 0 {
            sim.max_steps = 2_000_000_000;
        }
        serde_json::to_value(LocksInput { spec, sim, edits, query_files, with_scan: rng.chance(800), two_query_threads: rng.chance(400), fillers, run_seed, sandbox: None }).unwrap()
    }

    fn exec(&self, input: &Value) -> RunOut {
        let mut out = RunOut::default();
        let inp: LocksInput = match serde_json::from_value(input.clone()) {
            Ok(i) => i,
            Err(e) => {
                out.harness_error = Some(format!("bad input: {}", e));
                return out;
            }
        };
        let sb = Sandbox::acquire("c12", inp.run_seed, inp.sandbox.as_deref().map(Path::new));
        let root = inp.spec.materialise(&sb.root());
        let slow: Arc<Mutex<Vec<String>>> = Arc::new(Mutex::new(vec![]));
        let slow2 = slow.clone();
        let i2 = inp.clone();
        let r2 = root.clone();
        let (oc, _) = simrt::run(inp.sim.cfg(replay_list(input, 0)), move || drive(&r2, &i2, slow2));
        out.absorb_outcome(&oc);
        out.fingerprint = mix(fnv(&serde_json::to_string(&(&inp.spec, &inp.edits, &inp.query_files)).unwrap()), oc.log_hash);
        out.state_hash = oc.log_hash;
        out.nontrivial = oc.threads >= 3 && oc.switches > 2;
        out.count(&format!("fault.shards_{}", inp.sim.shards), 1);
        if inp.fillers > 0 {
            out.count("fault.cache_pressure_2001_fillers", 1);
        }
        out.count("probe.lock_blocked", (oc.blocked_events > 0) as u64);
        // potential (not alarmed) lock-order cycles: pairs held->requested seen in both directions
        let mut pot = 0u64;
        for ((a, b, _, _), _) in &oc.lock_edges {
            if a < b && oc.lock_edges.keys().any(|(x, y, _, _)| x == b && y == a) {
                pot += 1;
            }
        }
        out.count("lock_order_cycles_potential_not_alarmed", pot);
        if let Some(a) = &oc.abort {
            match a.kind {
                simrt::AbortKind::Deadlock => out.violate("deadlock", format!("deadlock / self-deadlock on the shared index (shards={}): {}", inp.sim.shards, a.detail)),
                simrt::AbortKind::StepBudget => out.violate("no-termination", format!("run did not terminate within the step budget: {}", a.detail)),
                _ => abort_to_violation(&mut out, a, "concurrent scan / edits / queries"),
            }
            return out;
        }
        for s in slow.lock().unwrap().iter() {
            out.violate("operation-exceeds-step-bound", s.clone());
        }
        out
    }
}

fn timed(slow: &Arc<Mutex<Vec<String>>>, what: &str, f: impl FnOnce()) {
    let before = simrt::own_steps();
    f();
    let used = simrt::own_steps() - before;
    if used > OP_STEP_BOUND {
        slow.lock().unwrap().push(format!("{} took {} scheduler steps of its own thread (bound {})", what, used, OP_STEP_BOUND));
    }
}

fn queries(db: &Arc<FixtureDatabase>, root: &Path, files: &[String], spec: &WsSpec, slow: &Arc<Mutex<Vec<String>>>) {
    let lsp = Lsp::new(db.clone(), root);
    for f in files {
        let abs: PathBuf = root.join(f);
        let text = spec.file(f).map(|pf| render(&pf.items).text).unwrap_or_default();
        let nlines = text.lines().count().min(14) as u32;
        timed(slow, &format!("get_available_fixtures({})", f), || {
            let _ = db.get_available_fixtures(&abs);
        });
        timed(slow, &format!("cycles/mismatches({})", f), || {
            let _ = db.detect_fixture_cycles_in_file(&abs);
            let _ = db.detect_scope_mismatches_in_file(&abs);
            let _ = db.get_undeclared_fixtures(&abs);
        });
        for l in 0..nlines {
            for c in [4u32, 11, 15, 22] {
                timed(slow, &format!("position queries {}:{}:{}", f, l, c), || {
                    let _ = db.find_fixture_definition(&abs, l, c);
                    let _ = db.find_fixture_at_position(&abs, l, c);
                    let _ = db.get_completion_context(&abs, l, c);
                    let _ = lsp.references(f, l, c);
                    let _ = lsp.hover(f, l, c);
                    let _ = lsp.completion(f, l, c);
                    if let Some(item) = lsp.prepare(f, l, c) {
                        let _ = lsp.incoming(&item);
                        let _ = lsp.outgoing(&item);
                    }
                });
            }
        }
        timed(slow, &format!("whole-document handlers({})", f), || {
            let _ = lsp.code_lens(f);
            let _ = lsp.inlay(f);
            let _ = lsp.document_symbols(f);
            let _ = lsp.code_action(f, &[(1, 4, 1, 9)]);
        });
    }
    timed(slow, "workspace symbols / unused / references", || {
        let _ = lsp.workspace_symbols("");
        let _ = db.get_unused_fixtures();
        let defs: Vec<_> = db.definitions.iter().flat_map(|e| e.value().clone()).collect();
        for d in defs.iter().take(12) {
            let _ = db.find_references_for_definition(d);
            let _ = db.find_closest_definition(&d.file_path, &d.name);
        }
        let _ = db.detect_fixture_cycles();
    });
}

fn drive(root: &Path, inp: &LocksInput, slow: Arc<Mutex<Vec<String>>>) {
    let db = Arc::new(FixtureDatabase::new());
    let mut hs = vec![];
    if inp.with_scan {
        let d = db.clone();
        let r = root.to_path_buf();
        let s = slow.clone();
        hs.push(simrt::spawn(move || timed(&s, "scan_workspace", || d.scan_workspace(&r))));
    } else {
        for f in &inp.spec.files {
            db.analyze_file(root.join(&f.rel), &render(&f.items).text);
        }
    }
    {
        let d = db.clone();
        let r = root.to_path_buf();
        let edits = inp.edits.clone();
        let s = slow.clone();
        let fillers = inp.fillers;
        hs.push(simrt::spawn(move || {
            for i in 0..fillers {
                // cache pressure: eviction runs inside analyze_file once more than 2000 files are cached
                d.analyze_file(r.join(format!("zz_fill/filler_{}.py", i)), "x = 1\n");
            }
            for (f, t) in &edits {
                timed(&s, &format!("analyze_file({})", f), || d.analyze_file(r.join(f), t));
                timed(&s, &format!("cleanup_file_cache({})", f), || d.cleanup_file_cache(&r.join(f)));
            }
        }));
    }
    let n_q = if inp.two_query_threads { 2 } else { 1 };
    for k in 0..n_q {
        let d = db.clone();
        let r = root.to_path_buf();
        let mut files = inp.query_files.clone();
        if k == 1 {
            files.reverse();
        }
        let spec = inp.spec.clone();
        let s = slow.clone();
        hs.push(simrt::spawn(move || queries(&d, &r, &files, &spec, &s)));
    }
    for h in hs {
        h.join();
    }
    // bounded liveness once everything has quiesced
    queries(&db, root, &inp.query_files, &inp.spec, &slow);
}
