//! S-LSP-CHAOS (C11): hostile contents, stale-span histories, hostile positions, malformed
//! workspace files and transport faults.  `chaos-lib` drives the library and the real handlers
//! directly (volume); `chaos-lsp` drives the full stack over the simulated transport.

use super::batch::{RunOut, Scenario, Tier};
use super::dbsnap::{all_defs, all_usages, rel};
use super::hostile::{arbitrary, simple_valid, stale_layout, valid_hostile};
use super::lspdrv::{frame, LspServer, RefreshPolicy};
use super::observe::Lsp;
use super::pytext::names_pool;
use super::scen_resolve::abort_to_violation;
use super::simcfg::{replay_list, SimParams};
use super::util::{fnv, mix, Rng, Sandbox};
use crate::fixtures::FixtureDatabase;
use serde::{Deserialize, Serialize};
use serde_json::{json, Value};
use std::collections::BTreeSet;
use std::path::Path;
use std::sync::Arc;

#[derive(Clone, Debug, Serialize, Deserialize)]
pub struct ChaosInput {
    /// (file, versions): each version is analysed in order; queries follow every version
    pub docs: Vec<(String, Vec<String>)>,
    pub sim: SimParams,
    /// extra hostile positions (line, character)
    pub positions: Vec<(u32, u32)>,
    /// full stack only: bytes per fragment (0 = whole frames), coalesce several frames, cut the stream mid-frame at the end
    #[serde(default)]
    pub fragment: usize,
    #[serde(default)]
    pub coalesce: bool,
    #[serde(default)]
    pub eof_mid_frame: bool,
    #[serde(default)]
    pub cancel: bool,
    #[serde(default)]
    pub refresh_delay: i32,
    /// malformed / unreadable workspace files present during the scan: (relative path, kind)
    #[serde(default)]
    pub bad_files: Vec<(String, String)>,
    /// chaos-cli: additionally materialise a workspace with cyclic imports / dependencies generated from this seed
    #[serde(default)]
    pub cyclic_seed: Option<u64>,
    /// chaos-cli: the CLI's stdout cannot be written ("closed-pipe": EPIPE, "dev-full": ENOSPC)
    #[serde(default)]
    pub stdout_fault: Option<String>,
    pub run_seed: u64,
    #[serde(default)]
    pub sandbox: Option<String>,
}

pub struct Chaos {
    pub full_stack: bool,
}

/// Hostile workspaces through the real CLI in child processes ("analysis and the CLI never panic").
pub struct ChaosCli;

impl Scenario for ChaosCli {
    fn name(&self) -> &'static str {
        "chaos-cli"
    }
    fn rule(&self) -> &'static str {
        "a workspace made of hostile documents (every generated version becomes a file: multi-byte layouts, unparsable texts, CRLF/CR/BOM,          empty) plus malformed/unreadable files and broken plugin metadata is handed to `fixtures list` and `fixtures unused` (text and json) in          seeded child processes, in 3 of 11 runs with a stdout that cannot be written (a pipe nobody reads, a full device); invariant: the child neither panics nor aborts (exit status 0 or 1) and prints valid JSON; non-trivial = at          least one file is unparsable or malformed; distinct = input hash"
    }
    fn runs(&self, tier: Tier) -> u64 {
        match tier {
            Tier::Quick => 300,
            Tier::Thorough => 4_000,
        }
    }
    fn shrink_paths(&self) -> Vec<&'static str> {
        vec!["/docs", "/docs/*/1", "/bad_files"]
    }
    fn gen(&self, run_seed: u64, tier: Tier) -> Value {
        let mut v = Chaos { full_stack: true }.gen(run_seed ^ 0xc11, tier);
        if run_seed % 10 < 4 {
            v["cyclic_seed"] = serde_json::json!(run_seed ^ 0xc7c1);
        }
        match run_seed % 11 {
            1 | 2 => v["stdout_fault"] = serde_json::json!("closed-pipe"),
            3 => v["stdout_fault"] = serde_json::json!("dev-full"),
            _ => {}
        }
        if run_seed % 7 == 3 {
            // "very large": one generated-data module whose single expression has tens of thousands of terms
            if let Some(a) = v["bad_files"].as_array_mut() {
                a.push(serde_json::json!(["data/big_table_test.py", "deep-expression"]));
            }
        }
        v
    }
    fn exec(&self, input: &Value) -> RunOut {
        let mut out = RunOut::default();
        let inp: ChaosInput = match serde_json::from_value(input.clone()) {
            Ok(i) => i,
            Err(e) => {
                out.harness_error = Some(format!("bad input: {}", e));
                return out;
            }
        };
        let sb = Sandbox::acquire("c11c", inp.run_seed, inp.sandbox.as_deref().map(Path::new));
        let root = sb.root().join("ws");
        std::fs::create_dir_all(&root).unwrap();
        out.fingerprint = fnv(&serde_json::to_string(&(&inp.docs, &inp.bad_files)).unwrap());
        let mut k = 0;
        for (file, versions) in &inp.docs {
            for (vi, text) in versions.iter().enumerate() {
                // every version becomes its own test file next to the original
                let name = if vi == 0 { file.clone() } else { file.replace(".py", &format!("_v{}_test.py", vi)) };
                let p = root.join(&name);
                if let Some(d) = p.parent() {
                    let _ = std::fs::create_dir_all(d);
                }
                let _ = std::fs::write(&p, text);
                if !parses(text) {
                    out.nontrivial = true;
                }
                k += 1;
            }
        }
        for (path, kind) in &inp.bad_files {
            write_bad(&root, path, kind);
            out.count(&format!("fault.cli_meets_{}", kind.replace('-', "_")), 1);
            out.nontrivial = true;
        }
        if let Some(cs) = inp.cyclic_seed {
            let spec = super::scen_locks::cyclic_ws(&mut Rng::new(cs));
            for f in &spec.files {
                let p = root.join("cyc").join(&f.rel);
                if let Some(d) = p.parent() {
                    let _ = std::fs::create_dir_all(d);
                }
                let _ = std::fs::write(&p, super::pytext::render(&f.items).text);
            }
            out.count("fault.cli_meets_cyclic_imports_and_dependencies", 1);
            out.nontrivial = true;
        }
        out.count("hostile_files", k);
        let rootstr = root.to_string_lossy().to_string();
        for argv in [vec!["fixtures", "list", rootstr.as_str()], vec!["fixtures", "unused", rootstr.as_str()], vec!["fixtures", "unused", rootstr.as_str(), "--format", "json"], vec!["fixtures", "list", rootstr.as_str(), "--only-unused"]] {
            let fault = inp.stdout_fault.as_deref();
            match super::scen_cli::run_child_faulty(&inp.sim, &argv, fault) {
                Ok((code, so, se)) => {
                    out.count("child_processes", 1);
                    out.state_hash = mix(out.state_hash, fnv(&so));
                    if let Some(f) = fault {
                        out.count(&format!("fault.cli_stdout_{}", f.replace('-', "_")), 1);
                    }
                    // with an unwritable stdout the exit status is the CLI's business (an error status, death by SIGPIPE);
                    // what the statement rules out stays ruled out: a panic (status 101) or an abort (SIGABRT, SIGSEGV)
                    let status_ok = if fault.is_some() { !matches!(code, 101 | 70 | 134 | 139 | -6 | -11 | -4 | -7) } else { code == 0 || code == 1 };
                    if !status_ok || se.contains("panicked") || se.contains("CHILD-ABORT") {
                        let deep = inp.bad_files.iter().any(|(_, k)| k == "deep-expression");
                        let class = if se.contains("panicked") || se.contains("Panic") {
                            panic_class(se.lines().find(|l| l.contains("CHILD-ABORT") || l.contains("panicked")).unwrap_or(""))
                        } else if deep && (code == -1 || code == -6 || code == -11 || code == 134 || se.contains("overflowed its stack")) {
                            "RC-DEEP-EXPRESSION-STACK-OVERFLOW".to_string()
                        } else {
                            "cli-abnormal-exit".to_string()
                        };
                        out.violate(&class, format!("`{}` exited with status {} on a hostile workspace; stderr: {}", argv[..2].join(" "), code, super::batch::clip(&se, 500)));
                    }
                    if fault.is_none() && (code == 0 || code == 1) && argv.contains(&"json") && serde_json::from_str::<Value>(&so).is_err() {
                        out.violate("cli-json-invalid", format!("json output does not parse: {:?}", super::batch::clip(&so, 300)));
                    }
                }
                Err(e) => {
                    out.harness_error = Some(e);
                    return out;
                }
            }
        }
        out
    }
}

fn panic_class(msg: &str) -> String {
    // message @ file:line
    let loc = msg.rsplit(" @ ").next().unwrap_or("");
    let file = loc.rsplit('/').next().unwrap_or(loc).split(':').next().unwrap_or("");
    if file.is_empty() {
        "panic".to_string()
    } else {
        format!("panic@{}", file)
    }
}

fn gen_docs(rng: &mut Rng, tier: Tier) -> Vec<(String, Vec<String>)> {
    let names = names_pool(3);
    let files = ["conftest.py", "test_a.py", "sub/conftest.py", "sub/test_b.py"];
    let mut docs = vec![];
    let n = rng.range(1, 3);
    for f in files.iter().take(n + 1) {
        let mut versions = vec![];
        let mut prev = if rng.chance(700) { valid_hostile(rng, &names) } else { simple_valid(&names) };
        versions.push(prev.clone());
        for _ in 0..rng.range(0, 3) {
            let v = match rng.below(6) {
                0 | 1 | 2 => stale_layout(rng, &prev),
                3 => {
                    let big = tier == Tier::Thorough && rng.chance(30);
                    arbitrary(rng, big)
                }
                4 => valid_hostile(rng, &names),
                _ => prev.clone(),
            };
            versions.push(v.clone());
            prev = v;
        }
        docs.push((f.to_string(), versions));
    }
    docs
}

fn hostile_positions(rng: &mut Rng) -> Vec<(u32, u32)> {
    let mut v = vec![(0, 0), (0, u32::MAX), (u32::MAX, 0), (u32::MAX, u32::MAX), (u32::MAX - 1, 7), (1, 1 << 31), (1 << 31, 1)];
    for _ in 0..4 {
        v.push((rng.below(40) as u32, rng.below(60) as u32));
    }
    v
}

impl Scenario for Chaos {
    fn name(&self) -> &'static str {
        if self.full_stack {
            "chaos-lsp"
        } else {
            "chaos-lib"
        }
    }
    fn rule(&self) -> &'static str {
        if self.full_stack {
            "full LSP stack over the simulated transport: workspace with malformed/unreadable/non-UTF-8/symlink-loop files and broken plugin \
             metadata present during the scan; documents go valid -> unparsable with multi-byte layouts (stale recorded spans); every request \
             kind at every recorded span boundary and at hostile positions (u32 extremes, past EOF, inside multi-byte characters); frames \
             fragmented at 1/3/17/64 bytes, coalesced, $/cancelRequest, late/erroring refresh answers, EOF mid-frame; invariants: no panic, \
             exactly one response per request id, probe request answered after the last fault, scan reports completion; non-trivial = at least \
             one fault kind fired and one stale-span query was sent; distinct = input hash x schedule"
        } else {
            "library + real handlers called directly: 1-3 documents x 1-4 versions (hostile-valid, stale multi-byte layouts, arbitrary) analysed \
             in order; after every version every public query and every handler (definition, hover, references, implementation, call hierarchy \
             prepare/incoming/outgoing, completion, code action with stale diagnostics, document/workspace symbols, code lens, inlay hints) at \
             every recorded span boundary and hostile positions; invariant: nothing panics; non-trivial = some version is unparsable after a \
             valid one (stale spans); distinct = input hash"
        }
    }
    fn runs(&self, tier: Tier) -> u64 {
        match (self.full_stack, tier) {
            (false, Tier::Quick) => 2_500,
            (false, Tier::Thorough) => 40_000,
            (true, Tier::Quick) => 500,
            (true, Tier::Thorough) => 8_000,
        }
    }
    fn shrink_paths(&self) -> Vec<&'static str> {
        vec!["/docs", "/docs/*/1", "/positions", "/bad_files"]
    }

    fn gen(&self, run_seed: u64, tier: Tier) -> Value {
        let mut rng = Rng::new(run_seed);
        let docs = gen_docs(&mut rng, tier);
        let positions = hostile_positions(&mut rng);
        let mut sim = SimParams::gen(&mut rng, 4000);
        sim.max_steps = 400_000_000;
        let mut bad_files = vec![];
        if self.full_stack {
            let kinds = ["invalid-utf8", "directory", "dangling-symlink", "symlink-loop", "empty", "bad-entry-points", "bad-direct-url", "bad-pth", "bad-pyproject", "nul-bytes", "non-ascii-dist-info"];
            for k in kinds {
                if rng.chance(300) {
                    let path = match k {
                        "bad-entry-points" => ".venv/lib/python3.11/site-packages/x-1.0.dist-info/entry_points.txt".to_string(),
                        "bad-direct-url" => ".venv/lib/python3.11/site-packages/y-1.0.dist-info/direct_url.json".to_string(),
                        "bad-pth" => ".venv/lib/python3.11/site-packages/__editable__.y-1.0.pth".to_string(),
                        "bad-pyproject" => "pyproject.toml".to_string(),
                        "non-ascii-dist-info" => format!(".venv/lib/python3.11/site-packages/{}-1.0.dist-info/direct_url.json", rng.pick(&["café", "пакет", "包-裹", "a\u{301}b"])),
                        _ => format!("{}test_bad_{}.py", if rng.chance(500) { "sub/" } else { "" }, k.replace('-', "_")),
                    };
                    bad_files.push((path, k.to_string()));
                }
            }
        }
        serde_json::to_value(ChaosInput {
            docs,
            sim,
            positions,
            fragment: if self.full_stack { *rng.pick(&[0usize, 1, 3, 17, 64]) } else { 0 },
            coalesce: self.full_stack && rng.chance(300),
            eof_mid_frame: self.full_stack && rng.chance(300),
            cancel: self.full_stack && rng.chance(300),
            refresh_delay: if self.full_stack { *rng.pick(&[0i32, 2, 30, -3]) } else { 0 },
            bad_files,
            cyclic_seed: None,
            stdout_fault: None,
            run_seed,
            sandbox: None,
        })
        .unwrap()
    }

    fn exec(&self, input: &Value) -> RunOut {
        let mut out = RunOut::default();
        let inp: ChaosInput = match serde_json::from_value(input.clone()) {
            Ok(i) => i,
            Err(e) => {
                out.harness_error = Some(format!("bad input: {}", e));
                return out;
            }
        };
        let sb = Sandbox::acquire(if self.full_stack { "c11f" } else { "c11l" }, inp.run_seed, inp.sandbox.as_deref().map(Path::new));
        let root = sb.root().join("ws");
        std::fs::create_dir_all(&root).unwrap();
        let stale = inp.docs.iter().any(|(_, vs)| vs.windows(2).any(|w| parses(&w[0]) && !parses(&w[1])));
        out.nontrivial = stale;
        out.fingerprint = fnv(&serde_json::to_string(&(&inp.docs, &inp.positions, &inp.bad_files, inp.fragment)).unwrap());
        let i2 = inp.clone();
        let r2 = root.clone();
        let full = self.full_stack;
        let (oc, res) = simrt::run(inp.sim.cfg(replay_list(input, 0)), move || if full { drive_full(&r2, &i2) } else { drive_lib(&r2, &i2) });
        out.absorb_outcome(&oc);
        out.fingerprint = mix(out.fingerprint, if full { oc.log_hash } else { 0 });
        if let Some(a) = &oc.abort {
            if a.kind == simrt::AbortKind::Panic {
                out.violate(&panic_class(&a.detail), format!("panic outside any guarded call: {}", a.detail));
            } else {
                abort_to_violation(&mut out, a, "chaos run");
            }
            return out;
        }
        let Some(res) = res else {
            out.harness_error = Some("no result".into());
            return out;
        };
        out.state_hash = res.hash;
        for (k, v) in res.counters {
            out.count(&k, v);
        }
        for (c, d) in res.violations {
            out.violate(&c, d);
        }
        out
    }
}

fn parses(text: &str) -> bool {
    rustpython_parser::parse(text, rustpython_parser::Mode::Module, "").is_ok()
}

#[derive(Default)]
struct CRes {
    violations: Vec<(String, String)>,
    counters: std::collections::BTreeMap<String, u64>,
    hash: u64,
}
impl CRes {
    fn count(&mut self, k: &str, n: u64) {
        *self.counters.entry(k.to_string()).or_insert(0) += n;
    }
    fn violate(&mut self, class: String, d: String) {
        if !self.violations.iter().any(|(c, _)| *c == class) {
            self.violations.push((class, d));
        }
    }
}

/// positions worth asking about for `file`: recorded span boundaries plus per-line extremes
fn positions_for(db: &FixtureDatabase, root: &Path, file: &str, text: &str, extra: &[(u32, u32)]) -> Vec<(u32, u32)> {
    let mut v: BTreeSet<(u32, u32)> = extra.iter().copied().collect();
    let abs = root.join(file);
    for u in all_usages(db).iter().filter(|u| u.file_path == abs) {
        let l = (u.line.saturating_sub(1)) as u32;
        for c in [u.start_char.saturating_sub(1), u.start_char, (u.start_char + u.end_char) / 2, u.end_char.saturating_sub(1), u.end_char, u.end_char + 1] {
            v.insert((l, c as u32));
        }
    }
    for d in all_defs(db).iter().filter(|d| d.file_path == abs) {
        let l = (d.line.saturating_sub(1)) as u32;
        for c in [0, d.start_char, d.end_char.saturating_sub(1), d.end_char] {
            v.insert((l, c as u32));
        }
        v.insert(((d.end_line.saturating_sub(1)) as u32, 0));
        if let Some(y) = d.yield_line {
            v.insert(((y.saturating_sub(1)) as u32, 4));
        }
    }
    let nlines = text.lines().count() as u32;
    for (i, l) in text.lines().enumerate().take(40) {
        let n = l.chars().count() as u32;
        v.insert((i as u32, n));
        v.insert((i as u32, n.saturating_sub(1)));
        v.insert((i as u32, n / 2));
    }
    v.insert((nlines, 0));
    v.insert((nlines + 3, 2));
    let all: Vec<(u32, u32)> = v.into_iter().collect();
    // a "very large" document (tens of thousands of definitions) has hundreds of thousands of span boundaries, and most
    // requests are linear in the size of the index: ask at an evenly spaced sample of them (first and last included),
    // or one run takes hours
    const MAX_POSITIONS: usize = 800;
    if all.len() > MAX_POSITIONS {
        let step = all.len() as f64 / MAX_POSITIONS as f64;
        let mut out: Vec<(u32, u32)> = (0..MAX_POSITIONS).map(|k| all[((k as f64) * step) as usize]).collect();
        out.push(*all.last().unwrap());
        out.extend(extra.iter().copied());
        out.sort();
        out.dedup();
        return out;
    }
    all
}

fn guarded(res: &mut CRes, ctx: &str, what: &str, f: &mut dyn FnMut()) {
    if let Err(m) = simrt::catch(|| f()) {
        res.violate(panic_class(&m), format!("{} {} panicked: {}", what, ctx, m));
    }
}

fn drive_lib(root: &Path, inp: &ChaosInput) -> CRes {
    let mut res = CRes::default();
    let db = Arc::new(FixtureDatabase::new());
    let lsp = Lsp::new(db.clone(), root);
    let max_versions = inp.docs.iter().map(|d| d.1.len()).max().unwrap_or(0);
    for vi in 0..max_versions {
        for (file, versions) in &inp.docs {
            let Some(text) = versions.get(vi) else { continue };
            let abs = root.join(file);
            res.count("analyses", 1);
            if let Err(m) = simrt::catch(|| db.analyze_file(abs.clone(), text)) {
                res.violate(panic_class(&m), format!("analyze_file({}, version {}) panicked: {}; text={:?}", file, vi, m, super::batch::clip(text, 400)));
                continue;
            }
            if !parses(text) && vi > 0 && parses(&versions[vi - 1]) {
                res.count("fault.stale_spans_after_unparsable_edit", 1);
            }
        }
        // queries over every document in its current state
        for (file, versions) in &inp.docs {
            let text = versions.get(vi.min(versions.len().saturating_sub(1))).cloned().unwrap_or_default();
            let abs = root.join(file);
            let pos = positions_for(&db, root, file, &text, &inp.positions);
            let ctx = format!("on {} (version {})", file, vi);
            for (l, c) in &pos {
                let (l, c) = (*l, *c);
                guarded(&mut res, &ctx, &format!("find_fixture_definition({},{})", l, c), &mut || {
                    let _ = db.find_fixture_definition(&abs, l, c);
                });
                guarded(&mut res, &ctx, &format!("find_fixture_at_position({},{})", l, c), &mut || {
                    let _ = db.find_fixture_at_position(&abs, l, c);
                });
                guarded(&mut res, &ctx, &format!("find_fixture_or_definition_at_position({},{})", l, c), &mut || {
                    let _ = db.find_fixture_or_definition_at_position(&abs, l, c);
                });
                guarded(&mut res, &ctx, &format!("get_completion_context({},{})", l, c), &mut || {
                    let _ = db.get_completion_context(&abs, l, c);
                });
                guarded(&mut res, &ctx, &format!("is_inside_function({},{})", l, c), &mut || {
                    let _ = db.is_inside_function(&abs, l, c);
                });
                guarded(&mut res, &ctx, &format!("hover({},{})", l, c), &mut || {
                    let _ = lsp.hover(file, l, c);
                });
                guarded(&mut res, &ctx, &format!("references({},{})", l, c), &mut || {
                    let _ = lsp.references(file, l, c);
                });
                guarded(&mut res, &ctx, &format!("implementation({},{})", l, c), &mut || {
                    let _ = lsp.implementation(file, l, c);
                });
                guarded(&mut res, &ctx, &format!("completion({},{})", l, c), &mut || {
                    let _ = lsp.completion(file, l, c);
                });
                guarded(&mut res, &ctx, &format!("callHierarchy({},{})", l, c), &mut || {
                    if let Some(item) = lsp.prepare(file, l, c) {
                        let _ = lsp.incoming(&item);
                        let _ = lsp.outgoing(&item);
                    }
                });
                guarded(&mut res, &ctx, &format!("codeAction({},{})", l, c), &mut || {
                    let _ = lsp.code_action(file, &[(l, c, l, c.saturating_add(3))]);
                });
            }
            res.count("position_queries", pos.len() as u64 * 11);
            guarded(&mut res, &ctx, "codeAction(stale diagnostics)", &mut || {
                let ds: Vec<(u32, u32, u32, u32)> = db.get_undeclared_fixtures(&abs).iter().map(|u| ((u.line.saturating_sub(1)) as u32, u.start_char as u32, (u.line.saturating_sub(1)) as u32, u.end_char as u32)).collect();
                if !ds.is_empty() {
                    let _ = lsp.code_action(file, &ds);
                }
            });
            guarded(&mut res, &ctx, "param_insertion_info", &mut || {
                let nl = text.lines().count() + 2;
                let stride = (nl / 3000).max(1);
                for l in (0..nl).step_by(stride).chain([nl.saturating_sub(2), nl.saturating_sub(1)]) {
                    let _ = db.get_function_param_insertion_info(&abs, l);
                    let _ = db.find_containing_function(&abs, l);
                }
            });
            guarded(&mut res, &ctx, "inlayHint", &mut || {
                let _ = lsp.inlay(file);
            });
            guarded(&mut res, &ctx, "codeLens", &mut || {
                let _ = lsp.code_lens(file);
            });
            guarded(&mut res, &ctx, "documentSymbol", &mut || {
                let _ = lsp.document_symbols(file);
            });
            guarded(&mut res, &ctx, "available/cycles/mismatches", &mut || {
                let _ = db.get_available_fixtures(&abs);
                let _ = db.detect_fixture_cycles_in_file(&abs);
                let _ = db.detect_scope_mismatches_in_file(&abs);
            });
        }
        let ctx = format!("(after version {})", vi);
        guarded(&mut res, &ctx, "workspace/symbol", &mut || {
            let _ = lsp.workspace_symbols("");
            let _ = lsp.workspace_symbols("é");
        });
        guarded(&mut res, &ctx, "get_unused_fixtures / references", &mut || {
            let _ = db.get_unused_fixtures();
            // (of a sample of the definitions when there are tens of thousands: see positions_for)
            let defs = all_defs(&db);
            let stride = (defs.len() / 400).max(1);
            for d in defs.iter().step_by(stride) {
                let _ = db.find_references_for_definition(d);
            }
        });
    }
    res.hash = super::dbsnap::map_snap(&db, root).hash();
    let _ = rel(root, root);
    res
}

fn write_bad(root: &Path, path: &str, kind: &str) {
    let p = root.join(path);
    if let Some(d) = p.parent() {
        let _ = std::fs::create_dir_all(d);
    }
    match kind {
        "invalid-utf8" => {
            let _ = std::fs::write(&p, [b'd', b'e', b'f', 0xff, 0xfe, b'\n', 0xc3, 0x28]);
        }
        "directory" => {
            let _ = std::fs::create_dir_all(&p);
        }
        "dangling-symlink" => {
            let _ = std::os::unix::fs::symlink(root.join("does_not_exist.py"), &p);
        }
        "symlink-loop" => {
            let q = root.join("loop_b_test.py");
            let _ = std::os::unix::fs::symlink(&q, &p);
            let _ = std::os::unix::fs::symlink(&p, &q);
        }
        "empty" => {
            let _ = std::fs::write(&p, "");
        }
        "deep-expression" => {
            let mut t = String::from("import pytest\n\n@pytest.fixture\ndef table():\n    return TABLE\n\nTABLE = 1");
            for _ in 0..60_000 {
                t.push_str(" + 1");
            }
            t.push('\n');
            let _ = std::fs::write(&p, t);
        }
        "nul-bytes" => {
            let _ = std::fs::write(&p, "import pytest\n\0\0\0@pytest.fixture\ndef z(): pass\n");
        }
        "bad-entry-points" => {
            let _ = std::fs::write(&p, "[pytest11\nfoo\n=\n = \nx = ..\ny = a..b\nz = /etc/passwd\nw = \u{3000}\n[pytest11]\n=x\nq = :attr\nr = ....\n");
        }
        "bad-direct-url" => {
            let _ = std::fs::write(&p, "{\"dir_info\": {\"editable\": \"yes\"}, \"url\": 3");
        }
        "bad-pth" => {
            let _ = std::fs::write(&p, "import os\n\0\n../..\n/nonexistent/\u{3000}\n\n");
            let _ = std::fs::create_dir_all(root.join(".venv/lib/python3.11/site-packages/y-1.0.dist-info"));
            let _ = std::fs::write(root.join(".venv/lib/python3.11/site-packages/y-1.0.dist-info/direct_url.json"), "{\"dir_info\": {\"editable\": true}, \"url\": \"file:///x\"}");
        }
        "non-ascii-dist-info" => {
            // an editable install whose distribution name is not ASCII (plus a plausible .pth and entry point)
            let _ = std::fs::write(&p, "{\"dir_info\": {\"editable\": true}, \"url\": \"file:///nowhere\"}");
            if let Some(d) = p.parent() {
                let _ = std::fs::write(d.join("entry_points.txt"), "[pytest11]\nx = x_plugin\n");
            }
        }
        "bad-pyproject" => {
            let _ = std::fs::write(&p, "[tool.pytest-language-server]\nexclude = [\"[\", 3]\ndisabled_diagnostics = \"all\"\n[[[\n");
        }
        _ => {}
    }
}

fn drive_full(root: &Path, inp: &ChaosInput) -> CRes {
    let mut res = CRes::default();
    // the on-disk workspace: first version of every document plus the bad files
    let mut well_formed: Vec<String> = vec![];
    for (file, versions) in &inp.docs {
        let p = root.join(file);
        if let Some(d) = p.parent() {
            let _ = std::fs::create_dir_all(d);
        }
        if let Some(t) = versions.first() {
            let _ = std::fs::write(&p, t);
            well_formed.push(file.clone());
        }
    }
    for (path, kind) in &inp.bad_files {
        write_bad(root, path, kind);
        res.count(&format!("fault.scan_meets_{}", kind.replace('-', "_")), 1);
    }
    let mut srv = LspServer::start(root);
    srv.refresh_policy = if inp.refresh_delay >= 0 { RefreshPolicy::AnswerAfter(inp.refresh_delay as u32) } else { RefreshPolicy::ErrorAfter((-inp.refresh_delay) as u32) };
    let id = srv.initialize();
    if srv.await_response(id, 400).is_none() {
        res.violate(srv.server_panic.as_deref().map(panic_class).unwrap_or("chaos-no-response".into()), format!("no response to initialize; panic={:?}", srv.server_panic));
        return res;
    }
    srv.notify("initialized", json!({}));
    srv.steps(3);
    srv.join_scan();
    if !srv.settle(3, 5000) || !srv.scan_complete_seen() {
        res.violate(srv.server_panic.as_deref().map(panic_class).unwrap_or("chaos-scan-did-not-complete".into()), format!("scan completion not reported; panic={:?} logs={:?}", srv.server_panic, srv.log_messages));
        return res;
    }
    if let Some(m) = srv.log_messages.iter().find(|m| m.contains("Workspace scan failed")) {
        res.violate(panic_class(m), format!("one malformed file aborted the workspace scan: {}", m));
    }
    // every well-formed file was indexed although bad ones were present
    for f in &well_formed {
        if f.ends_with("conftest.py") || f.rsplit('/').next().map(|n| n.starts_with("test_")).unwrap_or(false) {
            if !srv.db.file_cache.contains_key(&root.join(f)) {
                res.violate("chaos-wellformed-file-not-indexed".into(), format!("{} was not indexed by the scan (bad files present: {:?})", f, inp.bad_files));
            }
        }
    }
    let mut sent: Vec<i64> = vec![];
    let mut cancelled: BTreeSet<i64> = BTreeSet::new();
    let max_versions = inp.docs.iter().map(|d| d.1.len()).max().unwrap_or(0);
    let mut frags = 0u64;
    for vi in 0..max_versions {
        for (file, versions) in &inp.docs {
            let Some(text) = versions.get(vi) else { continue };
            let uri = srv.uri(file);
            let msg = if vi == 0 {
                json!({"jsonrpc": "2.0", "method": "textDocument/didOpen", "params": {"textDocument": {"uri": uri, "languageId": "python", "version": 1, "text": text}}})
            } else {
                json!({"jsonrpc": "2.0", "method": "textDocument/didChange", "params": {"textDocument": {"uri": uri, "version": vi + 1}, "contentChanges": super::lspdrv::content_changes(&text)}})
            };
            send(&mut srv, &frame(&msg), inp.fragment, &mut frags);
            if !parses(text) && vi > 0 && parses(&versions[vi - 1]) {
                res.count("fault.stale_spans_after_unparsable_edit", 1);
            }
        }
        srv.settle(2, 3000);
        if let Some(p) = &srv.server_panic {
            res.violate(panic_class(p), format!("server panicked while handling document versions {}: {}", vi, p));
            return res;
        }
        for (file, versions) in &inp.docs {
            let text = versions.get(vi.min(versions.len().saturating_sub(1))).cloned().unwrap_or_default();
            let uri = srv.uri(file);
            let db = srv.db.clone();
            let pos = positions_for(&db, root, file, &text, &inp.positions);
            let mut batch: Vec<u8> = vec![];
            for (k, (l, c)) in pos.iter().enumerate() {
                let tdp = json!({"textDocument": {"uri": uri}, "position": {"line": l, "character": c}});
                let methods: [(&str, Value); 6] = [
                    ("textDocument/definition", tdp.clone()),
                    ("textDocument/hover", tdp.clone()),
                    ("textDocument/references", { let mut t = tdp.clone(); t["context"] = json!({"includeDeclaration": true}); t }),
                    ("textDocument/implementation", tdp.clone()),
                    ("textDocument/prepareCallHierarchy", tdp.clone()),
                    ("textDocument/completion", tdp.clone()),
                ];
                let (m, p) = &methods[k % methods.len()];
                let (id, bytes) = srv.request_bytes(m, p.clone());
                sent.push(id);
                if inp.coalesce {
                    batch.extend(bytes);
                    if batch.len() > 4000 {
                        send(&mut srv, &batch, inp.fragment, &mut frags);
                        batch.clear();
                        res.count("fault.frames_coalesced", 1);
                    }
                } else {
                    send(&mut srv, &bytes, inp.fragment, &mut frags);
                }
                if inp.cancel && k % 5 == 0 {
                    let c = frame(&json!({"jsonrpc": "2.0", "method": "$/cancelRequest", "params": {"id": id}}));
                    srv.send_raw(&c);
                    cancelled.insert(id);
                    res.count("fault.cancel_request", 1);
                }
            }
            if !batch.is_empty() {
                send(&mut srv, &batch, inp.fragment, &mut frags);
            }
            // whole-document requests, code action with the diagnostics the client last received
            let diags = srv.diagnostics.get(&uri).map(|d| d.0.clone()).unwrap_or(json!([]));
            for (m, p) in [
                ("textDocument/documentSymbol", json!({"textDocument": {"uri": uri}})),
                ("textDocument/codeLens", json!({"textDocument": {"uri": uri}})),
                ("textDocument/inlayHint", json!({"textDocument": {"uri": uri}, "range": {"start": {"line": 0, "character": 0}, "end": {"line": u32::MAX, "character": u32::MAX}}})),
                ("textDocument/codeAction", json!({"textDocument": {"uri": uri}, "range": {"start": {"line": 0, "character": 0}, "end": {"line": 0, "character": 0}}, "context": {"diagnostics": diags}})),
                ("workspace/symbol", json!({"query": ""})),
            ] {
                let (id, bytes) = srv.request_bytes(m, p);
                sent.push(id);
                send(&mut srv, &bytes, inp.fragment, &mut frags);
            }
            srv.settle(2, 6000);
            if let Some(p) = &srv.server_panic {
                res.violate(panic_class(p), format!("server panicked answering requests on {} (version {}): {}", file, vi, p));
                return res;
            }
        }
    }
    res.count("fault.transport_fragments", frags);
    res.count("requests_sent", sent.len() as u64);
    // exactly one response per request id
    let settled = srv.settle(3, 20000);
    for id in &sent {
        let n = srv.responses.get(id).map(|r| r.len()).unwrap_or(0);
        if n != 1 {
            if std::env::var("PLSIM_DEBUG").is_ok() {
                for m in srv.inbox.iter().rev().take(6) {
                    eprintln!("INBOX {}", super::batch::clip(&m.to_string(), 300));
                }
                let c: Vec<(i64, usize)> = cancelled.iter().map(|i| (*i, srv.responses.get(i).map(|r| r.len()).unwrap_or(0))).collect();
                eprintln!("CANCELLED {:?}", c);
                eprintln!("LOGS {:?}", srv.log_messages);
            }
            res.violate("chaos-response-count".into(), format!("request id {} received {} responses (cancelled: {}); quiescent={} requests sent={} responses received={} input bytes pending={} refresh requests={} server finished={}", id, n, cancelled.contains(id), settled, sent.len(), srv.responses.len(), srv.cin.pending(), srv.refresh_requests, srv.finished));
            break;
        }
    }
    if let Some(m) = &srv.malformed_output {
        res.violate("chaos-malformed-output".into(), m.clone());
    }
    // bounded liveness after the last fault
    let probe = srv.request("workspace/symbol", json!({"query": ""}));
    if srv.await_response(probe, 2000).is_none() {
        res.violate(srv.server_panic.as_deref().map(panic_class).unwrap_or("chaos-wedged".into()), format!("probe request after the last fault was not answered within 2000 driver steps; panic={:?} refresh requests={}", srv.server_panic, srv.refresh_requests));
    }
    if inp.eof_mid_frame {
        let (_, bytes) = srv.request_bytes("workspace/symbol", json!({"query": "x"}));
        srv.send_raw(&bytes[..bytes.len() / 2]);
        srv.cin.close();
        srv.steps(50);
        res.count("fault.eof_mid_frame", 1);
        if let Some(p) = &srv.server_panic {
            res.violate(panic_class(p), format!("server panicked on EOF in the middle of a frame: {}", p));
        }
    }
    res.hash = fnv(&format!("{:?}", srv.responses.len()));
    res
}

fn send(srv: &mut LspServer, bytes: &[u8], frag: usize, count: &mut u64) {
    let before = srv.fragments_sent;
    srv.send_fragmented(bytes, frag, 8);
    *count += srv.fragments_sent - before;
}

/// C12 / C11 liveness under pipelining: a conforming client that answers every server request at once, but writes a
/// burst of didChange notifications before it reads anything (an editor replaying queued edits, a slow pipe).
pub struct Burst;

#[derive(Clone, Debug, Serialize, Deserialize)]
pub struct BurstInput {
    pub sim: SimParams,
    pub n: usize,
    pub run_seed: u64,
    #[serde(default)]
    pub sandbox: Option<String>,
}

impl Scenario for Burst {
    fn name(&self) -> &'static str {
        "burst"
    }
    fn rule(&self) -> &'static str {
        "full LSP stack on a small workspace; after the scan the client writes n (20-160) didChange notifications for one document \
         back to back, then reads and answers every workspace/inlayHint/refresh request immediately; afterwards a documentSymbol request \
         must be answered within the step budget; non-trivial = n exceeds the framework's queue (100) plus its handler slots (4); distinct = n x schedule"
    }
    fn runs(&self, tier: Tier) -> u64 {
        match tier {
            Tier::Quick => 60,
            Tier::Thorough => 2_000,
        }
    }
    fn shrink_paths(&self) -> Vec<&'static str> {
        vec![]
    }
    fn gen(&self, run_seed: u64, _tier: Tier) -> Value {
        let mut rng = Rng::new(run_seed);
        let mut sim = SimParams::gen(&mut rng, 4000);
        sim.max_steps = 200_000_000;
        let n = if rng.chance(600) { rng.range(104, 160) } else { rng.range(20, 103) };
        serde_json::to_value(BurstInput { sim, n, run_seed, sandbox: None }).unwrap()
    }
    fn exec(&self, input: &Value) -> RunOut {
        let mut out = RunOut::default();
        let inp: BurstInput = match serde_json::from_value(input.clone()) {
            Ok(i) => i,
            Err(e) => {
                out.harness_error = Some(format!("bad input: {}", e));
                return out;
            }
        };
        let sb = Sandbox::acquire("c12b", inp.run_seed, inp.sandbox.as_deref().map(Path::new));
        let root = sb.root().join("ws");
        let _ = std::fs::create_dir_all(&root);
        let names = names_pool(3);
        let texts = [simple_valid(&names), format!("{}\n# edited\n", simple_valid(&names))];
        let _ = std::fs::write(root.join("conftest.py"), &texts[0]);
        let _ = std::fs::write(root.join("test_a.py"), "def test_a(alpha):\n    pass\n");
        let n = inp.n;
        let r2 = root.clone();
        let (oc, res) = simrt::run(inp.sim.cfg(replay_list(input, 0)), move || {
            let mut srv = LspServer::start(&r2);
            srv.refresh_policy = RefreshPolicy::AnswerAfter(0);
            let id = srv.initialize();
            if srv.await_response(id, 300).is_none() {
                return Err(format!("no response to initialize: {:?}", srv.server_panic));
            }
            srv.notify("initialized", json!({}));
            srv.steps(3);
            srv.join_scan();
            if !srv.settle(3, 3000) {
                return Err("scan did not settle".to_string());
            }
            srv.did_open("conftest.py", &texts[0], 1);
            srv.settle(3, 2000);
            for i in 0..n {
                srv.did_change("conftest.py", &texts[(i + 1) % 2], (i + 2) as i64);
            }
            let quiet = srv.settle(3, 60_000);
            let id = srv.request("textDocument/documentSymbol", json!({"textDocument": {"uri": srv.uri("conftest.py")}}));
            let answered = srv.await_response(id, 20_000).is_some();
            Ok((quiet, answered, srv.refresh_requests))
        });
        out.absorb_outcome(&oc);
        out.fingerprint = mix(inp.n as u64, oc.log_hash);
        out.nontrivial = inp.n > 104;
        if let Some(a) = &oc.abort {
            abort_to_violation(&mut out, a, "burst of notifications");
            return out;
        }
        match res {
            Some(Ok((quiet, answered, refreshes))) => {
                out.count("fault.pipelined_did_change_notifications", inp.n as u64);
                out.count("probe.refresh_requests_answered_at_once", refreshes as u64);
                if !answered {
                    out.violate("server-wedged-by-pipelined-notifications", format!("after {} didChange notifications written back to back (every refresh request answered at once), a documentSymbol request is never answered (quiescent before the request: {})", inp.n, quiet));
                }
            }
            Some(Err(e)) => out.violate("burst-server-failure", e),
            None => out.harness_error = Some("no result".into()),
        }
        out
    }
}
