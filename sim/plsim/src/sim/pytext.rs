//! Python test-file values and their renderer.  A file is a list of items (the generator's
//! ground truth); rendering produces ASCII text using only documented forms and records the
//! (line, column span) of every definition-name and usage token, so positions are known without
//! parsing.

use super::util::Rng;
use serde::{Deserialize, Serialize};

pub const SCOPES: [&str; 5] = ["function", "class", "module", "package", "session"];

#[derive(Clone, Debug, Serialize, Deserialize, PartialEq, Default)]
pub struct Fx {
    pub func: String,
    #[serde(default)]
    pub alias: Option<String>,
    #[serde(default)]
    pub scope: u8,
    #[serde(default)]
    pub autouse: bool,
    #[serde(default)]
    pub deps: Vec<String>,
    #[serde(default)]
    pub generator: bool,
    #[serde(default)]
    pub ret: Option<String>,
    /// 0 `@pytest.fixture`, 1 `@pytest.fixture(...)` always called, 2 assignment style
    #[serde(default)]
    pub style: u8,
    #[serde(default)]
    pub in_class: bool,
    #[serde(default)]
    pub doc: Option<String>,
    /// names used in the body without being parameters
    #[serde(default)]
    pub body_uses: Vec<String>,
    /// signature spread over several lines, one parameter per line
    #[serde(default)]
    pub multiline: bool,
    /// parameters with a default value (`name=1`): pytest never injects a fixture there
    #[serde(default)]
    pub defaults: Vec<String>,
}

impl Fx {
    pub fn name(&self) -> &str {
        self.alias.as_deref().unwrap_or(&self.func)
    }
}

#[derive(Clone, Debug, Serialize, Deserialize, PartialEq, Default)]
pub struct Tst {
    pub name: String,
    #[serde(default)]
    pub params: Vec<String>,
    #[serde(default)]
    pub usefixtures: Vec<String>,
    #[serde(default)]
    pub indirect: Vec<String>,
    #[serde(default)]
    pub in_class: bool,
    #[serde(default)]
    pub body_uses: Vec<String>,
    #[serde(default)]
    pub multiline: bool,
    #[serde(default)]
    pub defaults: Vec<String>,
}

#[derive(Clone, Debug, Serialize, Deserialize, PartialEq)]
pub enum Item {
    Fixture(Fx),
    Test(Tst),
    /// `from <module> import *`; `target` = workspace-relative path of the module file the
    /// generator means (ground truth for the reference model)
    Star {
        module: String,
        #[serde(default)]
        target: Option<String>,
    },
    /// `from <module> import a, b`
    Import {
        module: String,
        names: Vec<String>,
        #[serde(default)]
        target: Option<String>,
    },
    /// `pytest_plugins = [...]`
    Plugins {
        modules: Vec<String>,
        #[serde(default)]
        targets: Vec<Option<String>>,
    },
    /// `pytestmark = pytest.mark.usefixtures(...)`
    Mark { names: Vec<String> },
    /// verbatim text (must end with a newline)
    Raw { text: String },
}

#[derive(Clone, Debug, Serialize, Deserialize, PartialEq)]
pub struct PyFile {
    /// path relative to the workspace root
    pub rel: String,
    pub items: Vec<Item>,
}

#[derive(Clone, Debug, PartialEq)]
pub enum TokKind {
    /// the function / assignment name of a fixture definition
    Def,
    TestParam,
    FixtureParam,
    Usefixtures,
    Pytestmark,
    Indirect,
    /// a plain use in a body (undeclared-fixture candidate); not a recorded usage
    BodyUse,
}

#[derive(Clone, Debug)]
pub struct Tok {
    pub kind: TokKind,
    pub name: String,
    /// 1-based
    pub line: usize,
    pub start: usize,
    pub end: usize,
    /// index of the item in the file
    pub item: usize,
    /// for a usage inside a fixture: that fixture's (name, def line)
    pub in_fixture: Option<(String, usize)>,
}

#[derive(Clone, Debug, Default)]
pub struct Rendered {
    pub text: String,
    pub toks: Vec<Tok>,
    /// (fixture name, def line, item index)
    pub defs: Vec<(String, usize, usize)>,
}

struct W {
    text: String,
    line: usize,
}
impl W {
    fn ln(&mut self, s: &str) {
        self.text.push_str(s);
        self.text.push('\n');
        self.line += 1;
    }
}

/// LSP columns count UTF-16 code units
fn u16len(s: &str) -> usize {
    s.encode_utf16().count()
}

fn param_list(w_line_prefix: &str, names: &[String], leading_self: bool, defaults: &[String]) -> (String, Vec<(String, usize, usize)>) {
    // returns the text "(a, b)" positions relative to the whole line
    let mut s = String::from(w_line_prefix);
    s.push('(');
    let mut spans = vec![];
    let mut first = true;
    if leading_self {
        s.push_str("self");
        first = false;
    }
    for n in names {
        if !first {
            s.push_str(", ");
        }
        first = false;
        let st = u16len(&s);
        s.push_str(n);
        spans.push((n.clone(), st, u16len(&s)));
    }
    for d in defaults {
        if !first {
            s.push_str(", ");
        }
        first = false;
        s.push_str(&format!("{}=1", d));
    }
    s.push(')');
    (s, spans)
}

/// `def f(` / one parameter per line / `)`: returns the lines and, per parameter, (name, line offset, start, end).
fn param_lines(prefix: &str, ind: &str, names: &[String], leading_self: bool, defaults: &[String]) -> (Vec<String>, Vec<(String, usize, usize, usize)>) {
    let mut lines = vec![format!("{}(", prefix)];
    let mut spans = vec![];
    if leading_self {
        lines.push(format!("{}    self,", ind));
    }
    for n in names {
        let st = ind.len() + 4;
        spans.push((n.clone(), lines.len(), st, st + n.len()));
        lines.push(format!("{}    {},", ind, n));
    }
    for d in defaults {
        lines.push(format!("{}    {}=1,", ind, d));
    }
    lines.push(format!("{})", ind));
    (lines, spans)
}

/// An import statement; for some module names (a function of the name) it sits inside a module-level
/// `try: ... except ImportError: raise` or `if True:` block, as optional-dependency imports in real conftests do.
fn guarded_import(w: &mut W, module: &str, stmt: &str) {
    // `from .fast_impl_N import x` with a fallback to `.slow_impl_N` in the except branch: the import that binds is the
    // one in the try body (the module exists)
    if let Some(rest) = module.strip_prefix(".fast_impl_") {
        w.ln("try:");
        w.ln(&format!("    {}", stmt));
        w.ln("except ImportError:");
        w.ln(&format!("    {}", stmt.replace(&format!(".fast_impl_{}", rest), &format!(".slow_impl_{}", rest))));
        return;
    }
    match module.bytes().map(|b| b as usize).sum::<usize>() % 9 {
        0 => {
            w.ln("try:");
            w.ln(&format!("    {}", stmt));
            w.ln("except ImportError:");
            w.ln("    raise");
        }
        1 => {
            w.ln("if True:");
            w.ln(&format!("    {}", stmt));
        }
        _ => w.ln(stmt),
    }
}

pub fn render(items: &[Item]) -> Rendered {
    let mut w = W { text: String::new(), line: 1 };
    let mut out = Rendered::default();
    if let [Item::Raw { text }] = items {
        // a file given verbatim (real-world corpus)
        out.text = text.clone();
        return out;
    }
    w.ln("import pytest");
    for (idx, it) in items.iter().enumerate() {
        match it {
            Item::Raw { text } => {
                for l in text.split_inclusive('\n') {
                    w.text.push_str(l);
                    if l.ends_with('\n') {
                        w.line += 1;
                    }
                }
                if !text.ends_with('\n') && !text.is_empty() {
                    w.ln("");
                }
            }
            Item::Star { module, .. } => guarded_import(&mut w, module, &format!("from {} import *", module)),
            Item::Import { module, names, .. } => {
                if !names.is_empty() {
                    guarded_import(&mut w, module, &format!("from {} import {}", module, names.join(", ")))
                }
            }
            Item::Plugins { modules, .. } => {
                // the spelling is a function of the content (list, tuple, bare string, annotated assignment)
                let q: Vec<String> = modules.iter().map(|m| format!("\"{}\"", m)).collect();
                let form = modules.iter().map(|m| m.len()).sum::<usize>() % 8;
                match form {
                    0 => w.ln(&format!("pytest_plugins = ({},)", q.join(", "))),
                    1 if modules.len() == 1 => w.ln(&format!("pytest_plugins = {}", q[0])),
                    // one string: pytest splits it at commas
                    1 => w.ln(&format!("pytest_plugins = \"{}\"", modules.join(", "))),
                    2 => w.ln(&format!("pytest_plugins: list[str] = [{}]", q.join(", "))),
                    // built in two steps
                    5 if modules.len() >= 2 => {
                        w.ln(&format!("pytest_plugins = [{}]", q[0]));
                        w.ln(&format!("pytest_plugins += [{}]", q[1..].join(", ")));
                    }
                    6 if modules.len() >= 2 => w.ln(&format!("pytest_plugins = [{}] + [{}]", q[0], q[1..].join(", "))),
                    _ => w.ln(&format!("pytest_plugins = [{}]", q.join(", "))),
                }
            }
            Item::Mark { names } => {
                let mut s = String::from("pytestmark = pytest.mark.usefixtures(");
                for (i, n) in names.iter().enumerate() {
                    if i > 0 {
                        s.push_str(", ");
                    }
                    s.push('"');
                    let st = s.len();
                    s.push_str(n);
                    out.toks.push(Tok { kind: TokKind::Pytestmark, name: n.clone(), line: w.line, start: st, end: s.len(), item: idx, in_fixture: None });
                    s.push('"');
                }
                s.push(')');
                w.ln(&s);
            }
            Item::Fixture(f) => {
                // some fixtures (a function of the name) are defined inside a module-level `if` / `try` block:
                // version-dependent or optional fixtures of real conftest files
                // (switched off: the repository's own suite pins "fixtures inside an if block are not detected" as a known
                // limitation - tests/test_fixtures.rs::test_fixture_inside_if_block_not_supported - so neither a repair nor
                // an alarm is possible here; DESIGN.md §17.3)
                let guarded = false && !f.in_class && f.style != 2 && f.func.bytes().map(|b| b as usize).sum::<usize>() % 11 == 0;
                let ind = if f.in_class || guarded { "    " } else { "" };
                if f.in_class {
                    w.ln("");
                    w.ln(&format!("class TestFx_{}:", f.func));
                } else if guarded {
                    w.ln("");
                    w.ln(if f.func.len() % 2 == 0 { "if True:" } else { "try:" });
                } else {
                    w.ln("");
                }
                if f.style == 2 {
                    // assignment style: name = pytest.fixture()(_impl)
                    w.ln(&format!("{}def _impl_{}():", ind, f.func));
                    w.ln(&format!("{}    return 0", ind));
                    // scope / autouse are arguments of the inner call here
                    let mut a: Vec<String> = vec![];
                    if f.scope != 0 {
                        a.push(format!("scope=\"{}\"", SCOPES[(f.scope as usize).min(4)]));
                    }
                    if f.autouse {
                        a.push("autouse=True".to_string());
                    }
                    let line = format!("{}{} = pytest.fixture({})(_impl_{})", ind, f.func, a.join(", "), f.func);
                    let st = ind.len();
                    out.toks.push(Tok { kind: TokKind::Def, name: f.func.clone(), line: w.line, start: st, end: st + f.func.len(), item: idx, in_fixture: None });
                    out.defs.push((f.func.clone(), w.line, idx));
                    w.ln(&line);
                    continue;
                }
                let mut args: Vec<String> = vec![];
                if let Some(a) = &f.alias {
                    args.push(format!("name=\"{}\"", a));
                }
                // pytest-asyncio's loop_scope= is not the fixture's scope (for some names, a function of the name)
                if f.func.bytes().map(|b| b as usize).sum::<usize>() % 7 == 0 {
                    args.push(format!("loop_scope=\"{}\"", SCOPES[(f.func.len() % 4) + 1]));
                }
                if f.scope != 0 {
                    args.push(format!("scope=\"{}\"", SCOPES[(f.scope as usize).min(4)]));
                }
                if f.autouse {
                    args.push("autouse=True".to_string());
                }
                if args.is_empty() && f.style == 0 {
                    w.ln(&format!("{}@pytest.fixture", ind));
                } else {
                    w.ln(&format!("{}@pytest.fixture({})", ind, args.join(", ")));
                }
                let def_line = w.line;
                let prefix = format!("{}def {}", ind, f.func);
                let name_start = ind.len() + 4;
                out.toks.push(Tok { kind: TokKind::Def, name: f.name().to_string(), line: def_line, start: name_start, end: name_start + f.func.len(), item: idx, in_fixture: None });
                out.defs.push((f.name().to_string(), def_line, idx));
                if f.multiline && !f.deps.is_empty() {
                    let (mut lines, spans) = param_lines(&prefix, ind, &f.deps, f.in_class, &f.defaults.iter().filter(|d| !f.deps.contains(d)).cloned().collect::<Vec<_>>());
                    if let Some(r) = &f.ret {
                        lines.last_mut().unwrap().push_str(&format!(" -> {}", r));
                    }
                    lines.last_mut().unwrap().push(':');
                    for (n, off, s, e) in spans {
                        out.toks.push(Tok { kind: TokKind::FixtureParam, name: n, line: def_line + off, start: s, end: e, item: idx, in_fixture: Some((f.name().to_string(), def_line)) });
                    }
                    for l in &lines {
                        w.ln(l);
                    }
                } else {
                    let (mut sig, spans) = param_list(&prefix, &f.deps, f.in_class, &f.defaults.iter().filter(|d| !f.deps.contains(d)).cloned().collect::<Vec<_>>());
                    if let Some(r) = &f.ret {
                        sig.push_str(&format!(" -> {}", r));
                    }
                    sig.push(':');
                    for (n, s, e) in spans {
                        out.toks.push(Tok { kind: TokKind::FixtureParam, name: n, line: def_line, start: s, end: e, item: idx, in_fixture: Some((f.name().to_string(), def_line)) });
                    }
                    w.ln(&sig);
                }
                if let Some(d) = &f.doc {
                    w.ln(&format!("{}    \"\"\"{}\"\"\"", ind, d));
                }
                for u in &f.body_uses {
                    let l = format!("{}    _ = {}", ind, u);
                    let st = ind.len() + 8;
                    out.toks.push(Tok { kind: TokKind::BodyUse, name: u.clone(), line: w.line, start: st, end: st + u.len(), item: idx, in_fixture: None });
                    w.ln(&l);
                }
                if f.generator {
                    w.ln(&format!("{}    yield 1", ind));
                } else {
                    w.ln(&format!("{}    return 1", ind));
                }
                if guarded && f.func.len() % 2 == 1 {
                    w.ln("except ImportError:");
                    w.ln("    pass");
                }
            }
            Item::Test(t) => {
                let ind = if t.in_class { "    " } else { "" };
                w.ln("");
                if t.in_class {
                    w.ln(&format!("class Test_{}:", t.name));
                }
                if !t.usefixtures.is_empty() {
                    let mut s = format!("{}@pytest.mark.usefixtures(", ind);
                    for (i, n) in t.usefixtures.iter().enumerate() {
                        if i > 0 {
                            s.push_str(", ");
                        }
                        s.push('"');
                        let st = s.len();
                        s.push_str(n);
                        out.toks.push(Tok { kind: TokKind::Usefixtures, name: n.clone(), line: w.line, start: st, end: s.len(), item: idx, in_fixture: None });
                        s.push('"');
                    }
                    s.push(')');
                    w.ln(&s);
                }
                // the spelling is a function of the content
                let iform = (t.indirect.iter().map(|n| n.len()).sum::<usize>() + t.params.len()) % 5;
                if !t.indirect.is_empty() && iform == 2 {
                    // @pytest.mark.parametrize(("a", "b"), [(1, 2)], indirect=True): a tuple of names
                    let vals: Vec<&str> = t.indirect.iter().map(|_| "1").collect();
                    let mut s = format!("{}@pytest.mark.parametrize((", ind);
                    for n in t.indirect.iter() {
                        s.push('"');
                        let st = u16len(&s);
                        s.push_str(n);
                        out.toks.push(Tok { kind: TokKind::Indirect, name: n.clone(), line: w.line, start: st, end: u16len(&s), item: idx, in_fixture: None });
                        s.push_str("\", ");
                    }
                    s.push_str(&format!("), [({},)], indirect=True)", vals.join(", ")));
                    w.ln(&s);
                } else if !t.indirect.is_empty() && (iform == 0 || iform == 4) {
                    // @pytest.mark.parametrize("a, b", [(1, 2)], indirect=True): the names live inside ONE string
                    // (iform 4: given by keyword)
                    let vals: Vec<&str> = t.indirect.iter().map(|_| "1").collect();
                    let mut s = if iform == 4 { format!("{}@pytest.mark.parametrize(argnames=\"", ind) } else { format!("{}@pytest.mark.parametrize(\"", ind) };
                    // blanks around the commas and before the closing quote are legal (pytest strips every name)
                    let loose = t.params.len() % 2 == 1;
                    for (i, n) in t.indirect.iter().enumerate() {
                        if i > 0 {
                            s.push_str(if loose { " ,  " } else { ", " });
                        }
                        let st = u16len(&s);
                        s.push_str(n);
                        out.toks.push(Tok { kind: TokKind::Indirect, name: n.clone(), line: w.line, start: st, end: u16len(&s), item: idx, in_fixture: None });
                    }
                    if loose {
                        s.push(' ');
                    }
                    if iform == 4 {
                        s.push_str(&format!("\", argvalues=[({},)], indirect=True)", vals.join(", ")));
                    } else {
                        s.push_str(&format!("\", [({},)], indirect=True)", vals.join(", ")));
                    }
                    w.ln(&s);
                } else if !t.indirect.is_empty() {
                    // @pytest.mark.parametrize("a,b", [(1, 2)], indirect=["a", "b"])   (iform 3: indirect=("a", "b",))
                    let argnames = t.indirect.join(",");
                    let vals: Vec<&str> = t.indirect.iter().map(|_| "1").collect();
                    let (open, close) = if iform == 3 { ("(", ",)") } else { ("[", "]") };
                    let mut s = format!("{}@pytest.mark.parametrize(\"{}\", [({},)], indirect={}", ind, argnames, vals.join(", "), open);
                    for (i, n) in t.indirect.iter().enumerate() {
                        if i > 0 {
                            s.push_str(", ");
                        }
                        s.push('"');
                        let st = s.len();
                        s.push_str(n);
                        out.toks.push(Tok { kind: TokKind::Indirect, name: n.clone(), line: w.line, start: st, end: s.len(), item: idx, in_fixture: None });
                        s.push('"');
                    }
                    s.push_str(close);
                    s.push(')');
                    w.ln(&s);
                }
                let prefix = format!("{}def {}", ind, t.name);
                if t.multiline && !t.params.is_empty() {
                    let (mut lines, spans) = param_lines(&prefix, ind, &t.params, t.in_class, &t.defaults.iter().filter(|d| !t.params.contains(d)).cloned().collect::<Vec<_>>());
                    lines.last_mut().unwrap().push(':');
                    for (n, off, s, e) in spans {
                        out.toks.push(Tok { kind: TokKind::TestParam, name: n, line: w.line + off, start: s, end: e, item: idx, in_fixture: None });
                    }
                    for l in &lines {
                        w.ln(l);
                    }
                } else {
                    let (mut sig, spans) = param_list(&prefix, &t.params, t.in_class, &t.defaults.iter().filter(|d| !t.params.contains(d)).cloned().collect::<Vec<_>>());
                    sig.push(':');
                    for (n, s, e) in spans {
                        out.toks.push(Tok { kind: TokKind::TestParam, name: n, line: w.line, start: s, end: e, item: idx, in_fixture: None });
                    }
                    w.ln(&sig);
                }
                for u in &t.body_uses {
                    let l = format!("{}    _ = {}", ind, u);
                    let st = ind.len() + 8;
                    out.toks.push(Tok { kind: TokKind::BodyUse, name: u.clone(), line: w.line, start: st, end: st + u.len(), item: idx, in_fixture: None });
                    w.ln(&l);
                }
                w.ln(&format!("{}    pass", ind));
            }
        }
    }
    out.text = w.text;
    out
}

#[derive(Clone, Debug)]
pub struct GenOpts {
    pub max_fixtures: usize,
    pub max_tests: usize,
    pub self_dep_per_mille: u32,
    /// a second definition of a name in one file is, with this chance, the override of it in the body of a test class
    pub class_override_per_mille: u32,
    pub dup_names: bool,
    pub scopes: bool,
    pub alias: bool,
    pub in_class: bool,
    pub marks: bool,
    pub body_uses: bool,
    pub assign_style: bool,
    /// dependencies only point to names later in the pool: no dependency cycle can arise
    pub acyclic: bool,
    /// signatures spread over several lines
    pub multiline_per_mille: u32,
    /// fixture functions may be called test_<something> (test_client, test_db, ...)
    pub test_prefixed_fixtures: bool,
    /// test functions may carry non-ASCII names (`def test_caf\u{e9}(fix)`): columns right of them differ in bytes and UTF-16 units
    pub unicode_test_names_per_mille: u32,
}

impl Default for GenOpts {
    fn default() -> Self {
        GenOpts { max_fixtures: 3, max_tests: 2, self_dep_per_mille: 150, class_override_per_mille: 0, dup_names: false, scopes: true, alias: true, in_class: true, marks: true, body_uses: true, assign_style: true, acyclic: false, multiline_per_mille: 120, test_prefixed_fixtures: true, unicode_test_names_per_mille: 0 }
    }
}

fn subset(rng: &mut Rng, names: &[String], max: usize) -> Vec<String> {
    let k = rng.below(max + 1);
    let mut pool: Vec<String> = names.to_vec();
    rng.shuffle(&mut pool);
    pool.truncate(k.min(names.len()));
    pool
}

/// Random items for one file over a small shared name pool (collisions are the norm).
pub fn gen_items(rng: &mut Rng, names: &[String], is_test_file: bool, o: &GenOpts) -> Vec<Item> {
    let mut items = vec![];
    let nf = rng.below(o.max_fixtures + 1);
    let mut used: Vec<String> = vec![];
    for _ in 0..nf {
        let func = rng.pick(names).clone();
        if !o.dup_names && used.contains(&func) {
            continue;
        }
        // a second definition of a name already defined in this file: often the override of it in a test class
        let is_dup = used.contains(&func);
        used.push(func.clone());
        let mut deps: Vec<String> = subset(rng, names, 2).into_iter().filter(|d| *d != func).collect();
        if o.acyclic {
            let pos = |n: &String| names.iter().position(|x| x == n).unwrap_or(0);
            let me = pos(&func);
            deps.retain(|d| pos(d) > me);
        } else if rng.chance(if is_dup && o.self_dep_per_mille > 0 { 400 } else { o.self_dep_per_mille }) {
            deps.insert(rng.below(deps.len() + 1), func.clone());
        }
        let style = if o.assign_style && rng.chance(60) { 2 } else { rng.below(2) as u8 };
        let alias = if o.alias && style != 2 && rng.chance(80) { Some(rng.pick(names).clone()) } else { None };
        if let Some(a) = &alias {
            if !o.dup_names && used.contains(a) && *a != func {
                continue;
            }
            used.push(a.clone());
        }
        items.push(Item::Fixture(Fx {
            func: if alias.is_some() { format!("{}_impl", func) } else if o.test_prefixed_fixtures && style != 2 && rng.chance(60) { format!("test_{}", func) } else { func.clone() },
            alias,
            scope: if o.scopes && rng.chance(400) { rng.below(5) as u8 } else { 0 },
            autouse: rng.chance(80),
            deps: if style == 2 { vec![] } else { deps },
            generator: rng.chance(300),
            ret: if rng.chance(300) { Some(rng.pick(&["int", "str", "dict[str, int]"]).to_string()) } else { None },
            style,
            in_class: style != 2 && if is_dup && o.class_override_per_mille > 0 { rng.chance(o.class_override_per_mille) } else { o.in_class && rng.chance(60) },
            doc: if rng.chance(200) { Some("doc".to_string()) } else { None },
            body_uses: if o.body_uses && style != 2 && rng.chance(150) { subset(rng, names, 1) } else { vec![] },
            multiline: rng.chance(o.multiline_per_mille),
            defaults: if style != 2 && rng.chance(70) { vec![rng.pick(names).clone()] } else { vec![] },
        }));
    }
    // a default-valued parameter must not repeat a declared one
    for it in items.iter_mut() {
        if let Item::Fixture(f) = it {
            let deps = f.deps.clone();
            f.defaults.retain(|d| !deps.contains(d));
        }
    }
    if o.marks && rng.chance(80) {
        let m = subset(rng, names, 2);
        if !m.is_empty() {
            items.push(Item::Mark { names: m });
        }
    }
    let nt = if is_test_file { rng.range(1, o.max_tests.max(1)) } else { rng.below(2).min(o.max_tests) };
    for k in 0..nt {
        items.push(Item::Test(Tst {
            // pytest's default `python_functions = test` is a prefix: `def testLogin(...)` is a test as well
            name: if rng.chance(70) {
                format!("testCase{}", k)
            } else if rng.chance(o.unicode_test_names_per_mille) { format!("test_{}{}", rng.pick(&["caf\u{e9}", "\u{65e5}\u{672c}", "\u{43f}\u{440}\u{43e}\u{432}\u{435}\u{440}\u{43a}\u{430}"]), k) } else { format!("test_{}", k) },
            params: subset(rng, names, 3),
            usefixtures: if o.marks && rng.chance(200) { subset(rng, names, 2) } else { vec![] },
            indirect: if o.marks && rng.chance(100) { subset(rng, names, 2) } else { vec![] },
            in_class: o.in_class && rng.chance(150),
            body_uses: if o.body_uses && rng.chance(200) { subset(rng, names, 2) } else { vec![] },
            multiline: rng.chance(o.multiline_per_mille),
            defaults: vec![],
        }));
    }
    for it in items.iter_mut() {
        if let Item::Test(t) = it {
            if rng.chance(50) {
                let d = rng.pick(names).clone();
                if !t.params.contains(&d) {
                    t.defaults.push(d);
                }
            }
        }
    }
    rng.shuffle(&mut items);
    items
}

/// Ways of making a text unparsable (used by history scenarios).
pub fn break_syntax(rng: &mut Rng, text: &str) -> String {
    match rng.below(4) {
        0 => format!("{}def broken(:\n", text),
        1 => {
            let cut = text.len() / 2;
            let mut c = cut;
            while !text.is_char_boundary(c) {
                c -= 1;
            }
            format!("{}(((", &text[..c])
        }
        2 => format!("def f(\n{}", text),
        _ => text.replacen("def ", "def def ", 1) + "x = (\n",
    }
}

pub fn names_pool(n: usize) -> Vec<String> {
    ["alpha", "beta", "gamma", "delta", "eps", "zeta", "eta", "theta"].iter().take(n).map(|s| s.to_string()).collect()
}
