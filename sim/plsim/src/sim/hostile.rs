//! Hostile document contents for C11/C12: Unicode, line endings, stale-span layouts, huge files.

use super::pytext::{gen_items, render, Fx, GenOpts, Item};
use super::util::Rng;

pub const WIDE: [&str; 8] = ["\u{3000}", "\u{a0}", "é", "日本", "😀", "a\u{301}", "\u{2003}", "ß"];

/// A valid Python file whose layout stresses byte/char/UTF-16 confusion.
pub fn valid_hostile(rng: &mut Rng, names: &[String]) -> String {
    let o = GenOpts { in_class: rng.chance(300), ..GenOpts::default() };
    let mut items = gen_items(rng, names, true, &o);
    // docstrings with mixed / multi-byte indentation
    for it in items.iter_mut() {
        if let Item::Fixture(f) = it {
            if rng.chance(500) && f.style != 2 {
                f.doc = None;
            }
        }
    }
    let mut text = render(&items).text;
    if rng.chance(600) {
        text.push_str(&docstring_fixture(rng));
    }
    if rng.chance(300) {
        // non-ASCII identifiers and string contents
        text.push_str("\n@pytest.fixture\ndef 夹具_α(alpha):\n    \"\"\"документация 😀\"\"\"\n    return 'ß'\n\ndef test_юникод(夹具_α, alpha):\n    _ = 夹具_α\n");
    }
    if rng.chance(300) {
        // multi-line signatures whose closing line carries parentheses in a comment / annotation
        text.push_str("\n@pytest.fixture\ndef multi(\n    alpha,\n    beta=(1, 2),\n):  # noqa (see issue (12))\n    return alpha\n\ndef test_multi(\n    multi, alpha\n) -> None:  # (why) not\n    _ = beta\n\ndef test_odd(alpha\n              ):pass # ):\n");
    }
    if rng.chance(250) {
        text.push_str("\n@pytest.mark.usefixtures(\"alpha\", 'béta', \"日本\")\n@pytest.mark.parametrize(\"alpha,beta\", [(1, 2)], indirect=True)\ndef test_marks(alpha, beta): pass\n");
    }
    match rng.below(8) {
        0 => text = text.replace('\n', "\r\n"),
        1 => text = text.replace('\n', "\r"),
        2 => text = format!("\u{feff}{}", text),
        3 => text = text.replace("    ", "\t"),
        4 => text = format!("# -*- coding: latin-1 -*-\n# {}\n{}", WIDE.join(""), text),
        _ => {}
    }
    text
}

fn docstring_fixture(rng: &mut Rng) -> String {
    let ind = [" ", "  ", "    ", "\t", "\u{3000}", "\u{a0}\u{a0}", " \u{3000}", ""];
    let mut s = String::from("\n@pytest.fixture\ndef documented(alpha):\n    \"\"\"first line\n");
    for _ in 0..rng.range(1, 5) {
        s.push_str(*rng.pick(&ind));
        s.push_str(*rng.pick(&["text", "é", "😀 wide", "", "\u{3000}", ":param x: y"]));
        s.push('\n');
    }
    s.push_str(*rng.pick(&ind));
    s.push_str("\"\"\"\n    return 1\n");
    s
}

/// An unparsable text whose line layout makes positions recorded for `prev` stale: same number of
/// lines (or fewer), lines shortened or filled with multi-byte characters.
pub fn stale_layout(rng: &mut Rng, prev: &str) -> String {
    let mut out = String::new();
    let mode = rng.below(5);
    for (i, l) in prev.lines().enumerate() {
        let repl: String = match mode {
            0 => rng.pick(&WIDE).repeat(rng.range(0, 12)),
            1 => {
                // prefix multi-byte characters so byte offsets and char offsets diverge
                format!("{}{}", rng.pick(&WIDE).repeat(rng.range(1, 6)), l)
            }
            2 => l.chars().take(rng.below(6)).collect(),
            3 => {
                if i % 2 == 0 {
                    String::new()
                } else {
                    format!("{}def", "😀".repeat(rng.range(1, 20)))
                }
            }
            _ => l.chars().map(|c| if c.is_alphanumeric() && rng.chance(400) { 'é' } else { c }).collect(),
        };
        out.push_str(&repl);
        out.push('\n');
        if mode == 2 && rng.chance(100) {
            break;
        }
    }
    out.push_str("def broken(:\n");
    out
}

/// Generic hostile contents that are not derived from a previous version.
pub fn arbitrary(rng: &mut Rng, big: bool) -> String {
    match rng.below(12) {
        0 => String::new(),
        1 => "\n".repeat(rng.range(1, 50)),
        2 => "\u{feff}".to_string(),
        3 => WIDE.join("\n"),
        4 => "def test_a(\u{3000}):\n    pass\n".to_string(),
        5 => "import pytest\n@pytest.fixture\ndef f(\n".to_string(),
        6 => "@pytest.fixture\ndef a(a): return a\n@pytest.fixture\ndef a(a): return a\n".to_string(),
        7 => {
            if big {
                let mut s = String::from("import pytest\n");
                for i in 0..5000 {
                    s.push_str(&format!("@pytest.fixture\ndef fx_{}(fx_{}):\n    return 1\n", i, i + 1));
                }
                s
            } else {
                "x = 1\n".repeat(2000)
            }
        }
        8 => "import pytest\n@pytest.fixture(name=\"\")\ndef e(): pass\n@pytest.fixture(name=\"a b\")\ndef s(): pass\ndef test_(e, s): pass\n".to_string(),
        9 => "import pytest\npytestmark = pytest.mark.usefixtures(\"\", \"\u{3000}\")\npytest_plugins = [\"\", \"..\", \"a..b\", \".\"]\nfrom . import *\nfrom .. import x\nfrom ...... import y\n".to_string(),
        10 => format!("import pytest\n@pytest.fixture\ndef f():\n    '''{}'''\n", "\u{3000}\n x\n\u{a0}y\n  \u{3000}z\n"),
        _ => "class T:\n    @pytest.fixture\n    def f(self, f): yield\n    def test_x(self, f):\n        f\n\tg\n".to_string(),
    }
}

pub fn simple_valid(names: &[String]) -> String {
    render(&[
        Item::Fixture(Fx { func: names[0].clone(), ret: Some("int".into()), doc: Some("d".into()), ..Default::default() }),
        Item::Fixture(Fx { func: names[1 % names.len()].clone(), deps: vec![names[0].clone()], generator: true, ..Default::default() }),
        Item::Test(super::pytext::Tst { name: "test_s".into(), params: names.to_vec(), usefixtures: vec![names[0].clone()], body_uses: vec![names[0].clone()], ..Default::default() }),
    ])
    .text
}
