//! S-CACHERACE (C07, "for every interleaving of edits and queries"): queries that fill the derived
//! caches run on simulated request threads WHILE an editor thread re-analyses documents they depend
//! on, interleaved at single-map-operation granularity. After all threads have joined (quiescence),
//! every answer of the long-lived index must equal the answer of a cold twin that received the same
//! analyses and no concurrent query: a view computed from a half-rewritten index may be returned to
//! the racing request, but it must never be retained.

use super::batch::{RunOut, Scenario, Tier};
use super::pytext::{names_pool, render};
use super::simcfg::{replay_list, SimParams};
use super::util::{fnv, mix, Rng, Sandbox};
use super::ws::{gen_ws, WsOpts, WsSpec};
use crate::fixtures::FixtureDatabase;
use serde::{Deserialize, Serialize};
use serde_json::Value;
use std::path::{Path, PathBuf};
use std::sync::Arc;

#[derive(Clone, Debug, Serialize, Deserialize)]
pub struct CacheRaceInput {
    pub sim: SimParams,
    pub spec: WsSpec,
    /// the editor thread's analyses, in order
    pub edits: Vec<(String, String)>,
    /// one list of queried documents per request thread
    pub readers: Vec<Vec<String>>,
    pub run_seed: u64,
    #[serde(default)]
    pub sandbox: Option<String>,
}

pub struct CacheRace;

fn query(db: &FixtureDatabase, p: &Path, kind: usize) {
    match kind % 3 {
        0 => {
            let _ = db.get_available_fixtures(p);
        }
        1 => {
            let _ = db.detect_fixture_cycles_in_file(p);
        }
        _ => {
            let _ = db.get_available_fixtures(p);
            let _ = db.detect_scope_mismatches_in_file(p);
        }
    }
}

impl Scenario for CacheRace {
    fn name(&self) -> &'static str {
        "cache-race"
    }
    fn rule(&self) -> &'static str {
        "1-2 request threads run cache-filling queries (available fixtures, cycle detection, scope mismatches) over the documents of a generated \
         workspace while an editor thread re-analyses 1-3 documents (fixtures added/removed, imports toggled, syntax broken), dense preemption at \
         every map operation; at quiescence the warm answers are compared with a cold twin (same analyses, no concurrent query); non-trivial = the \
         schedule switched threads while both kinds were alive and an edited document is visible from a queried one; distinct = (spec, edits) hash x decision list"
    }
    fn runs(&self, tier: Tier) -> u64 {
        match tier {
            Tier::Quick => 6_000,
            Tier::Thorough => 200_000,
        }
    }
    fn shrink_paths(&self) -> Vec<&'static str> {
        vec!["/edits", "/readers", "/readers/*", "/spec/files/*/items", "/decisions/0"]
    }

    fn gen(&self, run_seed: u64, _tier: Tier) -> Value {
        let mut rng = Rng::new(run_seed);
        let mut o = WsOpts::default();
        o.max_dirs = 3;
        o.n_names = rng.range(2, 4);
        o.imports = rng.chance(500);
        o.colliding_imports = rng.chance(300);
        o.file.in_class = false;
        let spec = gen_ws(&mut rng, &o);
        let names = names_pool(4);
        let files: Vec<String> = spec.files.iter().filter(|f| f.rel.ends_with(".py") && !f.rel.ends_with("__init__.py")).map(|f| f.rel.clone()).collect();
        let mut edits = vec![];
        let mut cur: std::collections::BTreeMap<String, String> = spec.files.iter().map(|f| (f.rel.clone(), render(&f.items).text)).collect();
        let mut last_valid = cur.clone();
        // providers first: conftests and helper modules are what other documents' views depend on
        let providers: Vec<String> = files.iter().filter(|f| !f.contains("test")).cloned().collect();
        for _ in 0..rng.range(1, 3) {
            if files.is_empty() {
                break;
            }
            let f = if !providers.is_empty() && rng.chance(800) { rng.pick(&providers).clone() } else { rng.pick(&files).clone() };
            let t = super::scen_history::next_version(&mut rng, &spec, &f, &cur[&f], &last_valid[&f], &names, "C07");
            if rustpython_parser::parse(&t, rustpython_parser::Mode::Module, "").is_ok() {
                last_valid.insert(f.clone(), t.clone());
            }
            cur.insert(f.clone(), t.clone());
            edits.push((f, t));
        }
        let mut readers = vec![];
        for _ in 0..rng.range(1, 2) {
            let mut l = vec![];
            for _ in 0..rng.range(2, 8) {
                if !files.is_empty() {
                    l.push(rng.pick(&files).clone());
                }
            }
            readers.push(l);
        }
        let sim = SimParams::dense(&mut rng, 4000);
        serde_json::to_value(CacheRaceInput { sim, spec, edits, readers, run_seed, sandbox: None }).unwrap()
    }

    fn exec(&self, input: &Value) -> RunOut {
        let mut out = RunOut::default();
        let inp: CacheRaceInput = match serde_json::from_value(input.clone()) {
            Ok(i) => i,
            Err(e) => {
                out.harness_error = Some(format!("bad input: {}", e));
                return out;
            }
        };
        let sb = Sandbox::acquire("c07r", inp.run_seed, inp.sandbox.as_deref().map(Path::new));
        let root = inp.spec.materialise(&sb.root());
        let initial: Vec<(String, String)> = inp.spec.files.iter().filter(|f| f.rel.ends_with(".py")).map(|f| (f.rel.clone(), render(&f.items).text)).collect();
        let edits = inp.edits.clone();
        let readers = inp.readers.clone();
        let root2 = root.clone();
        let (oc, res) = simrt::run(inp.sim.cfg(replay_list(input, 0)), move || {
            let root = root2;
            let db = Arc::new(FixtureDatabase::new());
            for (f, t) in &initial {
                db.analyze_file(root.join(f), t);
            }
            // warm every cache once, so that the racing queries start from valid entries
            for (f, _) in &initial {
                let _ = db.get_available_fixtures(&root.join(f));
            }
            let mut hs = vec![];
            {
                let d = db.clone();
                let r = root.clone();
                let e = edits.clone();
                hs.push(simrt::spawn(move || {
                    for (f, t) in &e {
                        d.analyze_file(r.join(f), t);
                    }
                }));
            }
            for (i, l) in readers.iter().enumerate() {
                let d = db.clone();
                let r = root.clone();
                let l = l.clone();
                hs.push(simrt::spawn(move || {
                    for (k, f) in l.iter().enumerate() {
                        query(&d, &r.join(f), i + k);
                    }
                }));
            }
            for h in hs {
                h.join();
            }
            // quiescence: warm answers vs. a cold twin
            let cold = Arc::new(FixtureDatabase::new());
            for (f, t) in initial.iter().chain(edits.iter()) {
                cold.analyze_file(root.join(f), t);
            }
            let files: Vec<PathBuf> = super::dbsnap::files_in_cache(&cold);
            let warm = super::observe::snapshot_files(&db, &root, &files, false, true);
            let cold_s = super::observe::snapshot_files(&cold, &root, &files, false, true);
            // and the maps themselves: a concurrent query must not have altered the index
            let mw = super::dbsnap::map_snap(&db, &root);
            let mc = super::dbsnap::map_snap(&cold, &root);
            (warm.all_diffs(&cold_s), mw.diff(&mc, true), warm.hash())
        });
        out.absorb_outcome(&oc);
        let mut dh = 0u64;
        for d in &oc.decisions {
            dh = mix(dh, *d as u64);
        }
        out.fingerprint = mix(fnv(&serde_json::to_string(&(&inp.spec, &inp.edits, &inp.readers)).unwrap()), dh);
        let edited_provider = inp.edits.iter().any(|(f, _)| !f.contains("test"));
        out.nontrivial = oc.switches > 2 && edited_provider && inp.readers.iter().any(|l| !l.is_empty());
        if let Some(a) = &oc.abort {
            super::scen_resolve::abort_to_violation(&mut out, a, "queries concurrent with re-analysis");
            return out;
        }
        let Some((diffs, mapdiff, h)) = res else {
            out.harness_error = Some("no result".into());
            return out;
        };
        out.state_hash = h;
        out.count("probe.concurrent_edits", inp.edits.len() as u64);
        out.count("probe.concurrent_queries", inp.readers.iter().map(|l| l.len() as u64).sum());
        for (key, w, c) in diffs {
            if c == "<absent>" && w.is_empty() {
                continue;
            }
            out.violate("warm-answer-stale-after-concurrent-edit", format!("after the editor and request threads joined: `{}` warm={:?} cold={:?}", key, w, c));
        }
        if let Some(d) = mapdiff {
            out.violate("index-altered-by-concurrent-query", format!("index differs from the cold twin's after queries raced the analyses: {}", d));
        }
        out
    }
}

/// S-SCANPRESSURE (C07, "pressure-driven eviction of cached file data in very large workspaces never changes the
/// answers for any document"): the real scan of a generated workspace is repeated after 2 001+ filler test files
/// (defining and using nothing) were added next to it, so that the text cache overflows DURING the scan; every
/// answer for the original documents must be the same as without the fillers.
pub struct ScanPressure;

#[derive(Clone, Debug, Serialize, Deserialize)]
pub struct ScanPressureInput {
    pub sim: SimParams,
    pub spec: WsSpec,
    pub fillers: usize,
    pub run_seed: u64,
    #[serde(default)]
    pub sandbox: Option<String>,
}

impl Scenario for ScanPressure {
    fn name(&self) -> &'static str {
        "scan-pressure"
    }
    fn rule(&self) -> &'static str {
        "generated workspace with imports (conftests star-importing helper modules, optional venv) scanned by the real scan_workspace, then scanned \
         again by a new index after 2001-2600 filler test files were added in a sibling directory (the cache limit of 2000 texts is crossed during the \
         scan); the normalised answers for the original documents must be identical; non-trivial = some conftest imports a helper module; distinct = spec hash x schedule"
    }
    fn runs(&self, tier: Tier) -> u64 {
        match tier {
            Tier::Quick => 48,
            Tier::Thorough => 3_000,
        }
    }
    fn shrink_paths(&self) -> Vec<&'static str> {
        vec!["/spec/files", "/spec/files/*/items"]
    }
    fn gen(&self, run_seed: u64, _tier: Tier) -> Value {
        let mut rng = Rng::new(run_seed);
        let mut o = WsOpts::default();
        o.max_dirs = 4;
        o.n_names = rng.range(2, 4);
        o.imports = true;
        o.colliding_imports = rng.chance(300);
        o.venv = rng.chance(300);
        o.file.in_class = false;
        let spec = gen_ws(&mut rng, &o);
        let mut sim = SimParams::gen(&mut rng, 400_000);
        sim.max_steps = 2_000_000_000;
        serde_json::to_value(ScanPressureInput { sim, spec, fillers: rng.range(2001, 2600), run_seed, sandbox: None }).unwrap()
    }
    fn exec(&self, input: &Value) -> RunOut {
        let mut out = RunOut::default();
        let inp: ScanPressureInput = match serde_json::from_value(input.clone()) {
            Ok(i) => i,
            Err(e) => {
                out.harness_error = Some(format!("bad input: {}", e));
                return out;
            }
        };
        let sb = Sandbox::acquire("c07p", inp.run_seed, inp.sandbox.as_deref().map(Path::new));
        let root = inp.spec.materialise(&sb.root());
        let files: Vec<PathBuf> = inp.spec.files.iter().filter(|f| f.rel.ends_with(".py") && !f.rel.starts_with("..")).map(|f| root.join(&f.rel)).collect();
        out.fingerprint = fnv(&serde_json::to_string(&(&inp.spec, inp.fillers)).unwrap());
        out.nontrivial = inp.spec.files.iter().any(|f| f.rel.ends_with("conftest.py") && f.items.iter().any(|i| matches!(i, super::pytext::Item::Star { .. } | super::pytext::Item::Import { .. } | super::pytext::Item::Plugins { .. })));
        let mut snaps = vec![];
        for round in 0..2 {
            if round == 1 {
                let d = root.join("zz_fill");
                let _ = std::fs::create_dir_all(&d);
                for i in 0..inp.fillers {
                    let _ = std::fs::write(d.join(format!("test_fill_{}.py", i)), format!("def test_f{}():\n    pass\n", i));
                }
                out.count("fault.cache_limit_crossed_during_scan", 1);
            }
            let fl = files.clone();
            let (oc, r) = super::scen_resolve::scan_then(&inp.sim, replay_list(input, round), root.clone(), move |db, root| {
                let evicted = fl.iter().filter(|f| !db.file_cache.contains_key(*f)).count();
                (super::observe::snapshot_files(db, root, &fl, false, false), evicted)
            });
            out.absorb_outcome(&oc);
            if let Some(a) = &oc.abort {
                super::scen_resolve::abort_to_violation(&mut out, a, "scan under cache pressure");
                return out;
            }
            let Some(r) = r else {
                out.harness_error = Some("no snapshot".into());
                return out;
            };
            snaps.push(r);
        }
        out.state_hash = snaps[1].0.hash();
        out.count("probe.original_documents_evicted_by_the_scan", snaps[1].1 as u64);
        for (key, a, b) in snaps[0].0.all_diffs(&snaps[1].0) {
            // the unused list and references legitimately ignore the fillers; everything is keyed by original documents
            out.violate("answers-change-under-scan-cache-pressure", format!("`{}` without fillers: {:?}; with {} filler files: {:?}", key, a, inp.fillers, b));
            if out.violations.len() >= 3 {
                break;
            }
        }
        out
    }
}
