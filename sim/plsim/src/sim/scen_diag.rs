//! S-LSP (C19): histories of didOpen/didChange over a document and its conftests through the full
//! stack, with pyproject.toml variants; the client records the last publishDiagnostics per uri.

use super::batch::{RunOut, Scenario, Tier};
use super::dbsnap::rel;
use super::lspdrv::{frame, LspServer, RefreshPolicy};
use super::pytext::{break_syntax, gen_items, names_pool, render, GenOpts, Item};
use super::scen_resolve::abort_to_violation;
use super::simcfg::{replay_list, SimParams};
use super::util::{fnv, mix, Rng, Sandbox};
use super::ws::{gen_ws, WsOpts, WsSpec};
use crate::fixtures::FixtureDatabase;
use serde::{Deserialize, Serialize};
use serde_json::{json, Value};
use std::collections::{BTreeMap, BTreeSet};
use std::path::Path;

#[derive(Clone, Debug, Serialize, Deserialize)]
pub struct DOp {
    /// "open" | "change"
    pub kind: String,
    pub file: String,
    pub text: String,
}

#[derive(Clone, Debug, Serialize, Deserialize)]
pub struct DiagInput {
    pub spec: WsSpec,
    pub sim: SimParams,
    pub ops: Vec<DOp>,
    /// codes that are listed in pyproject.toml AND valid AND the TOML parses
    pub expect_disabled: Vec<String>,
    pub config_kind: String,
    /// bytes per transport fragment (0 = whole frames)
    pub fragment: usize,
    /// steps after which the client answers inlayHint/refresh; negative = answer with an error
    pub refresh_delay: i32,
    pub run_seed: u64,
    #[serde(default)]
    pub sandbox: Option<String>,
}

pub struct Diag;

type D = (String, u64, u64, u64); // code, line0, start, end

fn parses(text: &str) -> bool {
    rustpython_parser::parse(text, rustpython_parser::Mode::Module, "").is_ok()
}

fn gen_config(rng: &mut Rng) -> (Option<String>, Vec<String>, &'static str) {
    let codes = ["undeclared-fixture", "scope-mismatch", "circular-dependency"];
    let mut listed: Vec<String> = codes.iter().filter(|_| rng.chance(400)).map(|s| s.to_string()).collect();
    match rng.below(10) {
        0 | 1 => (None, vec![], "absent"),
        9 => {
            // partially invalid: entries / settings of the wrong TYPE next to valid ones
            let mut items: Vec<String> = listed.iter().map(|c| format!("{:?}", c)).collect();
            items.insert(rng.below(items.len() + 1), rng.pick(&["42", "true", "[\"scope-mismatch\"]", "1.5"]).to_string());
            let other = rng.pick(&["exclude = \"build\"\n", "skip_plugins = 7\n", "fixture_paths = [1, 2]\n", ""]).to_string();
            (Some(format!("[tool.pytest-language-server]\n{}disabled_diagnostics = [{}]\n", other, items.join(", "))), listed, "wrong-typed-entries")
        }
        8 => {
            // repeated and unknown entries: the list is a set of codes, its length means nothing
            if listed.is_empty() {
                listed.push(rng.pick(&codes).to_string());
            }
            if listed.len() == 3 {
                listed.remove(rng.below(3));
            }
            let mut l = listed.clone();
            for _ in 0..rng.range(1, 3) {
                let x = rng.pick(&listed).clone();
                l.insert(rng.below(l.len() + 1), x);
            }
            if rng.chance(600) {
                l.insert(rng.below(l.len() + 1), "bogus-code".to_string());
            }
            (Some(format!("[tool.pytest-language-server]\ndisabled_diagnostics = {:?}\n", l)), listed, "duplicate-codes")
        }
        2 | 3 => {
            // equivalent TOML spellings of the same table
            let toml = match rng.below(6) {
                0 => format!("[project]\nname = \"x\"\n\n[tool.pytest-language-server]\ndisabled_diagnostics = {:?}\n", listed),
                1 => format!("[tool.\"pytest-language-server\"]\ndisabled_diagnostics = {:?}\n", listed),
                2 => format!("[ tool . pytest-language-server ]\ndisabled_diagnostics = {:?}\n", listed),
                3 => format!("[tool]\npytest-language-server = {{ disabled_diagnostics = {:?} }}\n", listed),
                4 => format!("tool.pytest-language-server.disabled_diagnostics = {:?}\n", listed),
                _ => format!("[tool.pytest-language-server] # settings\r\ndisabled_diagnostics = [\r\n{}]\r\n", listed.iter().map(|c| format!("  '{}',\r\n", c)).collect::<String>()),
            };
            (Some(toml), listed, "valid")
        }
        4 => {
            let mut with_bogus = listed.clone();
            with_bogus.insert(rng.below(with_bogus.len() + 1), "no-such-code".to_string());
            with_bogus.push("Undeclared-Fixture".to_string());
            let toml = format!("[tool.pytest-language-server]\ndisabled_diagnostics = {:?}\n", with_bogus);
            (Some(toml), listed, "unknown-codes")
        }
        5 => {
            let toml = format!("[tool.pytest-language-server]\nexclude = [\"[unclosed\", \"nonexistent_dir/**\", \"***/x\"]\ndisabled_diagnostics = {:?}\n", listed);
            (Some(toml), listed, "invalid-globs")
        }
        6 => {
            listed.clear();
            (Some("[tool.pytest-language-server\ndisabled_diagnostics = [\"undeclared-fixture\"\n".to_string()), vec![], "malformed-toml")
        }
        _ => {
            listed.clear();
            (Some("[tool.other]\nx = 1\n".to_string()), vec![], "no-section")
        }
    }
}

impl Scenario for Diag {
    fn name(&self) -> &'static str {
        "diagnostics"
    }
    fn rule(&self) -> &'static str {
        "full LSP stack; after the initial scan has reported completion, a generated history of didOpen/didChange over test files and \
         conftests - an open document is sometimes closed and opened again, document versions restart at 1 with every didOpen - (introducing/removing undeclared uses, dependency cycles, scope inversions, syntax breaks and repairs) with a generated \
         pyproject.toml variant (valid subsets, unknown codes, invalid globs, malformed TOML, absent), fragmented transport and late/erroring \
         inlayHint/refresh answers; after each notification, at quiescence, the last diagnostics received for that uri must equal the \
         library's findings on a fresh twin minus the validly disabled codes, with exactly one publish per notification; non-trivial = at \
         least one expected diagnostic set is non-empty or a code is disabled; distinct = (spec, ops, config) hash"
    }
    fn runs(&self, tier: Tier) -> u64 {
        match tier {
            Tier::Quick => 2_000,
            Tier::Thorough => 300_000,
        }
    }
    fn shrink_paths(&self) -> Vec<&'static str> {
        vec!["/ops", "/spec/files/*/items"]
    }

    fn gen(&self, run_seed: u64, tier: Tier) -> Value {
        let mut rng = Rng::new(run_seed);
        let mut o = WsOpts::default();
        o.file.in_class = false;
        o.max_dirs = 3;
        o.n_names = rng.range(2, 4);
        o.imports = rng.chance(400);
        o.colliding_imports = false;
        o.dep_cycles = rng.chance(500);
        o.self_dep_per_mille = 250;
        let mut spec = gen_ws(&mut rng, &o);
        let (toml, expect_disabled, config_kind) = gen_config(&mut rng);
        if let Some(t) = toml {
            spec.extra.push(("pyproject.toml".to_string(), t));
        }
        let names = names_pool(o.n_names);
        // documents the editor touches: tests, conftests and the helper modules conftests import
        let files: Vec<String> = spec.files.iter().filter(|f| f.rel.ends_with(".py") && !f.rel.ends_with("__init__.py") && !f.rel.starts_with('.')).map(|f| f.rel.clone()).collect();
        let mut ops = vec![];
        let mut opened: BTreeSet<String> = BTreeSet::new();
        let mut cur: BTreeMap<String, String> = spec.files.iter().map(|f| (f.rel.clone(), render(&f.items).text)).collect();
        let mut last_valid = cur.clone();
        let n = if tier == Tier::Quick { rng.range(2, 7) } else { rng.range(3, 12) };
        let go = GenOpts { in_class: false, body_uses: true, ..GenOpts::default() };
        for _ in 0..n {
            if files.is_empty() {
                break;
            }
            let f = rng.pick(&files).clone();
            let is_test = spec.file(&f).map(|pf| pf.items.iter().any(|i| matches!(i, Item::Test(_)))).unwrap_or(false);
            let keep_imports: Vec<Item> = spec.file(&f).map(|pf| pf.items.iter().filter(|i| matches!(i, Item::Star { .. } | Item::Import { .. } | Item::Plugins { .. })).cloned().collect()).unwrap_or_default();
            let text = match rng.below(10) {
                0 => cur[&f].clone(),
                1 => break_syntax(&mut rng, &cur[&f]),
                2 => last_valid[&f].clone(),
                3 => "import pytest\n".to_string(),
                _ => {
                    let mut items = if rng.chance(850) { keep_imports.clone() } else { vec![] };
                    items.extend(gen_items(&mut rng, &names, is_test, &go));
                    // make undeclared uses likely: bodies mention pool names
                    for it in items.iter_mut() {
                        if let Item::Test(t) = it {
                            if rng.chance(500) {
                                t.body_uses = vec![rng.pick(&names).clone()];
                            }
                        }
                    }
                    render(&items).text
                }
            };
            if parses(&text) {
                last_valid.insert(f.clone(), text.clone());
            }
            cur.insert(f.clone(), text.clone());
            // a document that is open is sometimes closed and opened again at once (didClose, then didOpen with the next
            // text): its version numbers start again at 1, as every editor's do
            let kind = if opened.insert(f.clone()) {
                "open"
            } else if rng.chance(150) {
                "reopen"
            } else {
                "change"
            };
            ops.push(DOp { kind: kind.into(), file: f, text });
        }
        let mut sim = SimParams::gen(&mut rng, 4000);
        sim.max_steps = 50_000_000;
        let fragment = *rng.pick(&[0usize, 0, 1, 7, 64, 1000]);
        let refresh_delay = *rng.pick(&[0i32, 0, 1, 5, 40, -1, -10]);
        serde_json::to_value(DiagInput { spec, sim, ops, expect_disabled, config_kind: config_kind.into(), fragment, refresh_delay, run_seed, sandbox: None }).unwrap()
    }

    fn exec(&self, input: &Value) -> RunOut {
        let mut out = RunOut::default();
        let inp: DiagInput = match serde_json::from_value(input.clone()) {
            Ok(i) => i,
            Err(e) => {
                out.harness_error = Some(format!("bad input: {}", e));
                return out;
            }
        };
        let sb = Sandbox::acquire("c19", inp.run_seed, inp.sandbox.as_deref().map(Path::new));
        let root = inp.spec.materialise(&sb.root());
        let root2 = root.clone();
        let i2 = inp.clone();
        let (oc, res) = simrt::run(inp.sim.cfg(replay_list(input, 0)), move || drive(&root2, &i2));
        out.absorb_outcome(&oc);
        out.fingerprint = fnv(&serde_json::to_string(&(&inp.spec, &inp.ops, &inp.config_kind, &inp.expect_disabled)).unwrap());
        if let Some(a) = &oc.abort {
            abort_to_violation(&mut out, a, "diagnostics history");
            return out;
        }
        let Some(res) = res else {
            out.harness_error = Some("no result".into());
            return out;
        };
        out.nontrivial = res.nontrivial;
        out.state_hash = res.hash;
        out.count(&format!("fault.config_{}", inp.config_kind), 1);
        if inp.fragment > 0 {
            out.count("fault.transport_fragmentation", res.fragments);
        }
        if inp.refresh_delay != 0 {
            out.count("fault.late_or_error_refresh_answer", res.refreshes as u64);
        }
        out.count("probe.expected_diagnostics_nonempty", res.nonempty);
        out.count("probe.disabled_code_filtered_something", res.filtered);
        out.count("probe.cleared_on_next_change", res.cleared);
        out.count("probe.closed_and_reopened_with_versions_restarting", res.reopens);
        for (c, d) in res.violations {
            out.violate(&c, d);
        }
        if let Some(h) = res.harness {
            out.harness_error = Some(h);
        }
        out
    }
}

#[derive(Default)]
struct Res {
    violations: Vec<(String, String)>,
    nontrivial: bool,
    hash: u64,
    fragments: u64,
    refreshes: u32,
    nonempty: u64,
    filtered: u64,
    cleared: u64,
    reopens: u64,
    harness: Option<String>,
}

fn send_fragmented(srv: &mut LspServer, bytes: &[u8], frag: usize, count: &mut u64) {
    let before = srv.fragments_sent;
    srv.send_fragmented(bytes, frag, 16);
    *count += srv.fragments_sent - before;
}

fn expected_for(root: &Path, texts: &BTreeMap<String, String>, order_last: &str, disabled: &[String]) -> (BTreeSet<D>, BTreeSet<D>) {
    let db = FixtureDatabase::new();
    for (f, t) in texts {
        if f != order_last {
            db.analyze_file(root.join(f), t);
        }
    }
    if let Some(t) = texts.get(order_last) {
        db.analyze_file(root.join(order_last), t);
    }
    let p = root.join(order_last);
    let mut all: BTreeSet<D> = BTreeSet::new();
    for u in db.get_undeclared_fixtures(&p) {
        all.insert(("undeclared-fixture".into(), (u.line - 1) as u64, u.start_char as u64, u.end_char as u64));
    }
    for c in db.detect_fixture_cycles_in_file(&p) {
        all.insert(("circular-dependency".into(), (c.fixture.line - 1) as u64, c.fixture.start_char as u64, c.fixture.end_char as u64));
    }
    for m in db.detect_scope_mismatches_in_file(&p) {
        all.insert(("scope-mismatch".into(), (m.fixture.line - 1) as u64, m.fixture.start_char as u64, m.fixture.end_char as u64));
    }
    let kept: BTreeSet<D> = all.iter().filter(|d| !disabled.contains(&d.0)).cloned().collect();
    (all, kept)
}

fn drive(root: &Path, inp: &DiagInput) -> Res {
    let mut res = Res::default();
    let mut srv = LspServer::start(root);
    srv.refresh_policy = if inp.refresh_delay >= 0 { RefreshPolicy::AnswerAfter(inp.refresh_delay as u32) } else { RefreshPolicy::ErrorAfter((-inp.refresh_delay) as u32) };
    let id = srv.initialize();
    if srv.await_response(id, 300).is_none() {
        res.violations.push(("diag-server-failure".into(), format!("no response to initialize; config={} panic={:?}", inp.config_kind, srv.server_panic)));
        return res;
    }
    srv.notify("initialized", json!({}));
    srv.steps(3);
    srv.join_scan();
    if !srv.settle(3, 3000) || !srv.scan_complete_seen() {
        res.violations.push(("diag-server-failure".into(), format!("scan did not complete; config={} panic={:?} logs={:?}", inp.config_kind, srv.server_panic, srv.log_messages)));
        return res;
    }
    // latest valid text per indexed file
    let mut texts: BTreeMap<String, String> = BTreeMap::new();
    for e in srv.db.file_cache.iter() {
        let r = rel(root, e.key());
        texts.insert(r, e.value().as_ref().clone());
    }
    // document versions are per document and per open-lifetime: 1 at didOpen, +1 with every didChange
    let mut versions: BTreeMap<String, i64> = BTreeMap::new();
    for (k, op) in inp.ops.iter().enumerate() {
        let uri = srv.uri(&op.file);
        if op.kind == "reopen" {
            srv.did_close(&op.file);
            if !srv.settle(3, 4000) {
                res.violations.push(("diag-server-failure".into(), format!("server not quiescent after the didClose of op {} ({}); panic={:?}", k, op.file, srv.server_panic)));
                return res;
            }
            res.reopens += 1;
        }
        let before = srv.diagnostics.get(&uri).map(|d| d.1).unwrap_or(0);
        let prev_nonempty = srv.diagnostics.get(&uri).map(|d| d.0.as_array().map(|a| !a.is_empty()).unwrap_or(false)).unwrap_or(false);
        let version = if op.kind == "change" { versions.get(&op.file).copied().unwrap_or(1) + 1 } else { 1 };
        versions.insert(op.file.clone(), version);
        let msg = if op.kind != "change" {
            json!({"jsonrpc": "2.0", "method": "textDocument/didOpen", "params": {"textDocument": {"uri": uri, "languageId": "python", "version": version, "text": op.text}}})
        } else {
            json!({"jsonrpc": "2.0", "method": "textDocument/didChange", "params": {"textDocument": {"uri": uri, "version": version}, "contentChanges": super::lspdrv::content_changes(&op.text)}})
        };
        let bytes = frame(&msg);
        send_fragmented(&mut srv, &bytes, inp.fragment, &mut res.fragments);
        if !srv.settle(3, 4000) {
            res.violations.push(("diag-server-failure".into(), format!("server not quiescent after op {} ({} {}); panic={:?}", k, op.kind, op.file, srv.server_panic)));
            return res;
        }
        if parses(&op.text) {
            texts.insert(op.file.clone(), op.text.clone());
        } else if !texts.contains_key(&op.file) {
            // never valid: nothing recorded for it
        }
        let after = srv.diagnostics.get(&uri).map(|d| d.1).unwrap_or(0);
        if after != before + 1 {
            res.violations.push(("diag-publish-count".into(), format!("op {} ({} {}): {} publishDiagnostics received for the document, expected exactly 1", k, op.kind, op.file, after - before)));
        }
        let got: BTreeSet<D> = srv
            .diagnostics
            .get(&uri)
            .and_then(|d| d.0.as_array().cloned())
            .unwrap_or_default()
            .iter()
            .map(|d| {
                (
                    d.get("code").and_then(|c| c.as_str()).unwrap_or("").to_string(),
                    d.pointer("/range/start/line").and_then(|x| x.as_u64()).unwrap_or(0),
                    d.pointer("/range/start/character").and_then(|x| x.as_u64()).unwrap_or(0),
                    d.pointer("/range/end/character").and_then(|x| x.as_u64()).unwrap_or(0),
                )
            })
            .collect();
        if !parses(&op.text) {
            // findings "for its latest content" are undefined while the content does not parse (the
            // server republishes what it knew); only the publish count and liveness are checked
            continue;
        }
        let (all, want) = expected_for(root, &texts, &op.file, &inp.expect_disabled);
        if !all.is_empty() || !inp.expect_disabled.is_empty() {
            res.nontrivial = true;
        }
        if !want.is_empty() {
            res.nonempty += 1;
        }
        if all.len() != want.len() {
            res.filtered += 1;
        }
        if prev_nonempty && want.is_empty() && got.is_empty() {
            res.cleared += 1;
        }
        res.hash = mix(res.hash, fnv(&format!("{:?}", got)));
        if got != want {
            let extra: Vec<&D> = got.difference(&want).collect();
            let missing: Vec<&D> = want.difference(&got).collect();
            let class = if extra.iter().any(|d| inp.expect_disabled.contains(&d.0)) {
                "diag-disabled-code-published"
            } else if !missing.is_empty() && missing.iter().all(|d| all.contains(*d)) && inp.expect_disabled.is_empty() && inp.config_kind != "valid" && inp.config_kind != "absent" && got.is_empty() {
                "diag-config-error-disabled-everything"
            } else if !extra.is_empty() && missing.is_empty() {
                "diag-stale-or-extra"
            } else {
                "diag-differs"
            };
            res.violations.push((class.into(), format!("op {} ({} {}), config {} (validly disabled {:?}): client last received {:?}, expected {:?}", k, op.kind, op.file, inp.config_kind, inp.expect_disabled, got, want)));
        }
        if res.violations.len() >= 3 {
            break;
        }
    }
    // the server keeps serving
    let f = inp.ops.last().map(|o| o.file.clone()).unwrap_or_else(|| "conftest.py".into());
    let id = srv.request("textDocument/documentSymbol", json!({"textDocument": {"uri": srv.uri(&f)}}));
    if srv.await_response(id, 500).is_none() {
        res.violations.push(("diag-server-failure".into(), format!("probe request unanswered after the history; panic={:?}", srv.server_panic)));
    }
    res.refreshes = srv.refresh_requests;
    res
}
