//! S-ORDER (C08): one workspace, K executions of the real scan that differ only in σ (strategy,
//! workers, readdir order, std hash seed, DashMap hasher key, shard count); all normalised
//! observable snapshots must be equal.

use super::batch::{RunOut, Scenario, Tier};
use super::observe::{snapshot_opts, Snapshot};
use super::scen_resolve::{abort_to_violation, scan_then};
use super::simcfg::{replay_list, SimParams};
use super::util::{fnv, mix, Rng, Sandbox};
use super::ws::{gen_ws, WsOpts, WsSpec};
use serde::{Deserialize, Serialize};
use serde_json::Value;
use std::path::Path;

#[derive(Clone, Debug, Serialize, Deserialize)]
pub struct OrderInput {
    pub spec: WsSpec,
    pub sims: Vec<SimParams>,
    /// per execution: permutation of `spec.files` giving the creation (hence readdir) order
    pub orders: Vec<Vec<usize>>,
    pub run_seed: u64,
    #[serde(default)]
    pub sandbox: Option<String>,
}

pub struct Order {
    pub variant: &'static str,
}

pub fn registration_orders(db: &crate::fixtures::FixtureDatabase, root: &Path) -> String {
    let mut v: Vec<String> = db
        .definitions
        .iter()
        .filter(|e| e.value().len() >= 2)
        .map(|e| format!("{}=[{}]", e.key(), e.value().iter().map(|d| format!("{}:{}", super::dbsnap::rel(root, &d.file_path), d.line)).collect::<Vec<_>>().join(",")))
        .collect();
    v.sort();
    v.join(" ")
}

/// Classify a snapshot difference by mechanism (DESIGN.md §9).
pub fn classify_diff(key: &str, a: &str, b: &str, spec: &WsSpec, orders_differ: bool) -> &'static str {
    let model = super::model::Model::new(spec);
    let multi = |name: &str| model.defs.iter().filter(|d| d.name == name).count() >= 2;
    let names_in = |s: &str| -> Vec<String> { s.split(|c: char| !(c.is_alphanumeric() || c == '_')).filter(|w| model.defs.iter().any(|d| d.name == *w)).map(|w| w.to_string()).collect() };
    let involved: Vec<String> = names_in(a).into_iter().chain(names_in(b)).collect();
    let any_multi = involved.iter().any(|n| multi(n));
    let mut imported: std::collections::BTreeSet<String> = spec
        .files
        .iter()
        .flat_map(|f| model.imports_of(&f.rel).into_keys().collect::<Vec<_>>())
        .collect();
    // names mentioned by an explicit `from m import n` count as imported for the repository even
    // when m does not define n (it only asks whether *any* definition of n exists)
    for f in &spec.files {
        for it in &f.items {
            if let super::pytext::Item::Import { names, .. } = it {
                imported.extend(names.iter().cloned());
            }
        }
    }
    let any_imported = involved.iter().any(|n| imported.contains(n)) || key.split_whitespace().any(|w| imported.contains(w));
    if key.starts_with("cycles ") && (any_multi || orders_differ) {
        // the name-level dependency graph is built from definitions[name].first(): any name
        // registered in a different order changes the graph and the DFS path through it
        return "RC-FIRST-REGISTERED";
    }
    if key.starts_with("cycles ") {
        // same graph (no name has two definitions), different anchors / rotations
        return "RC-CYCLE-ANCHOR-HASH-ORDER";
    }
    if key.starts_with("mismatch ") && any_multi && any_imported {
        // scope verdicts go through resolution and inherit its import-origin defect
        return "RC-IMPORT-ORIGIN";
    }
    if (key.starts_with("available ") || key.starts_with("inlay ")) && any_multi {
        return if any_imported { "RC-FIRST-REGISTERED" } else { "order-available" };
    }
    if (key.starts_with("goto ") || key.starts_with("refs ") || key == "unused") && any_multi && any_imported {
        return "RC-IMPORT-ORIGIN";
    }
    // answers that carry no fixture name (usage counts, type labels): attribute them to the import
    // root causes only when registration orders differ and some conftest has an import statement
    let has_import_stmt = spec.files.iter().any(|f| f.rel.ends_with("conftest.py") && f.items.iter().any(|i| matches!(i, super::pytext::Item::Star { .. } | super::pytext::Item::Import { .. } | super::pytext::Item::Plugins { .. })));
    if key.starts_with("lens ") && orders_differ && has_import_stmt {
        return "RC-IMPORT-ORIGIN";
    }
    if key.starts_with("inlay ") && orders_differ && has_import_stmt {
        return "RC-FIRST-REGISTERED";
    }
    "order-dependent-answer"
}

impl Scenario for Order {
    fn name(&self) -> &'static str {
        match self.variant {
            "plain" => "order-plain",
            "corpus" => "order-corpus",
            _ => "order-imports",
        }
    }
    fn rule(&self) -> &'static str {
        "one generated workspace scanned K times (K=4 quick, 8 thorough) by the real scan_workspace with different strategy/worker count/\
         readdir permutation/std hash seed/DashMap hasher key/shard count; snapshots (resolution at every usage, references, available \
         fixtures, cycles, scope mismatches, unused list, document/workspace symbols, code lenses, inlay hints) compared pairwise; \
         non-trivial = some name has >= 2 definitions and at least two executions registered them in different orders; distinct = spec hash x schedules"
    }
    fn runs(&self, tier: Tier) -> u64 {
        match (self.variant, tier) {
            ("corpus", Tier::Quick) => 40,
            ("corpus", Tier::Thorough) => 1_500,
            (_, Tier::Quick) => 1_500,
            (_, Tier::Thorough) => 40_000,
        }
    }
    fn shrink_paths(&self) -> Vec<&'static str> {
        vec!["/spec/files/*/items", "/decisions/0", "/decisions/1"]
    }

    fn gen(&self, run_seed: u64, tier: Tier) -> Value {
        let mut rng = Rng::new(run_seed);
        let mut o = WsOpts::default();
        o.file.in_class = false;
        o.n_names = rng.range(2, 4);
        o.dep_cycles = rng.chance(400);
        // switch for the known trigger of RC-FIRST-REGISTERED: in 40% of the runs no dependency
        // cycle and no override-with-self-parameter exists, so the cycle half cannot fire
        if rng.chance(400) {
            o.dep_cycles = false;
            o.self_dep_per_mille = 0;
            o.file.acyclic = true;
        }
        match self.variant {
            "plain" => o.imports = false,
            _ => {
                o.colliding_imports = rng.chance(600);
                o.import_cycles = rng.chance(300);
                o.venv = rng.chance(300);
            }
        }
        let spec = if self.variant == "corpus" { super::ws::corpus_spec() } else { gen_ws(&mut rng, &o) };
        let k = if tier == Tier::Quick { 4 } else { 8 };
        let mut sims = vec![];
        let mut orders = vec![];
        for _ in 0..k {
            sims.push(SimParams::gen(&mut rng, 3000));
            let mut p: Vec<usize> = (0..spec.files.len()).collect();
            rng.shuffle(&mut p);
            orders.push(p);
        }
        serde_json::to_value(OrderInput { spec, sims, orders, run_seed, sandbox: None }).unwrap()
    }

    fn exec(&self, input: &Value) -> RunOut {
        let mut out = RunOut::default();
        let inp: OrderInput = match serde_json::from_value(input.clone()) {
            Ok(i) => i,
            Err(e) => {
                out.harness_error = Some(format!("bad input: {}", e));
                return out;
            }
        };
        let sb = Sandbox::acquire("ord", inp.run_seed, inp.sandbox.as_deref().map(Path::new));
        let mut snaps: Vec<(Snapshot, String)> = vec![];
        for (k, sim) in inp.sims.iter().enumerate() {
            let _ = std::fs::remove_dir_all(sb.root());
            let mut spec_k = inp.spec.clone();
            if let Some(p) = inp.orders.get(k) {
                if p.len() == spec_k.files.len() && { let mut q = p.clone(); q.sort(); q == (0..p.len()).collect::<Vec<_>>() } {
                    spec_k.files = p.iter().map(|i| inp.spec.files[*i].clone()).collect();
                }
            }
            // the creation order of the metadata files (= readdir order of site-packages) is part of sigma too
            if !spec_k.extra.is_empty() {
                let n = spec_k.extra.len();
                spec_k.extra.rotate_left(k % n);
                if k % 2 == 1 {
                    spec_k.extra.reverse();
                }
            }
            let root = spec_k.materialise(&sb.root());
            let (oc, r) = scan_then(sim, replay_list(input, k), root, |db, root| (snapshot_opts(db, root, true, false), registration_orders(db, root)));
            out.absorb_outcome(&oc);
            if let Some(a) = &oc.abort {
                abort_to_violation(&mut out, a, "workspace scan / snapshot");
                return out;
            }
            match r {
                Some(x) => snaps.push(x),
                None => {
                    out.harness_error = Some("no snapshot".into());
                    return out;
                }
            }
        }
        if snaps.is_empty() {
            return out;
        }
        let distinct_orders: std::collections::BTreeSet<&String> = snaps.iter().map(|s| &s.1).collect();
        out.count("probe.executions_with_different_registration_order", (distinct_orders.len() > 1) as u64);
        out.nontrivial = distinct_orders.len() > 1;
        out.fingerprint = mix(fnv(&serde_json::to_string(&inp.spec).unwrap()), out.log_hash);
        out.state_hash = snaps[0].0.hash();
        let mut seen: std::collections::BTreeSet<&'static str> = Default::default();
        for k in 1..snaps.len() {
            for (key, a, b) in snaps[0].0.all_diffs(&snaps[k].0) {
                let class = classify_diff(&key, &a, &b, &inp.spec, snaps[0].1 != snaps[k].1);
                if !seen.insert(class) {
                    continue;
                }
                out.violate(
                    class,
                    format!(
                        "executions 0 and {} of the same workspace answer `{}` differently: {:?} vs {:?}; registration orders: [{}] vs [{}]; sigma0={:?} sigma{}={:?}",
                        k, key, a, b, snaps[0].1, snaps[k].1, inp.sims[0], k, inp.sims[k]
                    ),
                );
            }
        }
        out
    }
}
