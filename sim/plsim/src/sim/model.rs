//! PytestModel — the reference model of pytest's fixture lookup over a workspace spec
//! (DESIGN.md §7.1).  Shares no code with the repository: it works on the generator's items and
//! the import targets recorded in the spec.

use super::pytext::{Item, Rendered, TokKind};
use super::ws::{dir_of, join_rel, parent_dir, WsSpec};
use std::collections::{BTreeMap, BTreeSet};

#[derive(Clone, Debug, PartialEq, Eq, PartialOrd, Ord)]
pub enum Origin {
    Project,
    WorkspacePlugin,
    ThirdParty,
}

#[derive(Clone, Debug)]
pub struct MDef {
    pub file: String,
    pub line: usize,
    pub name: String,
    /// the Python function name (differs from `name` for `@pytest.fixture(name=...)`)
    pub func: String,
    /// defined in a class body: a namespace of its own, so a same-named module-level function is not rebound by it
    pub in_class: bool,
    pub scope: u8,
    pub autouse: bool,
    pub deps: Vec<String>,
    pub origin: Origin,
    /// a workspace-plugin fixture only because the plugin's entry module names it in an explicit import
    /// (the module that defines it is not a plugin module as a whole: no per-file plugin flag is expected)
    pub via_explicit_only: bool,
}

impl MDef {
    pub fn key(&self) -> String {
        format!("{}@{}:{}", self.name, self.file, self.line)
    }
}

pub struct Model<'a> {
    pub spec: &'a WsSpec,
    pub rendered: BTreeMap<String, Rendered>,
    pub defs: Vec<MDef>,
    files: BTreeSet<String>,
}

/// What a resolution may legitimately return: any member of `accept` (empty = must be None).
#[derive(Clone, Debug, PartialEq)]
pub struct Expect {
    pub accept: BTreeSet<usize>,
    /// how the model found it (for violation classes)
    pub via: Via,
    /// answering nothing is acceptable too although `accept` is not empty
    pub none_ok: bool,
}

#[derive(Clone, Debug, PartialEq)]
pub enum Via {
    SameFile,
    /// imported into the using file itself (a test module importing a fixture)
    OwnImport,
    ConftestOwn(String),
    ConftestImport(String),
    WorkspacePlugin,
    ThirdParty,
    Nothing,
}

impl<'a> Model<'a> {
    pub fn new(spec: &'a WsSpec) -> Model<'a> {
        let rendered = spec.rendered();
        let mut defs = vec![];
        for f in &spec.files {
            let r = &rendered[&f.rel];
            for (name, line, idx) in &r.defs {
                let Item::Fixture(fx) = &f.items[*idx] else { continue };
                let origin = if spec.third_party_files.contains(&f.rel) {
                    Origin::ThirdParty
                } else if spec.plugin_files.contains(&f.rel) {
                    Origin::WorkspacePlugin
                } else {
                    Origin::Project
                };
                defs.push(MDef {
                    file: f.rel.clone(),
                    line: *line,
                    name: name.clone(),
                    func: fx.func.clone(),
                    in_class: fx.in_class,
                    scope: fx.scope,
                    autouse: fx.autouse,
                    deps: if fx.style == 2 { vec![] } else { fx.deps.clone() },
                    origin,
                    via_explicit_only: false,
                });
            }
        }
        let files = spec.files.iter().map(|f| f.rel.clone()).collect();
        let mut m = Model { spec, rendered, defs, files };
        // what a workspace plugin's entry module pulls in is plugin-level too: whole modules through star imports and
        // pytest_plugins (transitively), single fixtures through explicit imports
        let mut closure: BTreeSet<String> = spec.plugin_files.iter().cloned().collect();
        loop {
            let mut add = vec![];
            for f in &closure {
                let Some(pf) = spec.file(f) else { continue };
                let last_plugins = pf.items.iter().rposition(|i| matches!(i, Item::Plugins { .. }));
                for (idx, it) in pf.items.iter().enumerate() {
                    match it {
                        Item::Star { target: Some(t), .. } if !closure.contains(t) => add.push(t.clone()),
                        Item::Plugins { targets, .. } if Some(idx) == last_plugins => add.extend(targets.iter().flatten().filter(|t| !closure.contains(*t)).cloned()),
                        _ => {}
                    }
                }
            }
            if add.is_empty() {
                break;
            }
            closure.extend(add);
        }
        let mut explicit: Vec<usize> = vec![];
        for f in &closure {
            let Some(pf) = spec.file(f) else { continue };
            for it in &pf.items {
                if let Item::Import { target: Some(t), names, .. } = it {
                    if m.files.contains(t) {
                        let ex = m.exported(t, &mut BTreeSet::new());
                        for n in names {
                            explicit.extend(ex.get(n).cloned().unwrap_or_default());
                        }
                    }
                }
            }
        }
        for d in m.defs.iter_mut() {
            if d.origin == Origin::Project && closure.contains(&d.file) {
                d.origin = Origin::WorkspacePlugin;
            }
        }
        for i in explicit {
            if m.defs[i].origin == Origin::Project {
                m.defs[i].origin = Origin::WorkspacePlugin;
                m.defs[i].via_explicit_only = true;
            }
        }
        m
    }

    pub fn defs_in(&self, file: &str, name: &str) -> Vec<usize> {
        self.defs.iter().enumerate().filter(|(_, d)| d.file == file && d.name == name).map(|(i, _)| i).collect()
    }

    /// Names a module makes available to importers.  A module is ordinary Python: statements bind names
    /// in order and a later binding shadows an earlier one (`from b import *` followed by `def x` leaves
    /// this module's own `x`).  `pytest_plugins` is not a binding; what it registers is added without
    /// shadowing anything.
    fn exported(&self, file: &str, visiting: &mut BTreeSet<String>) -> BTreeMap<String, BTreeSet<usize>> {
        let mut out: BTreeMap<String, BTreeSet<usize>> = BTreeMap::new();
        if !visiting.insert(file.to_string()) {
            return out;
        }
        let Some(f) = self.spec.file(file) else {
            visiting.remove(file);
            return out;
        };
        let rendered = &self.rendered[file];
        let last_plugins = f.items.iter().rposition(|i| matches!(i, Item::Plugins { .. }));
        let mut plugins: BTreeMap<String, BTreeSet<usize>> = BTreeMap::new();
        for (idx, it) in f.items.iter().enumerate() {
            match it {
                Item::Fixture(_) => {
                    for (name, line, i2) in &rendered.defs {
                        if *i2 == idx {
                            if let Some(di) = self.defs.iter().position(|d| d.file == file && d.line == *line && d.name == *name) {
                                out.insert(name.clone(), [di].into_iter().collect());
                            }
                        }
                    }
                }
                Item::Star { target: Some(t), .. } if self.files.contains(t) => {
                    for (n, s) in self.exported(t, visiting) {
                        out.insert(n, s);
                    }
                }
                Item::Import { target: Some(t), names, .. } if self.files.contains(t) => {
                    let ex = self.exported(t, visiting);
                    for n in names {
                        if let Some(s) = ex.get(n) {
                            out.insert(n.clone(), s.clone());
                        }
                    }
                }
                Item::Plugins { targets, .. } if Some(idx) == last_plugins => {
                    for t in targets.iter().flatten() {
                        if self.files.contains(t) {
                            for (n, s) in self.exported(t, visiting) {
                                plugins.entry(n).or_default().extend(s);
                            }
                        }
                    }
                }
                _ => {}
            }
        }
        for (n, s) in plugins {
            out.entry(n).or_default().extend(s);
        }
        visiting.remove(file);
        out
    }

    /// Union semantics (no shadowing): everything reachable through the imports of `file`, by name.
    /// An explicit `from m import a, b` reaches m (and what m reaches) for the names a and b only.
    fn reachable_union(&self, file: &str, visiting: &mut BTreeSet<String>, out: &mut BTreeMap<String, BTreeSet<usize>>, top: bool) {
        if !visiting.insert(file.to_string()) {
            return;
        }
        if !top {
            for (i, d) in self.defs.iter().enumerate() {
                if d.file == file {
                    out.entry(d.name.clone()).or_default().insert(i);
                }
            }
        }
        if let Some(f) = self.spec.file(file) {
            for it in &f.items {
                match it {
                    Item::Star { target: Some(t), .. } => {
                        if self.files.contains(t) {
                            self.reachable_union(t, visiting, out, false);
                        }
                    }
                    Item::Import { target: Some(t), names, .. } => {
                        if self.files.contains(t) {
                            let mut sub = BTreeMap::new();
                            self.reachable_union(t, &mut visiting.clone(), &mut sub, false);
                            for n in names {
                                if let Some(s) = sub.get(n) {
                                    out.entry(n.clone()).or_default().extend(s.iter().copied());
                                }
                            }
                        }
                    }
                    Item::Plugins { targets, .. } => {
                        for t in targets.iter().flatten() {
                            if self.files.contains(t) {
                                self.reachable_union(t, visiting, out, false);
                            }
                        }
                    }
                    _ => {}
                }
            }
        }
    }

    /// Names brought into `file` by its star imports, explicit imports and pytest_plugins.
    fn provided_by_imports(&self, file: &str, visiting: &mut BTreeSet<String>) -> BTreeMap<String, BTreeSet<usize>> {
        let mut out: BTreeMap<String, BTreeSet<usize>> = BTreeMap::new();
        let Some(f) = self.spec.file(file) else { return out };
        // last-assignment-wins for pytest_plugins
        let last_plugins = f.items.iter().rposition(|i| matches!(i, Item::Plugins { .. }));
        let mut plugins: BTreeMap<String, BTreeSet<usize>> = BTreeMap::new();
        for (idx, it) in f.items.iter().enumerate() {
            match it {
                // import statements are bindings: a later one rebinds the name (Python semantics, hence what pytest injects)
                Item::Star { target: Some(t), .. } => {
                    if self.files.contains(t) {
                        for (n, s) in self.exported(t, visiting) {
                            out.insert(n, s);
                        }
                    }
                }
                Item::Import { target: Some(t), names, .. } => {
                    if self.files.contains(t) {
                        let ex = self.exported(t, visiting);
                        for n in names {
                            if let Some(s) = ex.get(n) {
                                out.insert(n.clone(), s.clone());
                            }
                        }
                    }
                }
                Item::Plugins { targets, .. } if Some(idx) == last_plugins => {
                    for t in targets.iter().flatten() {
                        if self.files.contains(t) {
                            for (n, s) in self.exported(t, visiting) {
                                plugins.entry(n).or_default().extend(s);
                            }
                        }
                    }
                }
                _ => {}
            }
        }
        // pytest_plugins registers modules; it binds nothing and shadows nothing in this file's namespace
        for (n, s) in plugins {
            out.entry(n).or_insert(s);
        }
        out
    }

    pub fn imports_of(&self, file: &str) -> BTreeMap<String, BTreeSet<usize>> {
        let mut v = BTreeSet::new();
        v.insert(file.to_string());
        self.provided_by_imports(file, &mut v)
    }

    /// The lookup of C01.  `exclude` = the requesting fixture itself for a self-named parameter.
    pub fn resolve(&self, file: &str, name: &str, exclude: Option<usize>) -> Expect {
        // 1. same file: the last definition - earlier ones are dead (the name was rebound), so when the last one is the
        //    requesting fixture itself the lookup goes outward, not back to an overwritten definition
        if let Some(best) = self.defs_in(file, name).into_iter().max_by_key(|i| self.defs[*i].line) {
            if Some(best) != exclude {
                return Expect { accept: [best].into_iter().collect(), via: Via::SameFile, none_ok: false };
            }
            // ... unless the earlier definition is a DIFFERENT function that merely carries the same fixture name
            // (`@pytest.fixture(name="client") def client_override(client)` after `def client()`), or is bound in another
            // namespace (module level vs the body of a test class): that one is alive
            if let Some(prev) = self.defs_in(file, name).into_iter().filter(|i| self.defs[*i].line < self.defs[best].line && (&self.defs[*i].func, self.defs[*i].in_class) != (&self.defs[best].func, self.defs[best].in_class)).max_by_key(|i| self.defs[*i].line) {
                return Expect { accept: [prev].into_iter().collect(), via: Via::SameFile, none_ok: false };
            }
        }
        // 1b. fixtures the using module imports itself (a test module doing `from .helpers import fix`)
        if !file.ends_with("conftest.py") {
            let imp: BTreeSet<usize> = self.imports_of(file).get(name).cloned().unwrap_or_default().into_iter().filter(|i| Some(*i) != exclude).collect();
            if !imp.is_empty() {
                return Expect { accept: imp, via: Via::OwnImport, none_ok: false };
            }
        }
        // 2. conftest.py files walking up
        // `optional`: definitions that a module on the import chain star-imports but shadows with the
        // excluded (requesting) fixture itself.  pytest does not see them at that level; the statement
        // ("next definition outward in the shadowing order") can be read either way, so they are
        // accepted in addition to whatever the walk finds further out.  (Not the requesting fixture's own module's other
        // definitions of the name: an earlier one there is overwritten, or was already found at the same-file step.)
        let mut optional: BTreeSet<usize> = BTreeSet::new();
        let mut dir = Some(dir_of(file));
        while let Some(d) = dir {
            let c = join_rel(&d, "conftest.py");
            if self.files.contains(&c) && c != file {
                // (only the last of several same-named definitions of the conftest is alive)
                let own: BTreeSet<usize> = self.defs_in(&c, name).into_iter().max_by_key(|i| self.defs[*i].line).into_iter().filter(|i| Some(*i) != exclude).collect();
                let imp: BTreeSet<usize> = self.imports_of(&c).get(name).cloned().unwrap_or_default().into_iter().filter(|i| Some(*i) != exclude).collect();
                // the requesting fixture itself is reachable through this conftest's imports: definitions of the
                // name that the import chain shadows with it are the open corner described above
                if let Some(ex) = exclude {
                    let mut u = BTreeMap::new();
                    self.reachable_union(&c, &mut BTreeSet::new(), &mut u, true);
                    if let Some(s) = u.get(name) {
                        if s.contains(&ex) {
                            optional.extend(s.iter().copied().filter(|i| *i != ex && self.defs[*i].file != self.defs[ex].file));
                        }
                    }
                }
                if !own.is_empty() || !imp.is_empty() {
                    let via = if !own.is_empty() { Via::ConftestOwn(c.clone()) } else { Via::ConftestImport(c.clone()) };
                    let mut accept = optional.clone();
                    if let Some(last) = own.iter().copied().max_by_key(|i| self.defs[*i].line) {
                        // the statement leaves own-vs-imported open when a conftest does both
                        // a name defined twice in the conftest: the later `def` rebinds it
                        accept.insert(last);
                    }
                    accept.extend(imp);
                    return Expect { accept, via, none_ok: false };
                }
            } else if c == file {
                // the using file is this conftest itself: its imports count as its own level
                let imp: BTreeSet<usize> = self.imports_of(&c).get(name).cloned().unwrap_or_default().into_iter().filter(|i| Some(*i) != exclude).collect();
                if let Some(ex) = exclude {
                    let mut u = BTreeMap::new();
                    self.reachable_union(&c, &mut BTreeSet::new(), &mut u, true);
                    if let Some(s) = u.get(name) {
                        if s.contains(&ex) {
                            optional.extend(s.iter().copied().filter(|i| *i != ex && self.defs[*i].file != self.defs[ex].file));
                        }
                    }
                }
                if !imp.is_empty() {
                    let mut accept = optional.clone();
                    accept.extend(imp);
                    return Expect { accept, via: Via::ConftestImport(c.clone()), none_ok: false };
                }
            }
            dir = parent_dir(&d);
        }
        // 3. workspace plugins
        let plug: BTreeSet<usize> = self.defs.iter().enumerate().filter(|(i, d)| d.name == name && d.origin == Origin::WorkspacePlugin && Some(*i) != exclude).map(|(i, _)| i).collect();
        if !plug.is_empty() {
            let mut accept = optional.clone();
            accept.extend(plug);
            return Expect { accept, via: Via::WorkspacePlugin, none_ok: false };
        }
        // 4. third-party
        let tp: BTreeSet<usize> = self.defs.iter().enumerate().filter(|(i, d)| d.name == name && d.origin == Origin::ThirdParty && Some(*i) != exclude).map(|(i, _)| i).collect();
        if !tp.is_empty() {
            let mut accept = optional.clone();
            accept.extend(tp);
            return Expect { accept, via: Via::ThirdParty, none_ok: false };
        }
        if !optional.is_empty() {
            // nothing further out: the shadowed import or nothing
            return Expect { accept: optional, via: Via::Nothing, none_ok: true };
        }
        Expect { accept: BTreeSet::new(), via: Via::Nothing, none_ok: false }
    }

    /// Every name visible from `file`, with the acceptable definitions for each.
    pub fn visible(&self, file: &str) -> BTreeMap<String, Expect> {
        let mut names: BTreeSet<String> = BTreeSet::new();
        for d in &self.defs {
            names.insert(d.name.clone());
        }
        let mut out = BTreeMap::new();
        for n in names {
            let e = self.resolve(file, &n, None);
            if !e.accept.is_empty() {
                out.insert(n, e);
            }
        }
        out
    }

    /// The definition (index) whose `def` line carries the usage token at (file, line), if that
    /// usage is a parameter of a fixture.
    pub fn enclosing_fixture(&self, file: &str, tok_line: usize, in_fixture: &Option<(String, usize)>) -> Option<usize> {
        let (name, line) = in_fixture.as_ref()?;
        let _ = tok_line;
        self.defs.iter().position(|d| d.file == file && d.line == *line && &d.name == name)
    }

    /// Dependency edges of definition `i` (C16): dep name -> acceptable target definitions.
    pub fn dep_edges(&self, i: usize) -> Vec<(String, Expect)> {
        let d = &self.defs[i];
        d.deps
            .iter()
            .map(|dep| {
                let ex = if *dep == d.name { Some(i) } else { None };
                (dep.clone(), self.resolve(&d.file, dep, ex))
            })
            .collect()
    }

    pub fn usage_tokens(&self) -> Vec<(String, super::pytext::Tok)> {
        let mut v = vec![];
        for (f, r) in &self.rendered {
            for t in &r.toks {
                if !matches!(t.kind, TokKind::Def | TokKind::BodyUse) {
                    v.push((f.clone(), t.clone()));
                }
            }
        }
        v
    }
}
