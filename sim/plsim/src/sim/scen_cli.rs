//! S-CLI (C20): the real CLI code (clap parsing, handlers, `process::exit`) runs in seeded child
//! processes of this binary — each child is itself a deterministic simulation — under R different
//! σ; the parent builds the same index in-process as the server would and compares.

use super::batch::{RunOut, Scenario, Tier};
use super::dbsnap::{all_defs, rel};
use super::scen_resolve::{abort_to_violation, scan_then};
use super::simcfg::{replay_list, SimParams};
use super::util::{fnv, mix, Rng, Sandbox};
use super::ws::{gen_ws, WsOpts, WsSpec};
use serde::{Deserialize, Serialize};
use serde_json::Value;
use std::collections::{BTreeMap, BTreeSet};
use std::path::Path;

#[derive(Clone, Debug, Serialize, Deserialize)]
pub struct CliInput {
    pub spec: WsSpec,
    pub sims: Vec<SimParams>,
    pub orders: Vec<Vec<usize>>,
    pub run_seed: u64,
    #[serde(default)]
    pub sandbox: Option<String>,
    /// also run the CLI on this sub-directory of the workspace (its conftest imports a module that lives above it)
    #[serde(default)]
    pub subdir: Option<String>,
}

pub struct Cli;

/// Entry point of `plsim cli-child <sim-json> -- <argv...>`.
pub fn child_main(args: &[String]) -> ! {
    use clap::Parser;
    let sim: SimParams = serde_json::from_str(&args[0]).expect("sim params");
    // output-channel fault, decided by the parent's seed and applied before the CLI writes its first byte (so the
    // outcome does not depend on how fast a reader is): stdout is a pipe nobody reads (EPIPE) or a full device (ENOSPC)
    match std::env::var("PLSIM_STDOUT_FAULT").ok().as_deref() {
        Some("closed-pipe") => unsafe {
            let mut fds = [0i32; 2];
            if pipe(fds.as_mut_ptr()) == 0 {
                close(fds[0]);
                dup2(fds[1], 1);
                close(fds[1]);
            }
        },
        Some("dev-full") => {
            use std::os::fd::AsRawFd;
            if let Ok(f) = std::fs::OpenOptions::new().write(true).open("/dev/full") {
                unsafe {
                    dup2(f.as_raw_fd(), 1);
                }
            }
        }
        _ => {}
    }
    let argv: Vec<String> = std::iter::once("pytest-language-server".to_string()).chain(args[2..].iter().cloned()).collect();
    let (oc, _) = simrt::run(sim.cfg(None), move || match crate::Cli::try_parse_from(argv) {
        Ok(cli) => match cli.command {
            Some(crate::Commands::Fixtures { command }) => match command {
                crate::FixtureCommands::List { path, skip_unused, only_unused } => crate::handle_fixtures_list(path, skip_unused, only_unused),
                crate::FixtureCommands::Unused { path, format } => crate::handle_fixtures_unused(path, &format),
            },
            None => {}
        },
        Err(e) => {
            eprintln!("{}", e);
            std::process::exit(2);
        }
    });
    if let Some(a) = oc.abort {
        eprintln!("CHILD-ABORT {:?}: {}", a.kind, a.detail);
        std::process::exit(70);
    }
    std::process::exit(0)
}

extern "C" {
    fn pipe(fds: *mut i32) -> i32;
    fn dup2(a: i32, b: i32) -> i32;
    fn close(fd: i32) -> i32;
}

pub fn run_child(sim: &SimParams, argv: &[&str]) -> Result<(i32, String, String), String> {
    run_child_faulty(sim, argv, None)
}

/// `stdout_fault`: None | Some("closed-pipe") | Some("dev-full").  A child killed by a signal reports -(signal number).
pub fn run_child_faulty(sim: &SimParams, argv: &[&str], stdout_fault: Option<&str>) -> Result<(i32, String, String), String> {
    use std::os::unix::process::ExitStatusExt;
    let exe = std::env::current_exe().map_err(|e| e.to_string())?;
    let mut cmd = std::process::Command::new(exe);
    match stdout_fault {
        Some(f) => cmd.env("PLSIM_STDOUT_FAULT", f),
        None => cmd.env_remove("PLSIM_STDOUT_FAULT"),
    };
    let o = cmd
        .arg("cli-child")
        .arg(serde_json::to_string(sim).unwrap())
        .arg("--")
        .args(argv)
        .env("NO_COLOR", "1")
        .env_remove("VIRTUAL_ENV")
        .env_remove("CLICOLOR_FORCE")
        .output()
        .map_err(|e| e.to_string())?;
    let code = o.status.code().unwrap_or_else(|| if stdout_fault.is_some() { -o.status.signal().unwrap_or(1) } else { -1 });
    Ok((code, String::from_utf8_lossy(&o.stdout).to_string(), String::from_utf8_lossy(&o.stderr).to_string()))
}

/// Parse the `fixtures list` tree: (relative file path, fixture name) -> usage info text.
fn parse_tree(out: &str) -> BTreeMap<(String, String), String> {
    let mut res = BTreeMap::new();
    let mut stack: Vec<String> = vec![];
    let mut cur_file: Option<(usize, String)> = None;
    for line in out.lines().skip(2) {
        let chars: Vec<char> = line.chars().collect();
        let lead = chars.iter().position(|c| c.is_alphanumeric() || *c == '_' || *c == '.').unwrap_or(chars.len());
        let depth = lead / 4;
        let body: String = chars[lead..].iter().collect();
        if body.is_empty() {
            continue;
        }
        if let Some(d) = body.strip_suffix("/").or_else(|| body.strip_suffix("/ (editable install)")) {
            stack.truncate(depth);
            stack.push(d.to_string());
            cur_file = None;
        } else if body.ends_with(" fixtures)") && body.contains(" (") {
            let name = body.rsplit_once(" (").map(|x| x.0).unwrap_or(&body).to_string();
            stack.truncate(depth);
            let mut p = stack.clone();
            p.push(name);
            cur_file = Some((depth, p.join("/")));
        } else if let Some((fd, fpath)) = &cur_file {
            if depth == fd + 1 {
                if let Some((name, info)) = body.rsplit_once(" (") {
                    res.insert((fpath.clone(), name.to_string()), info.trim_end_matches(')').to_string());
                }
            }
        }
    }
    res
}

impl Scenario for Cli {
    fn name(&self) -> &'static str {
        "cli"
    }
    fn rule(&self) -> &'static str {
        "generated workspace (shadowing, overrides, imported, autouse, optional venv with third-party and workspace-plugin fixtures) materialised \
         once; `fixtures unused` (text, json), `fixtures list` (plain, --skip-unused, --only-unused) run as child processes through the real clap \
         parser under R sigmas (workers, hash seed, shards, schedule, readdir order); compared with the in-process server index: unused = project, \
         not autouse, zero references; exit status 1 iff non-empty; JSON valid and equal to text; printed counts = |references|; filters partition; \
         stdout byte-identical across sigmas; non-trivial = some fixture is unused and some name has >= 2 definitions; distinct = spec hash"
    }
    fn runs(&self, tier: Tier) -> u64 {
        match tier {
            Tier::Quick => 1_000,
            Tier::Thorough => 30_000,
        }
    }
    fn shrink_paths(&self) -> Vec<&'static str> {
        vec!["/spec/files", "/spec/files/*/items"]
    }

    fn gen(&self, run_seed: u64, tier: Tier) -> Value {
        let mut rng = Rng::new(run_seed);
        let mut o = WsOpts::default();
        o.file.in_class = false;
        o.n_names = rng.range(3, 5);
        o.venv = rng.chance(350);
        o.colliding_imports = rng.chance(400);
        o.same_file_dups = false;
        let mut spec = gen_ws(&mut rng, &o);
        // a sub-directory whose conftest star-imports a helper module that lives ABOVE it: `fixtures ... <ws>/<dir>` then
        // reports fixtures from files outside the scanned directory
        let mut subdir = None;
        if rng.chance(300) {
            let dirs: BTreeSet<String> = spec.files.iter().filter(|f| !f.rel.starts_with('.')).filter_map(|f| f.rel.split_once('/').map(|x| x.0.to_string())).collect();
            let dirs: Vec<String> = dirs.into_iter().collect();
            if !dirs.is_empty() && spec.file("outer_helpers.py").is_none() {
                let d = rng.pick(&dirs).clone();
                use super::pytext::{Fx, Item, PyFile, Tst};
                spec.files.push(PyFile { rel: "outer_helpers.py".into(), items: vec![Item::Fixture(Fx { func: "outer_only".into(), ..Default::default() }), Item::Fixture(Fx { func: "outer_used".into(), ..Default::default() })] });
                let star = Item::Star { module: "outer_helpers".into(), target: Some("outer_helpers.py".into()) };
                let cf = format!("{}/conftest.py", d);
                match spec.files.iter_mut().find(|f| f.rel == cf) {
                    Some(f) => f.items.insert(0, star),
                    None => spec.files.push(PyFile { rel: cf, items: vec![star] }),
                }
                spec.files.push(PyFile { rel: format!("{}/test_outer_use.py", d), items: vec![Item::Test(Tst { name: "test_outer".into(), params: vec!["outer_used".into()], ..Default::default() })] });
                subdir = Some(d);
            }
        }
        // a pyproject.toml whose exclude patterns hide part of the workspace from the server: the CLI must see the same workspace
        if rng.chance(250) {
            let dirs: BTreeSet<String> = spec.files.iter().filter(|f| !f.rel.starts_with('.')).filter_map(|f| f.rel.split_once('/').map(|x| x.0.to_string())).collect();
            let dirs: Vec<String> = dirs.into_iter().filter(|d| d != "plugsrc" && Some(d) != subdir.as_ref()).collect();
            if !dirs.is_empty() {
                let d = rng.pick(&dirs).clone();
                let pat = if rng.chance(500) { format!("{}/**", d) } else { format!("**/{}/**", d) };
                spec.extra.push(("pyproject.toml".to_string(), format!("[tool.pytest-language-server]\nexclude = [{:?}]\n", pat)));
            }
        }
        let r = if tier == Tier::Quick { 3 } else { 6 };
        let mut sims = vec![];
        let mut orders = vec![];
        for _ in 0..r {
            let mut s = SimParams::gen(&mut rng, 3000);
            s.max_steps = 50_000_000;
            sims.push(s);
            let mut p: Vec<usize> = (0..spec.files.len()).collect();
            rng.shuffle(&mut p);
            orders.push(p);
        }
        serde_json::to_value(CliInput { spec, sims, orders, run_seed, sandbox: None, subdir }).unwrap()
    }

    fn exec(&self, input: &Value) -> RunOut {
        let mut out = RunOut::default();
        let inp: CliInput = match serde_json::from_value(input.clone()) {
            Ok(i) => i,
            Err(e) => {
                out.harness_error = Some(format!("bad input: {}", e));
                return out;
            }
        };
        if inp.sims.is_empty() {
            return out;
        }
        let sb = Sandbox::acquire("c20", inp.run_seed, inp.sandbox.as_deref().map(Path::new));
        out.fingerprint = fnv(&serde_json::to_string(&inp.spec).unwrap());
        // reference: in-process index, as the server builds it
        let root = inp.spec.materialise(&sb.root());
        if inp.spec.extra.iter().any(|(f, _)| f == "pyproject.toml") {
            out.count("fault.exclude_patterns_configured", 1);
        }
        let root_c = root.clone();
        let (oc, refd) = simrt::run(inp.sims[0].cfg(replay_list(input, 0)), move || {
            // as the server does at initialize: configuration first, then the scan with its exclude patterns
            let db = std::sync::Arc::new(crate::fixtures::FixtureDatabase::new());
            let cfg = crate::config::Config::load(&root_c);
            db.scan_workspace_with_excludes(&root_c, &cfg.exclude);
            let (db, root) = (&db, &root_c);
            let mut v = vec![];
            for d in all_defs(db) {
                let n = db.find_references_for_definition(&d).len();
                v.push((rel(root, &d.file_path), d.name.clone(), d.is_third_party, d.autouse, n));
            }
            v
        });
        out.absorb_outcome(&oc);
        if let Some(a) = &oc.abort {
            abort_to_violation(&mut out, a, "reference scan");
            return out;
        }
        let Some(refd) = refd else {
            out.harness_error = Some("no reference".into());
            return out;
        };
        // counts per (file, name) as the CLI keys them
        let mut group: BTreeMap<(String, String), (bool, bool, usize)> = BTreeMap::new();
        for (f, n, tp, au, cnt) in &refd {
            let e = group.entry((f.clone(), n.clone())).or_insert((*tp, false, 0));
            e.1 |= *au;
            e.2 += *cnt;
        }
        let expected_unused: BTreeSet<(String, String)> = group.iter().filter(|(_, (tp, au, n))| !*tp && !*au && *n == 0).map(|(k, _)| k.clone()).collect();
        let names: BTreeMap<&String, usize> = refd.iter().fold(BTreeMap::new(), |mut m, x| {
            *m.entry(&x.1).or_insert(0) += 1;
            m
        });
        out.nontrivial = !expected_unused.is_empty() && names.values().any(|n| *n >= 2);
        let rootstr = root.to_string_lossy().to_string();
        let mut first: Option<Vec<(i32, String)>> = None;
        for (k, sim) in inp.sims.iter().enumerate() {
            // new readdir order = re-materialise with another creation order
            let _ = std::fs::remove_dir_all(sb.root());
            let mut spec_k = inp.spec.clone();
            if let Some(p) = inp.orders.get(k) {
                if p.len() == spec_k.files.len() && { let mut q = p.clone(); q.sort(); q == (0..p.len()).collect::<Vec<_>>() } {
                    spec_k.files = p.iter().map(|i| inp.spec.files[*i].clone()).collect();
                }
            }
            if !spec_k.extra.is_empty() {
                let n = spec_k.extra.len();
                spec_k.extra.rotate_left(k % n);
                if k % 2 == 1 {
                    spec_k.extra.reverse();
                }
            }
            spec_k.materialise(&sb.root());
            let cmds: Vec<Vec<&str>> = vec![
                vec!["fixtures", "unused", &rootstr],
                vec!["fixtures", "unused", &rootstr, "--format", "json"],
                vec!["fixtures", "list", &rootstr],
                vec!["fixtures", "list", &rootstr, "--skip-unused"],
                vec!["fixtures", "list", &rootstr, "--only-unused"],
            ];
            let mut outs = vec![];
            for c in &cmds {
                match run_child(sim, c) {
                    Ok((code, so, se)) => {
                        out.count("child_processes", 1);
                        if code == 70 || se.contains("CHILD-ABORT") {
                            out.violate("cli-child-abort", format!("child {:?} aborted: {}", c, se));
                            return out;
                        }
                        if code == 101 || se.contains("panicked") {
                            out.violate("cli-panic", format!("child {:?} panicked: {}", c, super::batch::clip(&se, 600)));
                            return out;
                        }
                        outs.push((code, so));
                    }
                    Err(e) => {
                        out.harness_error = Some(format!("cannot run child: {}", e));
                        return out;
                    }
                }
            }
            out.state_hash = mix(out.state_hash, fnv(&outs[2].1));
            if k == 0 {
                // semantic checks on the first σ
                let (code_t, text) = &outs[0];
                let (code_j, js) = &outs[1];
                let text_entries: BTreeSet<(String, String)> = text
                    .lines()
                    .filter_map(|l| {
                        let l = l.trim_start();
                        let l = l.strip_prefix("• ")?;
                        let (name, file) = l.split_once(" in ")?;
                        Some((file.trim().to_string(), name.trim().to_string()))
                    })
                    .collect();
                if text_entries != expected_unused {
                    out.violate("cli-unused-disagrees-with-server", format!("`fixtures unused` lists {:?}; the server's index says project, non-autouse fixtures with zero references are {:?}", text_entries, expected_unused));
                }
                let want_code = if expected_unused.is_empty() { 0 } else { 1 };
                if *code_t != want_code || *code_j != want_code {
                    out.violate("cli-exit-status", format!("exit status text={} json={}, expected {} ({} unused)", code_t, code_j, want_code, expected_unused.len()));
                }
                match serde_json::from_str::<Value>(js) {
                    Ok(v) => {
                        let je: BTreeSet<(String, String)> = v.as_array().cloned().unwrap_or_default().iter().map(|e| (e["file"].as_str().unwrap_or("").to_string(), e["fixture"].as_str().unwrap_or("").to_string())).collect();
                        if je != text_entries || v.as_array().map(|a| a.len()).unwrap_or(0) != text.lines().filter(|l| l.trim_start().starts_with("• ")).count() {
                            out.violate("cli-json-differs-from-text", format!("json {:?} vs text {:?}", je, text_entries));
                        }
                    }
                    Err(e) => out.violate("cli-json-invalid", format!("{}: {:?}", e, super::batch::clip(js, 300))),
                }
                // list counts
                let all = parse_tree(&outs[2].1);
                let skip = parse_tree(&outs[3].1);
                let only = parse_tree(&outs[4].1);
                for ((f, n), (_tp, au, cnt)) in &group {
                    // the tree shows out-of-workspace editable installs under their virtual site-packages path
                    let shown = match f.strip_prefix("../extsrc/") {
                        Some(rest) => format!("{}/{}", super::ws::SITE, rest),
                        None => f.clone(),
                    };
                    let Some(info) = all.get(&(shown, n.clone())) else {
                        out.violate("cli-list-misses-fixture", format!("`fixtures list` does not show {}:{} (parsed {} entries)", f, n, all.len()));
                        continue;
                    };
                    let want = match (*cnt, *au) {
                        (0, true) => "autouse=True".to_string(),
                        (1, true) => "used 1 time, autouse=True".to_string(),
                        (c, true) => format!("used {} times, autouse=True", c),
                        (0, false) => "unused".to_string(),
                        (1, false) => "used 1 time".to_string(),
                        (c, false) => format!("used {} times", c),
                    };
                    if *info != want {
                        out.violate("cli-list-count-differs", format!("`fixtures list` shows {}:{} as ({}), the server reports {} references (autouse={})", f, n, info, cnt, au));
                    }
                }
                if all.len() != group.len() {
                    out.violate("cli-list-extra-entries", format!("list shows {} fixtures, index has {}", all.len(), group.len()));
                }
                let sk: BTreeSet<_> = skip.keys().cloned().collect();
                let on: BTreeSet<_> = only.keys().cloned().collect();
                let al: BTreeSet<_> = all.keys().cloned().collect();
                if !sk.is_disjoint(&on) || sk.union(&on).cloned().collect::<BTreeSet<_>>() != al {
                    out.violate("cli-filters-do-not-partition", format!("--skip-unused {:?} / --only-unused {:?} / all {:?}", sk, on, al));
                }
                // the same commands on a sub-directory: entries of files outside it keep their full path in both formats
                if let Some(d) = inp.subdir.as_ref().filter(|d| root.join(d).is_dir()) {
                    let sub = root.join(d);
                    let (oc2, ref2) = scan_then(&inp.sims[0], None, sub.clone(), |db, sub| {
                        let mut m: BTreeMap<(String, String), (bool, bool, usize)> = BTreeMap::new();
                        for d in all_defs(db) {
                            let n = db.find_references_for_definition(&d).len();
                            let e = m.entry((rel(sub, &d.file_path), d.name.clone())).or_insert((d.is_third_party, false, 0));
                            e.1 |= d.autouse;
                            e.2 += n;
                        }
                        m
                    });
                    out.absorb_outcome(&oc2);
                    if let Some(a) = &oc2.abort {
                        abort_to_violation(&mut out, a, "reference scan of the sub-directory");
                        return out;
                    }
                    let want: BTreeSet<(String, String)> = ref2.unwrap_or_default().iter().filter(|(_, (tp, au, n))| !*tp && !*au && *n == 0).map(|(k, _)| k.clone()).collect();
                    let substr = sub.to_string_lossy().to_string();
                    let norm = |f: &str| if Path::new(f).is_absolute() { rel(&sub, Path::new(f)) } else { f.to_string() };
                    let mut got: Vec<BTreeSet<(String, String)>> = vec![];
                    for c in [vec!["fixtures", "unused", substr.as_str()], vec!["fixtures", "unused", substr.as_str(), "--format", "json"]] {
                        match run_child(sim, &c) {
                            Ok((code, so, se)) => {
                                out.count("child_processes", 1);
                                if code == 70 || code == 101 || se.contains("panicked") || se.contains("CHILD-ABORT") {
                                    out.violate("cli-panic", format!("child {:?} failed: {}", c, super::batch::clip(&se, 600)));
                                    return out;
                                }
                                let entries: BTreeSet<(String, String)> = if c.len() == 3 {
                                    so.lines().filter_map(|l| l.trim_start().strip_prefix("• ")?.split_once(" in ").map(|(n, f)| (norm(f.trim()), n.trim().to_string()))).collect()
                                } else {
                                    serde_json::from_str::<Value>(&so).ok().and_then(|v| v.as_array().cloned()).unwrap_or_default().iter().map(|e| (norm(e["file"].as_str().unwrap_or("")), e["fixture"].as_str().unwrap_or("").to_string())).collect()
                                };
                                let want_code = if want.is_empty() { 0 } else { 1 };
                                if code != want_code {
                                    out.violate("cli-exit-status", format!("{:?}: exit status {}, expected {} ({} unused)", c, code, want_code, want.len()));
                                }
                                got.push(entries);
                            }
                            Err(e) => {
                                out.harness_error = Some(format!("cannot run child: {}", e));
                                return out;
                            }
                        }
                    }
                    out.count("probe.subdir_run", 1);
                    if want.iter().any(|(f, _)| f.starts_with("../")) {
                        out.count("probe.subdir_unused_outside_scanned_dir", 1);
                    }
                    if got[0] != want {
                        out.violate("cli-unused-disagrees-with-server", format!("`fixtures unused {}` lists {:?}; an index of the same directory has {:?}", d, got[0], want));
                    }
                    if got[1] != got[0] {
                        out.violate("cli-json-differs-from-text", format!("`fixtures unused {}`: json {:?} vs text {:?}", d, got[1], got[0]));
                    }
                }
                first = Some(outs);
            } else if let Some(f) = &first {
                for (i, (a, b)) in f.iter().zip(outs.iter()).enumerate() {
                    if a != b {
                        out.violate("cli-output-not-reproducible", format!("command {:?} printed different bytes / status under sigma 0 and sigma {}: {:?} vs {:?}", cmds[i], k, super::batch::clip(&a.1, 500), super::batch::clip(&b.1, 500)));
                        break;
                    }
                }
            }
        }
        out
    }
}
