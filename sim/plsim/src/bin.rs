fn main() {
    plsim::sim::main();
}
