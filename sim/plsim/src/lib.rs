#![allow(dead_code, unused_imports, clippy::all)]
// The repository's main.rs with its whole module tree (config, fixtures, providers), compiled
// inside this crate so that `crate::sim` can call private items.
include!(concat!(env!("OUT_DIR"), "/src_overlay/main.rs"));

pub mod sim;
