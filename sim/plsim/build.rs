//! Copies $PLSIM_REPO/src (default /repo/src) to OUT_DIR/src_overlay, replacing the token
//! `std::sync::Mutex` in fixtures/mod.rs by `simrt::sync::Mutex` (DESIGN.md §2 #7) and nothing else.
use std::fs;
use std::path::{Path, PathBuf};

fn copy_dir(src: &Path, dst: &Path, subs: &mut usize) {
    fs::create_dir_all(dst).unwrap();
    for e in fs::read_dir(src).unwrap() {
        let e = e.unwrap();
        let p = e.path();
        let d = dst.join(e.file_name());
        if p.is_dir() {
            copy_dir(&p, &d, subs);
        } else if p.extension().and_then(|s| s.to_str()) == Some("rs") {
            let mut text = fs::read_to_string(&p).unwrap();
            if p.ends_with("fixtures/mod.rs") {
                let n = text.matches("std::sync::Mutex").count();
                *subs += n;
                text = text.replace("std::sync::Mutex", "simrt::sync::Mutex");
            }
            // only rewrite when different, so unchanged files keep their mtime for rustc's dep-info
            let same = fs::read_to_string(&d).map(|old| old == text).unwrap_or(false);
            if !same {
                fs::write(&d, text).unwrap();
            }
        }
    }
}

fn main() {
    let repo = std::env::var("PLSIM_REPO").unwrap_or_else(|_| "/repo".to_string());
    println!("cargo:rerun-if-env-changed=PLSIM_REPO");
    println!("cargo:rerun-if-changed={}/src", repo);
    println!("cargo:rerun-if-changed=build.rs");
    let out = PathBuf::from(std::env::var("OUT_DIR").unwrap());
    let dst = out.join("src_overlay");
    // remove stale files (deleted upstream)
    if dst.exists() {
        fn prune(src: &Path, dst: &Path) {
            for e in fs::read_dir(dst).unwrap() {
                let e = e.unwrap();
                let s = src.join(e.file_name());
                if !s.exists() {
                    if e.path().is_dir() { let _ = fs::remove_dir_all(e.path()); } else { let _ = fs::remove_file(e.path()); }
                } else if e.path().is_dir() {
                    prune(&s, &e.path());
                }
            }
        }
        prune(&Path::new(&repo).join("src"), &dst);
    }
    let mut subs = 0usize;
    copy_dir(&Path::new(&repo).join("src"), &dst, &mut subs);
    if subs != 8 {
        println!("cargo:warning=overlay: expected 8 std::sync::Mutex substitutions in fixtures/mod.rs, made {}", subs);
    }
    fs::write(
        out.join("overlay_info.rs"),
        format!("pub const OVERLAY_SUBSTITUTIONS: usize = {};\npub const REPO_PATH: &str = {:?};\n", subs, repo),
    )
    .unwrap();
}
