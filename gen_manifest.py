#!/usr/bin/env python3
"""Regenerates MANIFEST.json from the table below (kept as a script so the manifest stays valid and uniform)."""
import json, sys
CLAIMED = {
 "C09": dict(note="2-3 concurrent analyze_file/analyze_file_fresh on distinct files sharing names, op-level interleavings (random walk + PCT, 1/2/4 shards); oracle: index equals some sequential execution as multisets, reverse indices mirror forward ones.",
             technique="deterministic simulation: seeded schedule search over DashMap lock points, sequential-outcome oracle", ref="§8 C09, §7.5"),
}
NA = {
 "C03": "pure function of one file's text (no schedule, clock, I/O, fault or history in the statement); needs a CPython-parser differential over a grammar, which is input generation, not simulation",
 "C15": "token positions are a pure function of program text; exactness needs CPython's tokenizer as oracle over a grammar (input generation); only the structural clause is monitored as a by-product of C11 runs, without a claim",
 "C17": "pure function of (document text, visible fixture names) plus a fixed edit round trip; nothing scheduled, timed or faulted; its order-dependent ingredient is covered by C06/C10/C19",
 "C18": "pure function of (text, cursor, visible set); the cache behind the visible set is C07, agreement with navigation is C05",
}
PENDING = "check under construction in this session (will be claimed once its simulation scenario is committed)"
ALL = ["C%02d" % i for i in range(1, 21)]
checks = []
for pid in ALL:
    if pid in CLAIMED:
        c = CLAIMED[pid]
        checks.append({
            "property_id": pid,
            "quick_cmd": "./check %s --tier quick" % pid,
            "thorough_cmd": "./check %s --tier thorough" % pid,
            "evidence_file": "/verif/evidence/%s.json" % pid,
            "replay_cmd_template": "./check %s --replay {path}" % pid,
            "engine": "plsim",
            "level_claimed": {"category": "exploration", "text": c["note"] + " Seeded search over schedules/histories/fault sequences: a clean batch is evidence, not proof.", "design_ref": c["ref"]},
            "level_note": "Trusted base: the simulator (simrt baton scheduler), the patched dashmap lock having 6.1.0's admission rule, the rayon/spawn_blocking shims over-approximating only along dimensions the statement quantifies over, the oracle/reference model in sim/plsim/src/sim. Real: all of /repo/src, rustpython-parser, tower-lsp-server, tokio runtime, dashmap map logic, tmpfs.",
            "technique": c["technique"],
        })
na = [{"property_id": p, "reason": NA[p]} for p in ALL if p in NA]
na += [{"property_id": p, "reason": PENDING} for p in ALL if p not in NA and p not in CLAIMED]
m = {
 "version": 1,
 "setup_cmd": "./check build && ./check selftest",
 "hooks": {"guard": "pytest_language_server_verif (reserved; no hook commits were needed: every seam is reached from outside /repo, see DESIGN.md §4.4)",
           "enable": "none needed: the harness crate sim/plsim compiles a build-time copy of /repo/src (build.rs) with shims for dashmap's lock, rayon and tokio::task::spawn_blocking substituted through its own Cargo.toml",
           "baseline_off_cmd": "cd /repo && cargo test --workspace --no-fail-fast --offline",
           "source_commits": [], "add_only": True},
 "engines": [{"name": "plsim", "path": "sim/plsim", "serves_properties": sorted(CLAIMED), "kind_free_text": "deterministic simulation with fault injection: own baton scheduler (simrt) over real OS threads, patched dashmap lock, rayon/tokio shims, seeded getrandom, tmpfs workspaces, in-memory LSP transport"}],
 "checks": checks,
 "not_applicable": na,
 "notes": "Exit codes: 0 held, 1 violation (VIOLATION line + replay file under /verif/replays), 2 harness error. VERIF_SEED selects the master seed (default 20260926). Known findings: /verif/known_findings.json.",
}
json.dump(m, open("/verif/MANIFEST.json", "w"), indent=1)
print("claimed:", sorted(CLAIMED))
