#!/usr/bin/env python3
"""Regenerates MANIFEST.json from the table below (kept as a script so the manifest stays valid and uniform)."""
import json, sys
CLAIMED = {
 "C01": dict(note="Generated workspaces (conftest hierarchy, helper modules imported by star/explicit/pytest_plugins, overrides, same-named definitions in siblings, synthetic venv with plugins and editable installs) scanned by the real scan_workspace under seeded schedule/workers/shards/hash seed/readdir order; every usage token x every column resolved and compared with an independent reference model of pytest's lookup.",
             technique="deterministic simulation: seeded scan schedules over generated workspaces, reference-model oracle", ref="§8 C01, §7.1"),
 "C02": dict(note="Same engine biased to override chains; go-to-definition at EVERY column of each overriding def line, references at the name span, each test's binding; oracle = reference model with self-exclusion.",
             technique="deterministic simulation: seeded scan schedules, reference-model oracle with self-exclusion", ref="§8 C02"),
 "C04": dict(note="All (definition, usage) pairs after real scans of generated workspaces and after EVERY prefix of generated edit histories: usage in references(D) <=> go-to-definition(U)=D; code lens = incoming calls (+same-line rule) = |references|; unused list = zero-reference project fixtures; reverse index mirrors forward index.",
             technique="deterministic simulation: seeded scans and edit histories, internal-equivalence oracle", ref="§8 C04, §7.2"),
 "C05": dict(note="At every usage position seven real handlers (definition, hover, implementation, prepareCallHierarchy, outgoingCalls, inlayHint, completion) called on the real Backend and compared with each other and with get_available_fixtures; workspaces with names defined twice in a file and registration order varied by the schedule.",
             technique="deterministic simulation: seeded scan schedules, cross-feature agreement oracle", ref="§8 C05, §7.2"),
 "C06": dict(note="Generated edit histories (add/remove/rename, removal-only, import-only, syntax break/repair, identical resend); after EVERY prefix the long-lived index is compared with a fresh twin built from the latest valid contents (maps as multisets, normalised answer snapshot, undeclared findings of the last-changed document).",
             technique="deterministic simulation: seeded edit histories vs fresh-twin reference", ref="§8 C06, §7.3"),
 "C07": dict(note="Histories interleaving analyses with cache-filling queries (incl. order-sensitive probes), open/close of unmodified documents and cache pressure (2001 filler files => real eviction); warm answers compared with a cold twin at each checkpoint; 3-module import rings entered at two points.",
             technique="deterministic simulation with fault injection (close, eviction, query order): warm-vs-cold twin oracle", ref="§8 C07, §7.4"),
 "C08": dict(note="One workspace scanned K times (4 quick / 8 thorough) by the real scanner under different strategy, worker count, readdir permutation, std hash seed (= new process), DashMap hasher key and shard count; all normalised snapshots (resolution, references, available fixtures, cycles, scope mismatches, symbols, lenses, inlay hints, unused list) must be equal.",
             technique="deterministic simulation: same input under K seeded schedules/configurations, snapshot-equality oracle", ref="§8 C08, §7.6"),
 "C09": dict(note="2-3 concurrent analyze_file/analyze_file_fresh on distinct files sharing names, op-level interleavings (random walk + PCT, 1/2/4 shards); oracle: index equals some sequential execution as multisets, reverse indices mirror forward ones.",
             technique="deterministic simulation: seeded schedule search over DashMap lock points, sequential-outcome oracle", ref="§8 C09, §7.5"),
 "C10": dict(note="Full stack: the real initialize starts the scan (tokio facade -> simulated thread, 1-4 shim workers); didOpen/didChange(F, buffer != disk) is sent after a generated number of scheduler steps so that it lands before, inside or after the worker's read/analyse of F; per-file records compared with a single analysis of the buffer; one further didChange must restore exactly (clause 2 checked strictly).",
             technique="deterministic simulation: scan thread vs notification interleavings over the real Server::serve, single-analysis oracle", ref="§8 C10"),
 "C11": dict(note="Library + every real handler at every recorded span boundary and hostile position after valid -> unparsable multi-byte edits (stale spans); full stack with malformed/unreadable/non-UTF-8/symlink-loop files and broken plugin metadata during the scan, frame fragmentation/coalescing, $/cancelRequest, late/erroring refresh answers, EOF mid-frame; invariants: no panic, exactly one response per request id, probe answered after the last fault, scan completes and indexes well-formed files.",
             technique="deterministic simulation with fault injection (transport, filesystem adversary, stale-span histories): crash/wedge invariants", ref="§8 C11, §6.3"),
 "C12": dict(note="Real scan (1-4 shim workers) + editing thread + one or two query threads (every public query and every handler) run concurrently under 1-shard placement (half of the runs: every two keys of a map collide), 2/4/16 shards, PCT depth<=3 and random walks; cyclic inputs (circular/self imports via star/explicit/pytest_plugins, 3-module rings, circular and self-referential fixture dependencies, directory chains of depth 20-60). Scheduler-detected deadlock/self-deadlock, per-operation bound of 200k own steps, run budget. The same detectors are active in every run of every other check.",
             technique="deterministic simulation: lock-level scheduler with deadlock detection, adversarial shard placement, PCT schedules", ref="§8 C12"),
 "C13": dict(note="Generated trees (file names near the patterns, ignored/near-ignored directory names at any depth, valid and invalid exclude globs, venv inside the root) scanned through Config::load + scan_workspace_with_excludes at 3-4 absolute locations (neutral, ancestors named like ignored directories, ancestor containing 'site-packages'): file set vs discovery model, relative snapshots equal across locations; separate fault batch: invalid UTF-8, EISDIR, dangling symlink, symlink loop, truncate, and delete/rewrite between walk and read by an adversary thread at a generated scheduler step - faulted files may be missing, nothing else changes.",
             technique="deterministic simulation with filesystem fault injection and relocation metamorphic relation", ref="§8 C13"),
 "C14": dict(note="Generated import graphs (star/explicit/pytest_plugins, relative/absolute, transitive, cycles, 3-module rings, last-assignment-wins) and synthetic venvs (dist-info/egg-info entry points, module vs package targets, _pytest, in-workspace editable installs, .pth naming variants); visible names, origins and third-party/plugin classification compared with the reachability model and across two sigmas; third-party never among symbols.",
             technique="deterministic simulation: seeded scans (hash seed, readdir order, schedule), reachability-model oracle", ref="§8 C14, §7.1"),
 "C19": dict(note="Full stack after scan completion: generated open/change histories over documents and conftests with pyproject.toml variants (valid subsets, unknown codes, invalid globs, malformed TOML, absent), fragmented transport, late/erroring refresh answers; at quiescence the last publishDiagnostics for the changed uri equals the library's findings on a fresh twin minus validly disabled codes; exactly one publish per notification; server keeps serving.",
             technique="deterministic simulation: client actor over simulated transport, fresh-twin diagnostics oracle", ref="§8 C19"),
 "C20": dict(note="Real CLI (clap parsing, handlers, process::exit) in seeded child processes of the harness binary under R sigmas (workers, hash seed, shards, schedule, readdir order): unused list = project non-autouse zero-reference fixtures of the in-process server index; exit status; JSON valid and equal to text; list counts = |references|; filters partition; stdout byte-identical across sigmas.",
             technique="deterministic simulation: seeded child processes under different schedules/configurations, server-index oracle", ref="§8 C20"),
 "C16": dict(note="Generated dependency graphs (rings, self-loops with/without parent, overridden names, unknown deps) x scope assignments; reported cycles must be closed chains in the reference graph over resolved definitions, every cyclic SCC reported, override pattern never a cycle, scope mismatch iff resolved dependency is narrower; stability across sigma is checked by C08's snapshot.",
             technique="deterministic simulation: seeded scans, reference dependency-graph oracle", ref="§8 C16, §7.1"),
}
NA = {
 "C03": "pure function of one file's text (no schedule, clock, I/O, fault or history in the statement); needs a CPython-parser differential over a grammar, which is input generation, not simulation",
 "C15": "token positions are a pure function of program text; exactness needs CPython's tokenizer as oracle over a grammar (input generation); only the structural clause is monitored as a by-product of C11 runs, without a claim",
 "C17": "pure function of (document text, visible fixture names) plus a fixed edit round trip; nothing scheduled, timed or faulted; its order-dependent ingredient is covered by C06/C10/C19",
 "C18": "pure function of (text, cursor, visible set); the cache behind the visible set is C07, agreement with navigation is C05",
}
PENDING = "check under construction in this session (will be claimed once its simulation scenario is committed)"
ALL = ["C%02d" % i for i in range(1, 21)]
checks = []
for pid in ALL:
    if pid in CLAIMED:
        c = CLAIMED[pid]
        checks.append({
            "property_id": pid,
            "quick_cmd": "./check %s --tier quick" % pid,
            "thorough_cmd": "./check %s --tier thorough" % pid,
            "evidence_file": "/verif/evidence/%s.json" % pid,
            "replay_cmd_template": "./check %s --replay {path}" % pid,
            "engine": "plsim",
            "level_claimed": {"category": "exploration", "text": c["note"] + " Seeded search over schedules/histories/fault sequences: a clean batch is evidence, not proof.", "design_ref": c["ref"]},
            "level_note": "Trusted base: the simulator (simrt baton scheduler), the patched dashmap lock having 6.1.0's admission rule, the rayon/spawn_blocking shims over-approximating only along dimensions the statement quantifies over, the oracle/reference model in sim/plsim/src/sim. Real: all of /repo/src, rustpython-parser, tower-lsp-server, tokio runtime, dashmap map logic, tmpfs.",
            "technique": c["technique"],
        })
na = [{"property_id": p, "reason": NA[p]} for p in ALL if p in NA]
na += [{"property_id": p, "reason": PENDING} for p in ALL if p not in NA and p not in CLAIMED]
m = {
 "version": 1,
 "setup_cmd": "./check build && ./check selftest",
 "hooks": {"guard": "pytest_language_server_verif (reserved; no hook commits were needed: every seam is reached from outside /repo, see DESIGN.md §4.4)",
           "enable": "none needed: the harness crate sim/plsim compiles a build-time copy of /repo/src (build.rs) with shims for dashmap's lock, rayon and tokio::task::spawn_blocking substituted through its own Cargo.toml",
           "baseline_off_cmd": "cd /repo && cargo test --workspace --no-fail-fast --offline",
           "source_commits": [], "add_only": True},
 "engines": [{"name": "plsim", "path": "sim/plsim", "serves_properties": sorted(CLAIMED), "kind_free_text": "deterministic simulation with fault injection: own baton scheduler (simrt) over real OS threads, patched dashmap lock, rayon/tokio shims, seeded getrandom, tmpfs workspaces, in-memory LSP transport"}],
 "checks": checks,
 "not_applicable": na,
 "notes": "Exit codes: 0 held, 1 violation (VIOLATION line + replay file under /verif/replays), 2 harness error. VERIF_SEED selects the master seed (default 20260926). Known findings: /verif/known_findings.json.",
}
json.dump(m, open("/verif/MANIFEST.json", "w"), indent=1)
print("claimed:", sorted(CLAIMED))
