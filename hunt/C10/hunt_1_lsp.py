#!/usr/bin/env python3
"""C10 hunt 1 over the real binary (stdio LSP).

initialize (spawns the scan) -> initialized -> didOpen(F, unsaved buffer) right away,
as every editor does. The workspace has enough directories for the scan's directory
walk to still be running when didOpen is handled. After "Workspace scan complete" the
server is asked for the document symbols of F and for the references of `shared`.

Expected: symbols = new_fx, shared (the buffer, once).
Actual:   symbols = old_fx, new_fx, shared, shared (disk + buffer), references at disk lines.

usage: python3 hunt_1_lsp.py [path/to/pytest-language-server]
exit code 1 = violation reproduced
"""
import json
import os
import subprocess
import sys
import tempfile

BIN = sys.argv[1] if len(sys.argv) > 1 else os.path.join(
    os.path.dirname(os.path.abspath(__file__)), "target/debug/pytest-language-server")

DISK = """import pytest


@pytest.fixture
def old_fx():
    return 1


@pytest.fixture
def shared():
    return 2


def test_disk(old_fx, shared):
    pass
"""

BUFFER = """import pytest

# edited in the editor, not saved yet
# (two extra lines)

@pytest.fixture
def new_fx():
    return 1


@pytest.fixture
def shared():
    return 2


def test_buffer(new_fx, shared):
    pass
"""


class Lsp:
    def __init__(self, cmd):
        self.p = subprocess.Popen(cmd, stdin=subprocess.PIPE, stdout=subprocess.PIPE,
                                  stderr=subprocess.DEVNULL)
        self.next_id = 0
        self.logs = []

    def send(self, msg):
        body = json.dumps(msg).encode()
        self.p.stdin.write(b"Content-Length: %d\r\n\r\n" % len(body) + body)
        self.p.stdin.flush()

    def read(self):
        length = None
        while True:
            line = self.p.stdout.readline()
            if not line:
                raise EOFError
            line = line.strip()
            if not line:
                break
            if line.lower().startswith(b"content-length:"):
                length = int(line.split(b":")[1])
        return json.loads(self.p.stdout.read(length))

    def notify(self, method, params):
        self.send({"jsonrpc": "2.0", "method": method, "params": params})

    def pump(self, until):
        """Read messages until `until(msg)` is true; answer server->client requests."""
        while True:
            m = self.read()
            if "method" in m and "id" in m:  # server request (e.g. inlayHint/refresh)
                self.send({"jsonrpc": "2.0", "id": m["id"], "result": None})
            if m.get("method") == "window/logMessage":
                self.logs.append(m["params"]["message"])
            if until(m):
                return m

    def request(self, method, params):
        self.next_id += 1
        rid = self.next_id
        self.send({"jsonrpc": "2.0", "id": rid, "method": method, "params": params})
        return self.pump(lambda m: m.get("id") == rid and "method" not in m).get("result")


def main():
    with tempfile.TemporaryDirectory() as tmp:
        root = os.path.realpath(tmp)
        os.makedirs(os.path.join(root, "tests"))
        f = os.path.join(root, "tests", "test_mod.py")
        with open(f, "w") as fh:
            fh.write(DISK)
        for i in range(int(os.environ.get("BALLAST", "4000"))):  # ballast: a moderately large repository
            d = os.path.join(root, "pkg%04d" % i, "sub")
            os.makedirs(d)
            with open(os.path.join(d, "module.py"), "w") as fh:
                fh.write("x = 1\n")

        uri = "file://" + f
        lsp = Lsp([BIN])
        lsp.request("initialize", {"processId": None, "rootUri": "file://" + root,
                                   "capabilities": {},
                                   "workspaceFolders": [{"uri": "file://" + root, "name": "w"}]})
        lsp.notify("initialized", {})
        lsp.notify("textDocument/didOpen", {"textDocument": {
            "uri": uri, "languageId": "python", "version": 1, "text": BUFFER}})
        lsp.pump(lambda m: m.get("method") == "window/logMessage"
                 and m["params"]["message"] == "Workspace scan complete")

        syms = lsp.request("textDocument/documentSymbol", {"textDocument": {"uri": uri}}) or []
        got_syms = [(s["name"], s["selectionRange"]["start"]["line"] + 1) for s in syms]
        # references of `shared`, asked on its definition in the buffer (line 12, 0-based 11)
        refs = lsp.request("textDocument/references", {
            "textDocument": {"uri": uri}, "position": {"line": 11, "character": 6},
            "context": {"includeDeclaration": False}}) or []
        got_refs = sorted((os.path.basename(r["uri"]), r["range"]["start"]["line"] + 1) for r in refs)

        # one more change notification
        lsp.notify("textDocument/didChange", {"textDocument": {"uri": uri, "version": 2},
                                              "contentChanges": [{"text": BUFFER}]})
        syms2 = lsp.request("textDocument/documentSymbol", {"textDocument": {"uri": uri}}) or []
        after = [(s["name"], s["selectionRange"]["start"]["line"] + 1) for s in syms2]

        lsp.request("shutdown", None)
        try:
            lsp.notify("exit", None)
        except Exception:
            pass

        want_syms = [("new_fx", 7), ("shared", 12)]
        want_refs = [("test_mod.py", 16)]
        print("document symbols of F after scan + didOpen :", got_syms)
        print("expected (the buffer, once)                :", want_syms)
        print("references of `shared`                     :", got_refs)
        print("expected                                   :", want_refs)
        print("document symbols after one more didChange  :", after)
        bad = got_syms != want_syms or got_refs != want_refs
        print("VIOLATION REPRODUCED" if bad else "ok (window missed?)")
        sys.exit(1 if bad else 0)


if __name__ == "__main__":
    main()
