//! C10 hunt 3: a buffer that (unlike the file on disk) imports a fixture module, delivered
//! while the scan is in its import-following phase, after that phase has already looked
//! at F. `analyze_file` declines to follow the buffer's imports because a scan is running
//! ("a scan that is still running follows the imports itself"), and the scan never comes
//! back to F. Result: the fixtures the editor's text pulls in are never indexed.
//!
//! Schedule control: a FIFO `gate_mod.py` star-imported by the root conftest.py. Phase 4
//! discovers it in its first iteration (after having read the imports of every test /
//! conftest file, F included) and blocks reading it until the test closes the write end.
//! It plays the role of any large imported module.

use pytest_language_server::FixtureDatabase;
use std::fs;
use std::io::Write;
use std::path::Path;
use std::sync::Arc;

const HELPERS: &str = r#"import pytest


@pytest.fixture
def helper_fx():
    return 1
"#;

fn run(file_name: &str, buffer: &str) {
    let tmp = tempfile::tempdir().unwrap();
    let root = tmp.path().canonicalize().unwrap();
    fs::write(root.join("conftest.py"), "from gate_mod import *\n").unwrap();
    fs::write(root.join("helpers.py"), HELPERS).unwrap();
    let dir = root.join("tests");
    fs::create_dir_all(&dir).unwrap();
    let file = dir.join(file_name);
    fs::write(&file, "import pytest\n").unwrap(); // on disk: nothing imported yet
    let gate = root.join("gate_mod.py");
    assert!(std::process::Command::new("mkfifo")
        .arg(&gate)
        .status()
        .unwrap()
        .success());

    let db = Arc::new(FixtureDatabase::new());
    let scan = {
        let db = Arc::clone(&db);
        let root = root.clone();
        std::thread::spawn(move || db.scan_workspace(&root))
    };

    // Blocks until the scan opens the gate: phase 4, first iteration done.
    let mut gate_w = fs::OpenOptions::new().write(true).open(&gate).unwrap();
    assert!(db.file_cache.contains_key(&file));

    db.analyze_file(file.clone(), buffer); // did_open / did_change during the scan
    assert!(!scan.is_finished());

    gate_w.write_all(b"\n").unwrap();
    drop(gate_w);
    scan.join().unwrap();

    let helpers = root.join("helpers.py");
    let indexed = db.definitions.contains_key("helper_fx");
    let available = available(&db, &file);
    println!(
        "after scan + notification: helper_fx indexed = {indexed}, helpers.py analysed = {}, available in F = {available}",
        db.file_cache.contains_key(&helpers)
    );

    // What a single analysis of the same buffer yields once no scan is running
    // (= "one further change notification"):
    let db2 = FixtureDatabase::new();
    db2.scan_workspace_ungated(&root, &gate);
    db2.analyze_file(file.clone(), buffer);
    assert!(db2.definitions.contains_key("helper_fx"));
    assert!(self::available(&db2, &file));

    assert!(
        indexed && available,
        "the editor's text imports helpers: helper_fx must be indexed and available in F"
    );
}

fn available(db: &FixtureDatabase, file: &Path) -> bool {
    db.get_available_fixtures(file)
        .iter()
        .any(|d| d.name == "helper_fx")
}

trait Ungated {
    fn scan_workspace_ungated(&self, root: &Path, gate: &Path);
}
impl Ungated for FixtureDatabase {
    /// Reference run: same workspace, the gate opened immediately.
    fn scan_workspace_ungated(&self, root: &Path, gate: &Path) {
        let gate = gate.to_path_buf();
        let opener = std::thread::spawn(move || {
            let mut w = fs::OpenOptions::new().write(true).open(&gate).unwrap();
            w.write_all(b"\n").unwrap();
        });
        self.scan_workspace(root);
        opener.join().unwrap();
    }
}

#[test]
fn test_file_starts_star_importing_helpers() {
    run(
        "test_mod.py",
        "import pytest\nfrom helpers import *\n\n\ndef test_it(helper_fx):\n    pass\n",
    );
}

#[test]
fn conftest_starts_declaring_pytest_plugins() {
    run(
        "conftest.py",
        "import pytest\n\npytest_plugins = [\"helpers\"]\n",
    );
}
