// hunt_4: a document that is opened, edited, SAVED and closed while the scan is running ends
// up indexed with the text the file had BEFORE the save - older than the editor's content and
// older than the file on disk - and stays so (there is no file watcher).
//
// The scan's walk reads the file first (src/fixtures/scanner.rs:207) and only then enters
// analyze_file_from_disk, which resolves the canonical path, takes the per-file lock and looks
// at open_documents (src/fixtures/analyzer.rs:145-150). Everything that happens to the
// document between the read and the lock is invisible to that decision: didOpen(new text),
// the editor saving the file, didClose. The document is then "not open", so the scan
// re-analyses it with cleanup (analyzer.rs:183-189) - from the stale text in its hand.
// (The window is short unless the scan thread has to wait for the lock, i.e. while a
// notification for that file is being analysed; this test hits it by brute force.)
use pytest_language_server::FixtureDatabase;
use std::fs;
use std::path::Path;
use std::sync::Arc;
use std::time::Duration;

fn write(p: &Path, s: &str) {
    fs::create_dir_all(p.parent().unwrap()).unwrap();
    fs::write(p, s).unwrap();
}
/// What editors do on save: write a temporary file and rename it over the document.
fn save(p: &Path, s: &str) {
    let tmp = p.with_extension("py.swp");
    fs::write(&tmp, s).unwrap();
    fs::rename(&tmp, p).unwrap();
}
const OLD: &str = "import pytest\n\n@pytest.fixture\ndef old_fx():\n    return 1\n";
const NEW: &str = "import pytest\n\n@pytest.fixture\ndef new_fx():\n    return 1\n";

#[test]
fn saved_and_closed_document_is_indexed_from_the_text_before_the_save() {
    let tmp = tempfile::tempdir().unwrap();
    let root = tmp.path().canonicalize().unwrap().join("ws");
    let n = 40;
    let files: Vec<_> = (0..n).map(|i| root.join(format!("test_f{}.py", i))).collect();
    let max_iters = 1500;
    let mut report = Vec::new();
    for it in 0..max_iters {
        for f in &files {
            write(f, OLD);
        }
        let db = Arc::new(FixtureDatabase::new());
        let db2 = Arc::clone(&db);
        let root2 = root.clone();
        let scan = std::thread::spawn(move || db2.scan_workspace(&root2));
        std::thread::sleep(Duration::from_micros((it as u64 * 37) % 3000));
        for f in &files {
            // didOpen with the edited text, the editor saves, didClose (src/main.rs handlers)
            db.document_opened(f);
            db.analyze_file(f.clone(), NEW);
            save(f, NEW);
            db.document_closed(f);
            db.cleanup_file_cache(f);
        }
        scan.join().unwrap();
        for f in &files {
            let mut names: Vec<String> = db
                .file_definitions
                .get(f)
                .map(|s| s.iter().cloned().collect())
                .unwrap_or_default();
            names.sort();
            if names != vec!["new_fx".to_string()] {
                report.push(format!(
                    "run {}: {}: fixtures indexed for the file = {:?}; on disk now: {:?}; old_fx defs: {}, new_fx defs: {}",
                    it,
                    f.file_name().unwrap().to_string_lossy(),
                    names,
                    fs::read_to_string(f).unwrap().lines().nth(3).unwrap_or("").to_string(),
                    db.definitions.get("old_fx").map(|d| d.iter().filter(|d| &d.file_path == f).count()).unwrap_or(0),
                    db.definitions.get("new_fx").map(|d| d.iter().filter(|d| &d.file_path == f).count()).unwrap_or(0),
                ));
            }
        }
        if !report.is_empty() {
            break;
        }
    }
    assert!(
        report.is_empty(),
        "scan and (didOpen, save, didClose) have both finished, the index has the pre-save text:\n{}",
        report.join("\n")
    );
}
