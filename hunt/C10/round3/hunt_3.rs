// hunt_3: the scan's "refresh the plugin flag" re-analyses are lost on a document whose
// current buffer does not parse - so the final state of that document's definitions depends
// on whether the notification or the scan got there first.
//
// Phase 3 (scan_plugin_directory / scan_single_plugin_file) and the end of phase 4
// (reanalyze_cached_file) re-analyse files that were indexed BEFORE they were marked as plugin
// files, so that their definitions get is_plugin = true. For an open document both use the
// cached buffer (src/fixtures/analyzer.rs:121-128 and :171-173). When that buffer does not
// parse, analyze_file_unlocked returns early (analyzer.rs:212-235) and the definitions of the
// last valid version stay as they are: is_plugin = false. Had the same notifications arrived
// after the scan, the same definitions would carry is_plugin = true.
use pytest_language_server::FixtureDatabase;
use std::fs;
use std::path::Path;
use std::sync::Arc;
use std::time::{Duration, Instant};

const BAD: &str = "import pytest\n\n@pytest.fixture\ndef half_typed(:\n";
const FIXTURES: &str = "import pytest\n\n@pytest.fixture\ndef plug_fx():\n    return 1\n";

fn write(p: &Path, s: &str) {
    fs::create_dir_all(p.parent().unwrap()).unwrap();
    fs::write(p, s).unwrap();
}

fn did_open(db: &FixtureDatabase, f: &Path, text: &str) {
    db.document_opened(f);
    db.analyze_file(f.to_path_buf(), text);
}

fn build(root: &Path, entry_point: &str) {
    write(&root.join("src/myplug/__init__.py"), "");
    write(&root.join("src/myplug/plugin.py"), "from .fixtures import *\n");
    write(&root.join("src/myplug/fixtures.py"), FIXTURES);
    write(
        &root.join("src/myplug/conftest.py"),
        "import pytest\n\n@pytest.fixture\ndef conf_fx():\n    return 1\n",
    );
    write(
        &root.join("tests/test_use.py"),
        "def test_u(plug_fx):\n    pass\n\ndef test_v(conf_fx):\n    pass\n",
    );
    for i in 0..400 {
        write(
            &root.join(format!("tests/fill/test_f{}.py", i)),
            "import pytest\n\n@pytest.fixture\ndef ff():\n    return 1\n\ndef test_x(ff):\n    pass\n",
        );
    }
    // the project is installed in its own venv in editable mode, with a pytest11 entry point
    let sp = root.join(".venv/lib/python3.12/site-packages");
    write(
        &sp.join("myplug-0.1.dist-info/entry_points.txt"),
        &format!("[pytest11]\nmyplug = {}\n", entry_point),
    );
    write(
        &sp.join("myplug-0.1.dist-info/direct_url.json"),
        "{\"url\": \"file:///x\", \"dir_info\": {\"editable\": true}}",
    );
    write(
        &sp.join("__editable__.myplug-0.1.pth"),
        &format!("{}\n", root.join("src").display()),
    );
}

fn scan_with_history(root: &Path, history: impl FnOnce(&FixtureDatabase)) -> Arc<FixtureDatabase> {
    let db = Arc::new(FixtureDatabase::new());
    let db2 = Arc::clone(&db);
    let root2 = root.to_path_buf();
    let scan = std::thread::spawn(move || db2.scan_workspace(&root2));
    let t0 = Instant::now();
    while db.file_cache.is_empty() && t0.elapsed() < Duration::from_secs(20) {
        std::thread::yield_now();
    }
    history(&db);
    scan.join().unwrap();
    db
}

fn flags(db: &FixtureDatabase, name: &str) -> Vec<bool> {
    db.definitions
        .get(name)
        .map(|d| d.iter().map(|d| d.is_plugin).collect())
        .unwrap_or_default()
}

// The user is typing in the plugin's fixture module while the server starts: the document
// is opened with valid text and the next keystroke leaves it unparsable.
#[test]
fn plugin_module_being_edited_during_scan() {
    let tmp = tempfile::tempdir().unwrap();
    let root = tmp.path().canonicalize().unwrap().join("ws");
    build(&root, "myplug.plugin");
    let f = root.join("src/myplug/fixtures.py");
    let test_use = root.join("tests/test_use.py");
    let history = |db: &FixtureDatabase| {
        did_open(db, &f, FIXTURES);
        did_open(db, &f, BAD); // did_change
    };

    // the notifications after the scan
    let db = FixtureDatabase::new();
    db.scan_workspace(&root);
    history(&db);
    assert_eq!(flags(&db, "plug_fx"), vec![true]);
    assert!(db.find_fixture_definition(&test_use, 0, 12).is_some());

    // the same notifications while the scan is walking
    let db = scan_with_history(&root, history);
    assert_eq!(
        flags(&db, "plug_fx"),
        vec![true],
        "is_plugin of plug_fx after (scan || didOpen valid, didChange unparsable)"
    );
    assert!(db.find_fixture_definition(&test_use, 0, 12).is_some());
}

// F is a conftest.py (inside a package that an entry point names), opened with text that
// does not parse: its on-disk version stays in effect, but without the plugin flag.
#[test]
fn conftest_of_plugin_package_open_unparsable_during_scan() {
    let tmp = tempfile::tempdir().unwrap();
    let root = tmp.path().canonicalize().unwrap().join("ws");
    build(&root, "myplug");
    let f = root.join("src/myplug/conftest.py");
    let history = |db: &FixtureDatabase| did_open(db, &f, BAD);

    let db = FixtureDatabase::new();
    db.scan_workspace(&root);
    history(&db);
    assert_eq!(flags(&db, "conf_fx"), vec![true]);

    let db = scan_with_history(&root, history);
    assert_eq!(
        flags(&db, "conf_fx"),
        vec![true],
        "is_plugin of conf_fx after (scan || didOpen unparsable)"
    );
}
