// hunt_2: the text of a document that is OPEN in the editor is evicted from the text cache
// when the didOpen arrives while the scan is finishing.
// (A first version of this test opened arbitrary documents at the end of the scan and hit the
// window in about 1 run of 25; this one opens the documents the eviction reaches last and hits
// it in the first run.)
//
// At the end of scan_workspace (ScanInProgress::drop, src/fixtures/scanner.rs:84-91) the scan
// thread calls evict_cache_if_needed (src/fixtures/mod.rs:399-446). With more than 2000 cached
// files it first collects a quarter of the cache entries that are "not open" (mod.rs:422-428)
// and then removes them one by one (mod.rs:430-437) - without the per-file analysis lock and
// without looking at open_documents again. A didOpen that is handled between the two steps
// inserts the editor's buffer, and the eviction then deletes it: from then on the server
// reads the file ON DISK for that open document (get_file_content falls back to disk), while
// the index holds the definitions/usages of the buffer.
use pytest_language_server::FixtureDatabase;
use std::fs;
use std::path::{Path, PathBuf};
use std::sync::Arc;

fn write(p: &Path, s: &str) {
    fs::create_dir_all(p.parent().unwrap()).unwrap();
    fs::write(p, s).unwrap();
}

const DISK: &str = "def test_x(on_disk):\n    pass\n";
// the editor's buffer: two lines inserted at the top, another fixture requested
const BUFFER: &str = "\n\ndef test_x(in_buffer):\n    pass\n";

#[test]
fn open_document_text_evicted_at_scan_end() {
    let tmp = tempfile::tempdir().unwrap();
    let root = tmp.path().canonicalize().unwrap().join("ws");
    // the last thing the scan does is index the module the conftest imports (phase 4)
    write(
        &root.join("conftest.py"),
        "import pytest\nfrom helpers_mod import *\n\n@pytest.fixture\ndef on_disk():\n    return 1\n\n@pytest.fixture\ndef in_buffer():\n    return 1\n",
    );
    let helper = root.join("helpers_mod.py");
    write(&helper, "import pytest\n\n@pytest.fixture\ndef helper_fx():\n    return 1\n");
    let n_files = 3000;
    for i in 0..n_files {
        let p = root.join(format!("d{}/test_f{}.py", i % 30, i));
        write(&p, DISK);
    }

    let attempts = 40;
    let mut victims: Vec<String> = Vec::new();
    for attempt in 0..attempts {
        let db = Arc::new(FixtureDatabase::new());
        let db2 = Arc::clone(&db);
        let root2 = root.clone();
        let scan = std::thread::spawn(move || db2.scan_workspace(&root2));

        // wait for the very end of the scan: the last thing it indexes is the helper module
        while !db.file_definitions.contains_key(&helper) {
            std::hint::spin_loop();
        }
        // The user's choice of documents is free; this user opens the ones the eviction
        // reaches last (it walks the cache in iteration order and takes the first quarter).
        let order: Vec<PathBuf> = db.file_cache.iter().map(|e| e.key().clone()).collect();
        let full = order.len();
        let quarter = full / 4;
        let picks: Vec<PathBuf> = order[quarter.saturating_sub(30)..quarter]
            .iter()
            .rev()
            .filter(|p| p.file_name().unwrap().to_str().unwrap().starts_with("test_f"))
            .cloned()
            .collect();
        // ... at the moment the scan thread starts evicting
        while db.file_cache.len() >= full && !scan.is_finished() {
            std::hint::spin_loop();
        }
        // did_open, as in src/main.rs
        let mut opened: Vec<&PathBuf> = Vec::new();
        for f in picks.iter() {
            db.document_opened(f);
            db.analyze_file(f.clone(), BUFFER);
            opened.push(f);
        }
        scan.join().unwrap();

        for f in opened {
            // the index has the buffer (exactly once) ...
            let used: Vec<String> = db
                .usages
                .get(f)
                .map(|u| u.iter().map(|u| u.name.clone()).collect())
                .unwrap_or_default();
            assert_eq!(used, vec!["in_buffer".to_string()]);
            // ... and the text the server works with must be the buffer as well
            let cached = db.file_cache.get(f).map(|c| c.value().to_string());
            if cached.as_deref() == Some(BUFFER) {
                // (control: with the buffer in place the request is answered)
                assert_eq!(
                    db.find_fixture_definition(f, 2, 12).map(|d| d.name),
                    Some("in_buffer".to_string())
                );
            } else {
                // what a request on that document sees: go-to-definition on `in_buffer` in
                // `def test_x(in_buffer):` (line 2, 0-based) of the BUFFER
                let def = db.find_fixture_definition(f, 2, 12);
                victims.push(format!(
                    "attempt {}: {} is open, cached text = {:?}, goto-definition on the buffer's usage -> {:?}",
                    attempt,
                    f.strip_prefix(&root).unwrap().display(),
                    cached.map(|c| c.lines().next().unwrap_or("").to_string()),
                    def.map(|d| d.name)
                ));
            }
        }
        if !victims.is_empty() {
            break;
        }
    }
    assert!(
        victims.is_empty(),
        "open documents lost their buffer to the eviction at the end of the scan:\n{}",
        victims.join("\n")
    );
}
