// Exploration harness: scan on one thread, notification history on another, random delays.
use pytest_language_server::FixtureDatabase;
use std::collections::BTreeMap;
use std::fs;
use std::path::{Path, PathBuf};
use std::sync::Arc;
use std::time::Duration;

#[derive(Clone, Debug)]
enum Ev {
    Open(&'static str),   // document_opened + analyze_file
    Change(&'static str), // same (did_change)
    Close,
    Sleep(u64),
}

fn write(p: &Path, s: &str) {
    fs::create_dir_all(p.parent().unwrap()).unwrap();
    fs::write(p, s).unwrap();
}

fn build_ws(root: &Path, fillers: usize) {
    write(
        &root.join("conftest.py"),
        "import pytest\nfrom helpers.common import *\npytest_plugins = [\"plugins.extra\"]\n\n@pytest.fixture\ndef root_fx():\n    return 1\n",
    );
    write(&root.join("helpers/__init__.py"), "");
    write(
        &root.join("helpers/common.py"),
        "import pytest\n\n@pytest.fixture\ndef common_fx():\n    return 1\n",
    );
    write(
        &root.join("helpers/other.py"),
        "import pytest\n\n@pytest.fixture\ndef other_fx():\n    return 1\n",
    );
    write(&root.join("plugins/__init__.py"), "");
    write(
        &root.join("plugins/extra.py"),
        "import pytest\n\n@pytest.fixture\ndef extra_fx():\n    return 1\n",
    );
    write(
        &root.join("tests/conftest.py"),
        "import pytest\n\n@pytest.fixture\ndef t_fx(root_fx):\n    return 1\n",
    );
    write(
        &root.join("tests/test_a.py"),
        "import pytest\n\n@pytest.fixture\ndef a_disk():\n    return 1\n\ndef test_a(a_disk, t_fx):\n    pass\n",
    );
    // in-workspace editable plugin package
    write(&root.join("src/myplug/__init__.py"), "import pytest\n\n@pytest.fixture\ndef plug_init_fx():\n    return 1\n");
    write(
        &root.join("src/myplug/conftest.py"),
        "import pytest\n\n@pytest.fixture\ndef plug_conf_disk():\n    return 1\n",
    );
    write(
        &root.join("src/myplug/thing_test.py"),
        "import pytest\n\n@pytest.fixture\ndef thing_disk():\n    return 1\n\ndef test_thing(thing_disk):\n    pass\n",
    );
    let sp = root.join(".venv/lib/python3.11/site-packages");
    write(
        &sp.join("myplug-0.1.dist-info/entry_points.txt"),
        "[pytest11]\nmyplug = myplug\n",
    );
    write(
        &sp.join("myplug-0.1.dist-info/direct_url.json"),
        "{\"url\": \"file:///x\", \"dir_info\": {\"editable\": true}}",
    );
    write(
        &sp.join("__editable__.myplug-0.1.pth"),
        &format!("{}\n", root.join("src").display()),
    );
    for i in 0..fillers {
        write(
            &root.join(format!("tests/fill/test_f{}.py", i)),
            "import pytest\n\n@pytest.fixture\ndef ff():\n    return 1\n\ndef test_x(ff, root_fx):\n    pass\n",
        );
    }
}

fn apply(db: &FixtureDatabase, f: &Path, evs: &[Ev]) {
    for e in evs {
        match e {
            Ev::Open(t) | Ev::Change(t) => {
                db.document_opened(f);
                db.analyze_file(f.to_path_buf(), t);
            }
            Ev::Close => {
                db.document_closed(f);
                db.cleanup_file_cache(f);
            }
            Ev::Sleep(us) => std::thread::sleep(Duration::from_micros(*us)),
        }
    }
}

/// Everything the index holds, as a sorted multiset of strings.
fn snapshot(db: &FixtureDatabase, only: Option<&Path>) -> BTreeMap<String, usize> {
    let mut m: BTreeMap<String, usize> = BTreeMap::new();
    for e in db.definitions.iter() {
        for d in e.value() {
            if only.map_or(true, |p| d.file_path == p) {
                *m.entry(format!(
                    "def {} {}:{} plugin={} third={} deps={:?}",
                    d.name,
                    d.file_path.display(),
                    d.line,
                    d.is_plugin,
                    d.is_third_party,
                    d.dependencies
                ))
                .or_default() += 1;
            }
        }
    }
    for e in db.file_definitions.iter() {
        if only.map_or(true, |p| e.key() == p) {
            let mut names: Vec<_> = e.value().iter().cloned().collect();
            names.sort();
            *m.entry(format!("filedefs {} {:?}", e.key().display(), names))
                .or_default() += 1;
        }
    }
    for e in db.usages.iter() {
        if only.map_or(true, |p| e.key() == p) {
            for u in e.value() {
                *m.entry(format!(
                    "usage {} {}:{}:{}",
                    u.name,
                    e.key().display(),
                    u.line,
                    u.start_char
                ))
                .or_default() += 1;
            }
        }
    }
    for e in db.usage_by_fixture.iter() {
        for (p, u) in e.value() {
            if only.map_or(true, |q| p == q) {
                *m.entry(format!(
                    "ubf {} {}:{}:{}",
                    e.key(),
                    p.display(),
                    u.line,
                    u.start_char
                ))
                .or_default() += 1;
            }
        }
    }
    for e in db.imports.iter() {
        if only.map_or(true, |p| e.key() == p) {
            let mut names: Vec<_> = e.value().iter().cloned().collect();
            names.sort();
            *m.entry(format!("imports {} {:?}", e.key().display(), names))
                .or_default() += 1;
        }
    }
    m
}

fn text_of(db: &FixtureDatabase, f: &Path) -> Option<String> {
    db.file_cache.get(f).map(|c| c.value().to_string())
}

fn diff(a: &BTreeMap<String, usize>, b: &BTreeMap<String, usize>) -> Vec<String> {
    let mut out = vec![];
    for (k, v) in a {
        let w = b.get(k).copied().unwrap_or(0);
        if *v != w {
            out.push(format!("  ref {} vs got {} : {}", v, w, k));
        }
    }
    for (k, w) in b {
        if !a.contains_key(k) {
            out.push(format!("  ref 0 vs got {} : {}", w, k));
        }
    }
    out
}

fn run_case(root: &Path, rel: &str, evs: &[Ev], iters: usize, scan_ms: u64) -> usize {
    run_case_abs(root, &root.join(rel), evs, iters, scan_ms)
}
fn run_case_abs(root: &Path, f: &Path, evs: &[Ev], iters: usize, scan_ms: u64) -> usize {
    let f = f.to_path_buf();
    let rel = f.display().to_string();
    // reference: scan, then the history
    let rdb = FixtureDatabase::new();
    rdb.scan_workspace(root);
    apply(&rdb, &f, evs);
    let ref_all = snapshot(&rdb, None);
    let ref_text = text_of(&rdb, &f);

    let mut bad = 0;
    let mut seen: BTreeMap<String, usize> = BTreeMap::new();
    for it in 0..iters {
        let db = Arc::new(FixtureDatabase::new());
        let db2 = Arc::clone(&db);
        let root2 = root.to_path_buf();
        let delay = (it as u64 * 7919) % (scan_ms * 1000);
        let scan = std::thread::spawn(move || db2.scan_workspace(&root2));
        std::thread::sleep(Duration::from_micros(delay));
        apply(&db, &f, evs);
        scan.join().unwrap();
        let got = snapshot(&db, None);
        let d = diff(&ref_all, &got);
        let t = text_of(&db, &f);
        let mut msg = String::new();
        if !d.is_empty() {
            msg.push_str(&d.join("\n"));
        }
        if t != ref_text {
            msg.push_str(&format!("\n  text differs: ref {:?} got {:?}", ref_text, t));
        }
        if !msg.is_empty() {
            bad += 1;
            *seen.entry(msg).or_default() += 1;
        }
    }
    for (k, v) in &seen {
        println!("--- case {} {:?}: {} times:\n{}", rel, evs, v, k);
    }
    bad
}

#[test]
fn explore() {
    let tmp = tempfile::tempdir().unwrap();
    let root = tmp.path().canonicalize().unwrap().join("ws");
    let fillers: usize = std::env::var("FILLERS").ok().and_then(|s| s.parse().ok()).unwrap_or(150);
    build_ws(&root, fillers);
    // measure scan
    let t0 = std::time::Instant::now();
    let db = FixtureDatabase::new();
    db.scan_workspace(&root);
    let scan_ms = t0.elapsed().as_millis() as u64 + 1;
    println!("scan takes {} ms", scan_ms);
    let iters: usize = std::env::var("ITERS").ok().and_then(|s| s.parse().ok()).unwrap_or(100);

    const B_TEST: &str = "import pytest\n\n@pytest.fixture\ndef a_buf():\n    return 1\n\ndef test_a(a_buf, t_fx, root_fx):\n    pass\n";
    const B_TEST2: &str = "import pytest\n\n\n@pytest.fixture\ndef a_buf2():\n    return 1\n\ndef test_a(a_buf2):\n    pass\n";
    const BAD: &str = "import pytest\n\n@pytest.fixture\ndef a_bad(:\n";
    const B_CONF: &str = "import pytest\nfrom helpers.other import *\n\n@pytest.fixture\ndef root_buf():\n    return 1\n";
    const B_PLUGCONF: &str = "import pytest\n\n\n@pytest.fixture\ndef plug_conf_buf():\n    return 1\n";

    let mut total = 0;
    let cases: Vec<(&str, Vec<Ev>)> = vec![
        ("src/myplug/conftest.py", vec![Ev::Open(BAD)]),
        ("src/myplug/__init__.py", vec![Ev::Open(BAD)]),
        ("src/myplug/thing_test.py", vec![Ev::Open(BAD)]),
        ("tests/test_a.py", vec![Ev::Open(BAD)]),
        ("conftest.py", vec![Ev::Open(BAD)]),
        ("tests/conftest.py", vec![Ev::Open(BAD), Ev::Close]),
        ("tests/conftest.py", vec![Ev::Open(B_PLUGCONF), Ev::Sleep(100), Ev::Change(BAD), Ev::Sleep(100), Ev::Change(B_TEST2)]),
    ];
    for (rel, evs) in cases {
        total += run_case(&root, rel, &evs, iters, scan_ms);
    }
    assert_eq!(total, 0, "some schedules differ from the sequential reference");
}


#[test]
fn explore2() {
    let tmp = tempfile::tempdir().unwrap();
    let repo = tmp.path().canonicalize().unwrap().join("repo");
    write(&repo.join("tests/__init__.py"), "");
    write(&repo.join("tests/conftest.py"), "import pytest\n\n@pytest.fixture\ndef shared_fx():\n    return 1\n");
    let root = repo.join("tests/unit");
    write(&root.join("__init__.py"), "");
    write(&root.join("conftest.py"), "import pytest\nfrom ..conftest import shared_fx\nfrom .test_lib import *\n");
    write(&root.join("test_lib.py"), "import pytest\n\n@pytest.fixture\ndef lib_fx():\n    return 1\n");
    write(&root.join("test_use.py"), "from .test_lib import lib_fx\n\ndef test_u(shared_fx, lib_fx):\n    pass\n");
    for i in 0..150 {
        write(
            &root.join(format!("fill/test_f{}.py", i)),
            "import pytest\n\n@pytest.fixture\ndef ff():\n    return 1\n\ndef test_x(ff):\n    pass\n",
        );
    }
    let t0 = std::time::Instant::now();
    let db = FixtureDatabase::new();
    db.scan_workspace(&root);
    let scan_ms = t0.elapsed().as_millis() as u64 + 1;
    let iters: usize = std::env::var("ITERS").ok().and_then(|s| s.parse().ok()).unwrap_or(100);
    const B1: &str = "import pytest\n\n\n@pytest.fixture\ndef buf1():\n    return 1\n";
    const B2: &str = "import pytest\n\n\n\n@pytest.fixture\ndef buf2():\n    return 1\n";
    const BAD: &str = "import pytest\n\n@pytest.fixture\ndef a_bad(:\n";
    let mut total = 0;
    let cases: Vec<(&str, Vec<Ev>)> = vec![
        ("../conftest.py", vec![Ev::Open(B1)]),
        ("../conftest.py", vec![Ev::Open(B1), Ev::Close, Ev::Open(B2)]),
        ("../conftest.py", vec![Ev::Open(BAD), Ev::Close, Ev::Sleep(100), Ev::Open(B1)]),
        ("../conftest.py", vec![Ev::Open(BAD), Ev::Sleep(100), Ev::Change(B1)]),
        ("../conftest.py", vec![Ev::Open(BAD)]),
        ("test_lib.py", vec![Ev::Open(B1)]),
        ("test_lib.py", vec![Ev::Open(BAD)]),
        ("test_lib.py", vec![Ev::Open(B1), Ev::Close, Ev::Open(B2)]),
        ("test_lib.py", vec![Ev::Open(BAD), Ev::Close, Ev::Sleep(100), Ev::Open(B1)]),
        ("test_lib.py", vec![Ev::Open(B1), Ev::Sleep(50), Ev::Change(BAD), Ev::Sleep(50), Ev::Change(B2)]),
    ];
    for (rel, evs) in cases {
        let f = root.join(rel).canonicalize().unwrap();
        let rel2 = f.strip_prefix(&root).map(|p| p.to_path_buf()).unwrap_or(f.clone());
        let _ = rel2;
        total += run_case_abs(&root, &f, &evs, iters, scan_ms);
    }
    assert_eq!(total, 0);
}
