// hunt_5: a document that is OPEN with text that does not parse when the scan's import phase
// starts is never indexed from disk, if the import phase happens to look at the document
// itself before it looks at the file that imports it (DashMap iteration order: about every
// second run).
//
// scan_imported_fixture_modules (src/fixtures/scanner.rs:275-295) builds its work list from
// the keys of file_cache. The unparsable buffer of an open document is in file_cache although
// nothing is indexed for it, so the document is on the list when its name (conftest.py /
// test_*.py / *_test.py) or its location (below site-packages or below the source root of an
// editable install - for a project installed in its own venv that is every file) qualifies.
// Once the loop has read its imports it is in `processed_files` (scanner.rs:324-327), and the
// importer then does not queue it (scanner.rs:387-389: `!processed_files.contains(..)`), so
// analyze_imported_module_once - the only place that would index its on-disk version (commit
// 7e212cd) - is never called for it.
use pytest_language_server::FixtureDatabase;
use std::fs;
use std::path::Path;
use std::sync::Arc;
use std::time::{Duration, Instant};

const BAD: &str = "import pytest\n\n@pytest.fixture\ndef half_typed(:\n";
const RUNS: usize = 16;

fn write(p: &Path, s: &str) {
    fs::create_dir_all(p.parent().unwrap()).unwrap();
    fs::write(p, s).unwrap();
}

fn did_open(db: &FixtureDatabase, f: &Path, text: &str) {
    db.document_opened(f);
    db.analyze_file(f.to_path_buf(), text);
}

fn fillers(dir: &Path, n: usize) {
    for i in 0..n {
        write(
            &dir.join(format!("fill/test_f{}.py", i)),
            "import pytest\n\n@pytest.fixture\ndef ff():\n    return 1\n\ndef test_x(ff):\n    pass\n",
        );
    }
}

fn scan_with_history(root: &Path, history: impl FnOnce(&FixtureDatabase)) -> Arc<FixtureDatabase> {
    let db = Arc::new(FixtureDatabase::new());
    let db2 = Arc::clone(&db);
    let root2 = root.to_path_buf();
    let scan = std::thread::spawn(move || db2.scan_workspace(&root2));
    let t0 = Instant::now();
    while db.file_cache.is_empty() && t0.elapsed() < Duration::from_secs(20) {
        std::thread::yield_now();
    }
    history(&db);
    scan.join().unwrap();
    db
}

// F is a conftest.py: the conftest of the parent package (above the workspace folder), from
// which the workspace's conftest imports a fixture.
#[test]
fn parent_conftest_open_unparsable_during_scan() {
    let tmp = tempfile::tempdir().unwrap();
    let repo = tmp.path().canonicalize().unwrap().join("repo");
    write(&repo.join("tests/__init__.py"), "");
    let f = repo.join("tests/conftest.py");
    write(&f, "import pytest\n\n@pytest.fixture\ndef shared_fx():\n    return 1\n");
    let root = repo.join("tests/unit");
    write(&root.join("__init__.py"), "");
    write(&root.join("conftest.py"), "import pytest\nfrom ..conftest import shared_fx\n");
    write(&root.join("test_use.py"), "def test_u(shared_fx):\n    pass\n");
    fillers(&root, 100);

    // control: the document is opened after the scan - its on-disk version stays indexed
    let db = FixtureDatabase::new();
    db.scan_workspace(&root);
    did_open(&db, &f, BAD);
    assert_eq!(db.definitions.get("shared_fx").map(|d| d.len()), Some(1));

    let mut missing = 0;
    for _ in 0..RUNS {
        let db = scan_with_history(&root, |db| did_open(db, &f, BAD));
        let n = db.definitions.get("shared_fx").map(|d| d.len()).unwrap_or(0);
        assert!(n <= 1, "indexed {} times", n);
        if n == 0 {
            missing += 1;
        }
    }
    assert_eq!(
        missing, 0,
        "tests/conftest.py (open, buffer unparsable): its last valid (on-disk) version was not \
         indexed in {} of {} runs",
        missing, RUNS
    );
}

// F is a fixture module of a project that is installed in its own venv in editable mode
// (flat layout: the source root is the workspace) - adjacent: not a test file / conftest.py.
#[test]
fn helper_module_of_editable_project_open_unparsable_during_scan() {
    let tmp = tempfile::tempdir().unwrap();
    let root = tmp.path().canonicalize().unwrap().join("ws");
    write(&root.join("conftest.py"), "import pytest\nfrom helpers.common import *\n");
    write(&root.join("helpers/__init__.py"), "");
    let f = root.join("helpers/common.py");
    write(&f, "import pytest\n\n@pytest.fixture\ndef common_fx():\n    return 1\n");
    write(&root.join("test_use.py"), "def test_u(common_fx):\n    pass\n");
    fillers(&root, 100);
    let sp = root.join(".venv/lib/python3.12/site-packages");
    write(
        &sp.join("proj-0.1.dist-info/direct_url.json"),
        "{\"url\": \"file:///x\", \"dir_info\": {\"editable\": true}}",
    );
    write(&sp.join("__editable__.proj-0.1.pth"), &format!("{}\n", root.display()));

    let db = FixtureDatabase::new();
    db.scan_workspace(&root);
    did_open(&db, &f, BAD);
    assert_eq!(db.definitions.get("common_fx").map(|d| d.len()), Some(1));

    let mut missing = 0;
    for _ in 0..RUNS {
        let db = scan_with_history(&root, |db| did_open(db, &f, BAD));
        let n = db.definitions.get("common_fx").map(|d| d.len()).unwrap_or(0);
        assert!(n <= 1, "indexed {} times", n);
        if n == 0 {
            missing += 1;
        }
    }
    assert_eq!(
        missing, 0,
        "helpers/common.py (open, buffer unparsable): its last valid (on-disk) version was not \
         indexed in {} of {} runs",
        missing, RUNS
    );
}
