// hunt_1: a document that is opened with text that does not parse and closed again while
// the workspace scan is still walking is never indexed at all, when the scan reaches it
// through an import (phase 4) and not through its walk.
//
// did_close during a scan (cleanup_file_cache, src/fixtures/mod.rs:362-373) puts the
// on-disk text into file_cache. analyze_imported_module_once (src/fixtures/analyzer.rs:50-55)
// reads an occupied file_cache entry as "another thread has claimed / analysed this module"
// and returns without analysing it. Nothing was ever indexed for the document (its buffer
// did not parse), so its fixtures are missing until the server is restarted.
use pytest_language_server::FixtureDatabase;
use std::fs;
use std::path::Path;
use std::sync::Arc;
use std::time::{Duration, Instant};

const BAD: &str = "import pytest\n\n@pytest.fixture\ndef half_typed(:\n";

fn write(p: &Path, s: &str) {
    fs::create_dir_all(p.parent().unwrap()).unwrap();
    fs::write(p, s).unwrap();
}

fn fillers(dir: &Path, n: usize) {
    for i in 0..n {
        write(
            &dir.join(format!("fill/test_f{}.py", i)),
            "import pytest\n\n@pytest.fixture\ndef ff():\n    return 1\n\ndef test_x(ff):\n    pass\n",
        );
    }
}

/// The LSP handlers of src/main.rs, minus the transport.
fn did_open(db: &FixtureDatabase, f: &Path, text: &str) {
    db.document_opened(f);
    db.analyze_file(f.to_path_buf(), text);
}
fn did_close(db: &FixtureDatabase, f: &Path) {
    db.document_closed(f);
    db.cleanup_file_cache(f);
}

/// Runs the scan on a thread; as soon as the scan has analysed its first file (so it is
/// under way, and hundreds of files away from its import phase) runs `history`.
fn scan_with_history(root: &Path, history: impl FnOnce(&FixtureDatabase)) -> Arc<FixtureDatabase> {
    let db = Arc::new(FixtureDatabase::new());
    let db2 = Arc::clone(&db);
    let root2 = root.to_path_buf();
    let scan = std::thread::spawn(move || db2.scan_workspace(&root2));
    let t0 = Instant::now();
    while db.file_cache.is_empty() && t0.elapsed() < Duration::from_secs(20) {
        std::thread::yield_now();
    }
    history(&db);
    scan.join().unwrap();
    db
}

// F is a helper module that the root conftest star-imports (adjacent to the property: not a
// test file / conftest.py).
#[test]
fn helper_module_opened_unparsable_and_closed_during_scan() {
    let tmp = tempfile::tempdir().unwrap();
    let root = tmp.path().canonicalize().unwrap().join("ws");
    write(
        &root.join("conftest.py"),
        "import pytest\nfrom helpers.common import *\n",
    );
    write(&root.join("helpers/__init__.py"), "");
    let f = root.join("helpers/common.py");
    write(&f, "import pytest\n\n@pytest.fixture\ndef common_fx():\n    return 1\n");
    write(&root.join("test_use.py"), "def test_u(common_fx):\n    pass\n");
    fillers(&root, 400);

    // control 1: the same history BEFORE the scan
    let db = FixtureDatabase::new();
    did_open(&db, &f, BAD);
    did_close(&db, &f);
    db.scan_workspace(&root);
    assert!(db.definitions.contains_key("common_fx"), "control: history before the scan");

    // control 2: no history at all
    let db = FixtureDatabase::new();
    db.scan_workspace(&root);
    assert!(db.definitions.contains_key("common_fx"), "control: scan only");

    // the history DURING the scan
    let db = scan_with_history(&root, |db| {
        did_open(db, &f, BAD);
        did_close(db, &f);
    });
    let defs: Vec<_> = db
        .definitions
        .get("common_fx")
        .map(|d| d.value().clone())
        .unwrap_or_default();
    assert_eq!(
        defs.len(),
        1,
        "helpers/common.py was opened (unparsable) and closed during the scan: its on-disk \
         version must be indexed exactly once, found {} definitions of common_fx; \
         file_definitions has the file: {}",
        defs.len(),
        db.file_definitions.contains_key(&f)
    );
}

// F is a conftest.py: the conftest of the parent package, which lies above the workspace
// folder and is imported by the workspace's own conftest (so the walk never meets it, the
// import scan does).
#[test]
fn parent_conftest_opened_unparsable_and_closed_during_scan() {
    let tmp = tempfile::tempdir().unwrap();
    let repo = tmp.path().canonicalize().unwrap().join("repo");
    write(&repo.join("tests/__init__.py"), "");
    let f = repo.join("tests/conftest.py");
    write(&f, "import pytest\n\n@pytest.fixture\ndef shared_fx():\n    return 1\n");
    let root = repo.join("tests/unit");
    write(&root.join("__init__.py"), "");
    write(
        &root.join("conftest.py"),
        "import pytest\nfrom ..conftest import shared_fx\n",
    );
    write(&root.join("test_use.py"), "def test_u(shared_fx):\n    pass\n");
    fillers(&root, 400);

    let db = FixtureDatabase::new();
    db.scan_workspace(&root);
    assert!(db.definitions.contains_key("shared_fx"), "control: scan only");

    let db = scan_with_history(&root, |db| {
        did_open(db, &f, BAD);
        did_close(db, &f);
    });
    let n = db.definitions.get("shared_fx").map(|d| d.len()).unwrap_or(0);
    assert_eq!(
        n, 1,
        "tests/conftest.py was opened (unparsable) and closed during the scan: its on-disk \
         version must be indexed exactly once, found {} definitions of shared_fx",
        n
    );
    // and go-to-definition from the test that uses it
    let test_use = root.join("test_use.py");
    assert!(db.find_fixture_definition(&test_use, 0, 12).is_some());
}
