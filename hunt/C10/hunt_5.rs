//! C10 hunt 5: in a workspace with more than 2000 test files the scan ends with a cache
//! eviction (`ScanInProgress::drop` -> `evict_cache_if_needed`) that throws away 25% of
//! the cached texts chosen in map order - documents that are open in the editor included.
//! For an evicted open document the server silently goes back to the text on disk
//! (`get_file_content` falls back to `fs::read_to_string`): position-based queries on the
//! buffer are answered against the older on-disk lines.
//!
//! The documents are opened after the scan worker's visit (the order in which the buffer
//! wins in phase 2) and before the scan ends; a FIFO in site-packages/_pytest holds the
//! scan at the start of phase 3 meanwhile.

use pytest_language_server::FixtureDatabase;
use std::fs;
use std::io::Write;
use std::sync::Arc;

const FILES: usize = 2100;
const OPEN: usize = 40;

const DISK: &str = "def test_it(fx):\n    pass\n";
// the editor inserted two lines on top: the usage of `fx` is now on line 3 (0-based 2)
const BUFFER: &str = "# unsaved\n# edit\ndef test_it(fx):\n    pass\n";

#[test]
fn open_documents_lose_their_text_when_the_scan_ends() {
    let tmp = tempfile::tempdir().unwrap();
    let root = tmp.path().canonicalize().unwrap();
    fs::write(
        root.join("conftest.py"),
        "import pytest\n\n\n@pytest.fixture\ndef fx():\n    return 1\n",
    )
    .unwrap();
    let dir = root.join("tests");
    fs::create_dir_all(&dir).unwrap();
    let files: Vec<_> = (0..FILES)
        .map(|i| {
            let f = dir.join(format!("test_m{i:04}.py"));
            fs::write(&f, DISK).unwrap();
            f
        })
        .collect();

    let sp = root.join(".venv/lib/python3.12/site-packages");
    fs::create_dir_all(sp.join("_pytest")).unwrap();
    let gate = sp.join("_pytest/zz_gate.py");
    assert!(std::process::Command::new("mkfifo")
        .arg(&gate)
        .status()
        .unwrap()
        .success());

    let db = Arc::new(FixtureDatabase::new());
    let scan = {
        let db = Arc::clone(&db);
        let root = root.clone();
        std::thread::spawn(move || db.scan_workspace(&root))
    };
    let mut gate_w = fs::OpenOptions::new().write(true).open(&gate).unwrap();

    // the editor opens OPEN documents while the scan is (still) running
    for f in files.iter().take(OPEN) {
        assert!(db.file_cache.contains_key(f), "already visited by the scan");
        db.analyze_file(f.clone(), BUFFER);
    }
    assert!(!scan.is_finished());
    gate_w.write_all(b"\n").unwrap();
    drop(gate_w);
    scan.join().unwrap();

    let mut lost = 0;
    let mut wrong = 0;
    for f in files.iter().take(OPEN) {
        let has_buffer = db.file_cache.get(f).map(|t| t.as_str() == BUFFER) == Some(true);
        // goto-definition on `fx` in the buffer: line 3, column 12
        let def = db.find_fixture_definition(f, 2, 12);
        if !has_buffer {
            lost += 1;
        }
        if def.map(|d| d.name) != Some("fx".to_string()) {
            wrong += 1;
        }
    }
    println!(
        "{OPEN} documents opened during the scan: {lost} lost their buffer text at scan end, \
         goto-definition on the buffer position fails for {wrong}"
    );
    assert_eq!(
        (lost, wrong),
        (0, 0),
        "every open document must still be known by its editor text"
    );
}
