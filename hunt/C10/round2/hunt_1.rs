// C10 hunt 1: a document that is open with text that does not parse while the scan runs
// never gets the plugin flag that the scan's plugin phase hands out.
//
// Workspace: a pytest plugin developed in the workspace and installed editable in its
// own .venv (entry point `myplug = myplug`, a package). Its conftest.py is open in the
// editor with a syntax error when the server starts (didOpen is handled before the scan's
// walk reaches the file). The last valid version of the file (the one on disk) stays in
// effect - but flagged is_plugin=false for good, whereas every other schedule (scan first,
// then the same didOpen) yields is_plugin=true. One further change notification that still
// does not parse does not repair it either.
use pytest_language_server::FixtureDatabase;
use std::fs;
use std::path::Path;

fn w(p: &Path, s: &str) {
    fs::create_dir_all(p.parent().unwrap()).unwrap();
    fs::write(p, s).unwrap();
}

const CONF: &str = "import pytest\n\n@pytest.fixture\ndef myplug_conf_fx():\n    return 8\n";

fn build(root: &Path) {
    w(&root.join("myplug/__init__.py"), "import pytest\n\n@pytest.fixture\ndef myplug_fx():\n    return 7\n");
    w(&root.join("myplug/conftest.py"), CONF);
    w(&root.join("tests/test_x.py"), "def test_x(myplug_conf_fx):\n    pass\n");
    let sp = root.join(".venv/lib/python3.12/site-packages");
    w(&sp.join("myplug-1.0.dist-info/entry_points.txt"), "[pytest11]\nmyplug = myplug\n");
    w(
        &sp.join("myplug-1.0.dist-info/direct_url.json"),
        "{\"url\": \"file:///x\", \"dir_info\": {\"editable\": true}}",
    );
    w(&sp.join("__editable__.myplug-1.0.pth"), &format!("{}\n", root.display()));
}

fn flags(db: &FixtureDatabase) -> Vec<bool> {
    db.definitions
        .get("myplug_conf_fx")
        .map(|d| d.iter().map(|d| d.is_plugin).collect())
        .unwrap_or_default()
}

#[test]
fn unparsable_buffer_open_during_scan_loses_plugin_flag() {
    let tmp = tempfile::tempdir().unwrap();
    let root = tmp.path().canonicalize().unwrap();
    build(&root);
    let conf = root.join("myplug/conftest.py");
    let test_x = root.join("tests/test_x.py");
    let broken = format!("{CONF}\ndef half_typed(:\n");
    let broken2 = format!("{CONF}\ndef half_typed(a:\n");

    // Schedule A: the scan finishes, then didOpen(broken), then didChange(broken2)
    let a = FixtureDatabase::new();
    a.scan_workspace(&root);
    a.document_opened(&conf);
    a.analyze_file(conf.clone(), &broken);
    a.document_opened(&conf);
    a.analyze_file(conf.clone(), &broken2);

    // Schedule B: didOpen(broken) is handled before the scan gets to the file,
    // then didChange(broken2) after the scan
    let b = FixtureDatabase::new();
    b.document_opened(&conf);
    b.analyze_file(conf.clone(), &broken);
    b.scan_workspace(&root);
    b.document_opened(&conf);
    b.analyze_file(conf.clone(), &broken2);

    let a_def = a.find_fixture_definition(&test_x, 0, 12);
    let b_def = b.find_fixture_definition(&test_x, 0, 12);
    eprintln!("schedule A: is_plugin flags {:?}, go-to-definition from tests/test_x.py -> {:?}",
        flags(&a), a_def.as_ref().map(|d| (d.file_path.clone(), d.line)));
    eprintln!("schedule B: is_plugin flags {:?}, go-to-definition from tests/test_x.py -> {:?}",
        flags(&b), b_def.as_ref().map(|d| (d.file_path.clone(), d.line)));

    assert_eq!(flags(&a), vec![true], "sanity: scan first gives the plugin flag");
    assert_eq!(
        flags(&b),
        flags(&a),
        "the same document and notifications, other timing: different index"
    );
    assert_eq!(
        b_def.map(|d| (d.file_path, d.line)),
        a_def.map(|d| (d.file_path, d.line))
    );
}
