// C10 hunt 5: didOpen(conftest.py, text that does not parse) handled while the scan is at
// work on the same file. The on-disk version stays in effect (fine), but the scan's import
// phase reads the document's text (the unparsable buffer) at a moment when no "last valid
// AST" is cached for it yet - the notification caches it only after its own failed parse -
// and silently skips the file: the modules conftest.py imports are never indexed.
//
// No hooks: a large conftest.py makes both parses take a while; the notification is sent
// shortly after the scan starts. Several start delays are tried; every one must pass.
use pytest_language_server::FixtureDatabase;
use std::fs;
use std::sync::Arc;
use std::time::Instant;

#[test]
fn unparsable_did_open_racing_the_import_phase_loses_conftest_imports() {
    let tmp = tempfile::tempdir().unwrap();
    let root = tmp.path().canonicalize().unwrap();
    let mut conf_text = String::from("import pytest\nfrom fixtures_mod import *\n");
    for i in 0..1200 {
        conf_text.push_str(&format!(
            "\n@pytest.fixture\ndef fx_{i}(request):\n    data = {{'a': [1, 2, 3], 'b': (request, {i})}}\n    return data\n"
        ));
    }
    let conf = root.join("conftest.py");
    fs::write(&conf, &conf_text).unwrap();
    fs::write(root.join("fixtures_mod.py"), "import pytest\n\n@pytest.fixture\ndef mod_fx():\n    return 2\n").unwrap();
    let test_x = root.join("test_x.py");
    fs::write(&test_x, "def test_x(mod_fx):\n    pass\n").unwrap();
    let broken = format!("{conf_text}\ndef half_typed(:\n");

    // control: scan, then the same didOpen
    let t = Instant::now();
    let control = FixtureDatabase::new();
    control.scan_workspace(&root);
    let scan_time = t.elapsed();
    control.document_opened(&conf);
    control.analyze_file(conf.clone(), &broken);
    assert!(control.definitions.contains_key("mod_fx"));
    assert!(control.definitions.contains_key("fx_0"));
    eprintln!("scan alone takes {:?}", scan_time);

    let mut lost = vec![];
    for k in 0..6u32 {
        let delay = scan_time * k / 12; // 0 .. half of the scan
        let db = Arc::new(FixtureDatabase::new());
        let (db2, root2) = (Arc::clone(&db), root.clone());
        let scan = std::thread::spawn(move || db2.scan_workspace(&root2));
        std::thread::sleep(delay);
        db.document_opened(&conf);
        db.analyze_file(conf.clone(), &broken);
        scan.join().unwrap();
        let ok = db.definitions.contains_key("mod_fx");
        eprintln!(
            "didOpen(broken) {:?} after scan start: fx_0 indexed={} (on-disk version in effect), mod_fx indexed={}, definition(mod_fx) from test_x.py={:?}",
            delay,
            db.definitions.contains_key("fx_0"),
            ok,
            db.find_fixture_definition(&test_x, 0, 12).map(|d| d.file_path)
        );
        if !ok {
            lost.push(delay);
        }
    }
    assert!(lost.is_empty(), "fixtures_mod.py was never indexed for didOpen delays {:?}", lost);
}
