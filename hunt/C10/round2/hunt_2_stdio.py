#!/usr/bin/env python3
"""C10 hunt 2, over stdio against the real binary.

initialize -> didOpen(conftest.py, text with a syntax error) -> didClose(conftest.py), both while
the scan is in its venv phase -> wait for "Workspace scan complete" -> textDocument/definition
on `mod_fx` in test_x.py.  Expected: conftest.py's on-disk `from fixtures_mod import *` is in
effect (as in a control session without the open/close) -> a location in fixtures_mod.py.
Actual: null.
"""
import json, os, subprocess, sys, tempfile, time, threading, queue

BIN = os.path.join(os.path.dirname(os.path.abspath(__file__)), "target/debug/pytest-language-server")

def build(root):
    def w(rel, s):
        p = os.path.join(root, rel); os.makedirs(os.path.dirname(p), exist_ok=True)
        open(p, "w").write(s)
    w("conftest.py", "import pytest\nfrom fixtures_mod import *\n")
    w("fixtures_mod.py", "import pytest\n\n@pytest.fixture\ndef mod_fx():\n    return 2\n")
    w("test_x.py", "def test_x(mod_fx):\n    pass\n")
    body = "import pytest\n" + "".join(
        f"\ndef helper_{i}(a, b=1, *c, **d):\n    x = [a, b, c, d]\n    return x\n" for i in range(150))
    for i in range(60):
        w(f".venv/lib/python3.12/site-packages/_pytest/mod_{i}.py", body)

class Lsp:
    def __init__(self):
        self.p = subprocess.Popen([BIN], stdin=subprocess.PIPE, stdout=subprocess.PIPE, stderr=subprocess.DEVNULL)
        self.q = queue.Queue(); self.id = 0
        threading.Thread(target=self.reader, daemon=True).start()
    def reader(self):
        f = self.p.stdout
        while True:
            n = None
            while True:
                line = f.readline()
                if not line: return
                line = line.strip()
                if not line: break
                if line.lower().startswith(b"content-length:"): n = int(line.split(b":")[1])
            self.q.put(json.loads(f.read(n)))
    def send(self, m):
        b = json.dumps(m).encode()
        self.p.stdin.write(b"Content-Length: %d\r\n\r\n" % len(b) + b); self.p.stdin.flush()
    def notify(self, method, params): self.send({"jsonrpc": "2.0", "method": method, "params": params})
    def request(self, method, params):
        self.id += 1; self.send({"jsonrpc": "2.0", "id": self.id, "method": method, "params": params})
        return self.wait(lambda m: m.get("id") == self.id and "method" not in m)
    def wait(self, pred, timeout=120):
        end = time.time() + timeout
        while time.time() < end:
            try: m = self.q.get(timeout=0.5)
            except queue.Empty: continue
            if "id" in m and "method" in m:  # server->client request: answer it
                self.send({"jsonrpc": "2.0", "id": m["id"], "result": None})
            if pred(m): return m
        raise TimeoutError

def session(root, open_close):
    uri = lambda rel: "file://" + os.path.join(root, rel)
    s = Lsp()
    s.request("initialize", {"processId": None, "rootUri": "file://" + root, "capabilities": {}})
    s.notify("initialized", {})
    if open_close:
        broken = open(os.path.join(root, "conftest.py")).read() + "\ndef half_typed(:\n"
        s.notify("textDocument/didOpen", {"textDocument": {"uri": uri("conftest.py"), "languageId": "python", "version": 1, "text": broken}})
        time.sleep(0.2)
        s.notify("textDocument/didClose", {"textDocument": {"uri": uri("conftest.py")}})
    s.wait(lambda m: m.get("method") == "window/logMessage" and "scan complete" in m["params"]["message"])
    text = open(os.path.join(root, "test_x.py")).read()
    s.notify("textDocument/didOpen", {"textDocument": {"uri": uri("test_x.py"), "languageId": "python", "version": 1, "text": text}})
    r = s.request("textDocument/definition", {"textDocument": {"uri": uri("test_x.py")}, "position": {"line": 0, "character": 12}})
    s.p.kill()
    return r.get("result")

root = os.path.realpath(tempfile.mkdtemp()); build(root)
control = session(root, False)
got = session(root, True)
print("control (no open/close):          definition(mod_fx) =", json.dumps(control))
print("didOpen(broken)+didClose in scan: definition(mod_fx) =", json.dumps(got))
if (control is None) or (got is None):
    print("FAIL: the module conftest.py imports on disk was never indexed"); sys.exit(1)
print("ok")
