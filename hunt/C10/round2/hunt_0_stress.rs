// Exploration harness (not a finding by itself): scan || notifications vs. scan ; notifications
use pytest_language_server::FixtureDatabase;
use std::collections::BTreeMap;
use std::fs;
use std::path::{Path, PathBuf};
use std::sync::Arc;
use std::time::{Duration, Instant};

struct Rng(u64);
impl Rng {
    fn next(&mut self) -> u64 {
        self.0 ^= self.0 << 13;
        self.0 ^= self.0 >> 7;
        self.0 ^= self.0 << 17;
        self.0
    }
    fn below(&mut self, n: u64) -> u64 {
        self.next() % n
    }
}

fn w(p: &Path, s: &str) {
    fs::create_dir_all(p.parent().unwrap()).unwrap();
    fs::write(p, s).unwrap();
}

fn build_ws(root: &Path) -> Vec<PathBuf> {
    let mut files = vec![];
    let mut add = |rel: &str, s: &str, track: bool, files: &mut Vec<PathBuf>| {
        let p = root.join(rel);
        w(&p, s);
        if track {
            files.push(p);
        }
    };
    add(
        "conftest.py",
        "import pytest\nfrom fixtures_mod import *\npytest_plugins = [\"plugs.plug_a\"]\n\n@pytest.fixture\ndef root_fx():\n    return 1\n",
        true,
        &mut files,
    );
    add(
        "fixtures_mod.py",
        "import pytest\n\n@pytest.fixture\ndef mod_fx(root_fx):\n    return 2\n",
        false,
        &mut files,
    );
    add("plugs/__init__.py", "", false, &mut files);
    add(
        "plugs/plug_a.py",
        "import pytest\nfrom pkg.test_shared import *\n\n@pytest.fixture\ndef plug_fx():\n    return 3\n",
        false,
        &mut files,
    );
    add("pkg/__init__.py", "", false, &mut files);
    add(
        "pkg/conftest.py",
        "import pytest\nfrom .test_shared import shared_fx\n\n@pytest.fixture\ndef pkg_fx(root_fx, mod_fx):\n    return 4\n",
        true,
        &mut files,
    );
    add(
        "pkg/test_shared.py",
        "import pytest\n\n@pytest.fixture\ndef shared_fx():\n    return 5\n\ndef test_shared(shared_fx, pkg_fx):\n    pass\n",
        true,
        &mut files,
    );
    add(
        "pkg/test_a.py",
        "import pytest\nfrom pkg.test_shared import shared_fx\nfrom conftest import root_fx\n\n@pytest.fixture\ndef a_fx(shared_fx):\n    return 6\n\ndef test_a(a_fx, root_fx, plug_fx):\n    pass\n",
        true,
        &mut files,
    );
    add(
        "pkg/sub/conftest.py",
        "import pytest\nfrom ..conftest import *\n\n@pytest.fixture\ndef pkg_fx(pkg_fx):\n    return pkg_fx\n",
        true,
        &mut files,
    );
    add(
        "pkg/sub/test_b.py",
        "def test_b(pkg_fx, mod_fx):\n    pass\n",
        true,
        &mut files,
    );
    for i in 0..40 {
        add(
            &format!("fill/d{}/test_fill_{}.py", i % 5, i),
            &format!("import pytest\n\n@pytest.fixture\ndef fill_{i}():\n    return 0\n\ndef test_f(fill_{i}, root_fx):\n    pass\n"),
            false,
            &mut files,
        );
    }
    // editable plugin living inside the workspace
    add(
        "src/myplug/__init__.py",
        "import pytest\n\n@pytest.fixture\ndef myplug_fx():\n    return 7\n",
        false,
        &mut files,
    );
    add(
        "src/myplug/conftest.py",
        "import pytest\n\n@pytest.fixture\ndef myplug_conf_fx():\n    return 8\n",
        true,
        &mut files,
    );
    add(
        "src/myplug/helper_test.py",
        "import pytest\n\n@pytest.fixture\ndef helper_fx():\n    return 9\n\ndef test_h(helper_fx):\n    pass\n",
        true,
        &mut files,
    );
    let sp = root.join(".venv/lib/python3.12/site-packages");
    w(
        &sp.join("myplug-1.0.dist-info/entry_points.txt"),
        "[pytest11]\nmyplug = myplug\n",
    );
    w(
        &sp.join("myplug-1.0.dist-info/direct_url.json"),
        "{\"url\": \"file:///x\", \"dir_info\": {\"editable\": true}}",
    );
    w(
        &sp.join("__editable__.myplug-1.0.pth"),
        &format!("{}\n", root.join("src").display()),
    );
    files
}

type Snap = BTreeMap<String, Vec<String>>;

fn snapshot(db: &FixtureDatabase, root: &Path, opened: &[PathBuf]) -> Snap {
    let mut m: Snap = BTreeMap::new();
    for e in db.definitions.iter() {
        for d in e.value() {
            let rel = d.file_path.strip_prefix(root).unwrap_or(&d.file_path);
            m.entry(format!("defs {}", rel.display())).or_default().push(format!(
                "{} L{} {}-{} plugin={} tp={} deps={:?} scope={:?}",
                d.name, d.line, d.start_char, d.end_char, d.is_plugin, d.is_third_party, d.dependencies, d.scope
            ));
        }
    }
    for e in db.usages.iter() {
        let rel = e.key().strip_prefix(root).unwrap_or(e.key());
        let v = m.entry(format!("usages {}", rel.display())).or_default();
        for u in e.value() {
            v.push(format!("{} L{} {}-{}", u.name, u.line, u.start_char, u.end_char));
        }
    }
    for e in db.usage_by_fixture.iter() {
        for (p, u) in e.value() {
            let rel = p.strip_prefix(root).unwrap_or(p);
            m.entry(format!("ubf {}", rel.display()))
                .or_default()
                .push(format!("{} L{} {}-{}", u.name, u.line, u.start_char, u.end_char));
        }
    }
    for e in db.file_definitions.iter() {
        let rel = e.key().strip_prefix(root).unwrap_or(e.key());
        let mut names: Vec<_> = e.value().iter().cloned().collect();
        names.sort();
        m.entry(format!("fdefs {}", rel.display())).or_default().push(format!("{:?}", names));
    }
    for e in db.imports.iter() {
        let rel = e.key().strip_prefix(root).unwrap_or(e.key());
        let mut names: Vec<_> = e.value().iter().cloned().collect();
        names.sort();
        m.entry(format!("imports {}", rel.display())).or_default().push(format!("{:?}", names));
    }
    for p in opened {
        let rel = p.strip_prefix(root).unwrap_or(p);
        let t = db.file_cache.get(p).map(|c| c.value().to_string());
        m.entry(format!("text {}", rel.display())).or_default().push(format!("{:?}", t));
    }
    for v in m.values_mut() {
        v.sort();
    }
    m.retain(|_, v| !v.is_empty());
    m
}

#[derive(Clone, Debug)]
enum Ev {
    Open(PathBuf, String),
    Change(PathBuf, String),
    Close(PathBuf),
}

fn apply(db: &FixtureDatabase, ev: &Ev, gap: Duration) {
    match ev {
        Ev::Open(p, t) | Ev::Change(p, t) => {
            db.document_opened(p);
            spin(gap);
            db.analyze_file(p.clone(), t);
        }
        Ev::Close(p) => {
            db.document_closed(p);
            db.cleanup_file_cache(p);
        }
    }
}

fn spin(d: Duration) {
    let t = Instant::now();
    while t.elapsed() < d {
        std::hint::spin_loop();
    }
}

fn variant(rng: &mut Rng, disk: &str, tag: u64) -> String {
    match rng.below(4) {
        0 => disk.to_string(),
        1 => format!(
            "{disk}\n@pytest.fixture\ndef extra_{tag}(root_fx):\n    return 0\n\ndef test_extra_{tag}(extra_{tag}):\n    pass\n"
        ),
        2 => format!("{disk}\ndef broken_{tag}(:\n"),
        _ => {
            // same imports, other fixtures
            let head: String = disk
                .lines()
                .filter(|l| l.starts_with("import") || l.starts_with("from") || l.starts_with("pytest_plugins"))
                .collect::<Vec<_>>()
                .join("\n");
            format!("{head}\nimport pytest\n\n@pytest.fixture\ndef only_{tag}():\n    return 0\n")
        }
    }
}

#[test]
fn stress() {
    let iters: u64 = std::env::var("HUNT_ITERS").ok().and_then(|s| s.parse().ok()).unwrap_or(300);
    let seed: u64 = std::env::var("HUNT_SEED").ok().and_then(|s| s.parse().ok()).unwrap_or(12345);
    let allow_close = std::env::var("HUNT_CLOSE").is_ok();
    let tmp = tempfile::tempdir().unwrap();
    let root = tmp.path().canonicalize().unwrap();
    let files = build_ws(&root);

    // scan duration estimate
    let t = Instant::now();
    FixtureDatabase::new().scan_workspace(&root);
    let scan_us = t.elapsed().as_micros() as u64;
    eprintln!("scan takes {} us", scan_us);

    let mut rng = Rng(seed);
    let mut failures = 0;
    for it in 0..iters {
        // build a history
        let n = 1 + rng.below(3);
        let mut evs = vec![];
        let mut opened = vec![];
        for k in 0..n {
            let p = files[rng.below(files.len() as u64) as usize].clone();
            if opened.contains(&p) {
                continue;
            }
            let disk = fs::read_to_string(&p).unwrap();
            let will_close = allow_close && rng.below(2) == 0;
            let mut var = |rng: &mut Rng, tag: u64| -> String {
                if will_close {
                    if rng.below(2) == 0 { disk.clone() } else { format!("{disk}\ndef broken_{tag}(:\n") }
                } else {
                    variant(rng, &disk, tag)
                }
            };
            evs.push(Ev::Open(p.clone(), var(&mut rng, it * 10 + k)));
            if rng.below(2) == 0 {
                evs.push(Ev::Change(p.clone(), var(&mut rng, it * 10 + k + 5)));
            }
            if will_close {
                evs.push(Ev::Close(p.clone()));
            } else {
                opened.push(p);
            }
        }
        // reference: scan, then notifications
        let refdb = FixtureDatabase::new();
        refdb.scan_workspace(&root);
        for e in &evs {
            apply(&refdb, e, Duration::ZERO);
        }
        let want = snapshot(&refdb, &root, &opened);

        // concurrent
        let db = Arc::new(FixtureDatabase::new());
        let delay = Duration::from_micros(rng.below(scan_us + scan_us / 4));
        let gaps: Vec<Duration> = evs
            .iter()
            .map(|_| Duration::from_micros(if rng.below(3) == 0 { rng.below(scan_us / 2 + 1) } else { 0 }))
            .collect();
        let between: Vec<Duration> = evs
            .iter()
            .map(|_| Duration::from_micros(if rng.below(2) == 0 { rng.below(scan_us / 3 + 1) } else { 0 }))
            .collect();
        let db2 = Arc::clone(&db);
        let root2 = root.clone();
        let scan = std::thread::spawn(move || db2.scan_workspace(&root2));
        spin(delay);
        for (i, e) in evs.iter().enumerate() {
            apply(&db, e, gaps[i]);
            spin(between[i]);
        }
        scan.join().unwrap();
        let got = snapshot(&db, &root, &opened);
        if got != want {
            failures += 1;
            if failures <= 5 {
                eprintln!("=== MISMATCH iter {} delay {:?} gaps {:?}", it, delay, gaps);
                for e in &evs {
                    match e {
                        Ev::Open(p, t) => eprintln!("  open {:?}\n----\n{}\n----", p.strip_prefix(&root).unwrap(), t),
                        Ev::Change(p, t) => eprintln!("  change {:?}\n----\n{}\n----", p.strip_prefix(&root).unwrap(), t),
                        Ev::Close(p) => eprintln!("  close {:?}", p.strip_prefix(&root).unwrap()),
                    }
                }
                let keys: std::collections::BTreeSet<_> = want.keys().chain(got.keys()).collect();
                for k in keys {
                    if want.get(k) != got.get(k) {
                        eprintln!("  key {}\n    want {:?}\n    got  {:?}", k, want.get(k), got.get(k));
                    }
                }
            }
        }
    }
    assert_eq!(failures, 0, "{} mismatching iterations", failures);
}
