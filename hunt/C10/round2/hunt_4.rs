// C10 hunt 4: a fixture module that conftest.py imports is open in the editor with text that
// does not parse when the scan runs (e.g. "restart language server" while half-way through
// an edit: the client re-sends didOpen for every open document right after initialize).
// For a test file / conftest.py the scan's walk keeps the on-disk version in effect
// ("a document opened with text that does not parse keeps its on-disk version in effect").
// A module that the scan reaches by following an import goes through
// analyze_imported_module_once instead, which takes the occupied text cache (the editor's
// buffer) for "somebody has analysed it already" and never indexes the file at all.
use pytest_language_server::FixtureDatabase;
use std::fs;

#[test]
fn imported_module_open_with_unparsable_text_during_scan_is_never_indexed() {
    let tmp = tempfile::tempdir().unwrap();
    let root = tmp.path().canonicalize().unwrap();
    fs::write(root.join("conftest.py"), "from fixtures_mod import *\n").unwrap();
    let mod_text = "import pytest\n\n@pytest.fixture\ndef mod_fx():\n    return 2\n";
    let module = root.join("fixtures_mod.py");
    fs::write(&module, mod_text).unwrap();
    let test_x = root.join("test_x.py");
    fs::write(&test_x, "def test_x(mod_fx):\n    pass\n").unwrap();
    let broken = format!("{mod_text}\n@pytest.fixture\ndef half_typed(:\n");

    // schedule A: scan, then didOpen(broken)
    let a = FixtureDatabase::new();
    a.scan_workspace(&root);
    a.document_opened(&module);
    a.analyze_file(module.clone(), &broken);

    // schedule B: didOpen(broken) handled before the scan's import phase gets to the module
    let b = FixtureDatabase::new();
    b.document_opened(&module);
    b.analyze_file(module.clone(), &broken);
    b.scan_workspace(&root);

    let res = |db: &FixtureDatabase| db.find_fixture_definition(&test_x, 0, 12).map(|d| (d.file_path, d.line));
    eprintln!("scan, then didOpen(broken): mod_fx indexed={} definition from test_x.py={:?}", a.definitions.contains_key("mod_fx"), res(&a));
    eprintln!("didOpen(broken), then scan: mod_fx indexed={} definition from test_x.py={:?}", b.definitions.contains_key("mod_fx"), res(&b));
    assert!(a.definitions.contains_key("mod_fx"));
    assert!(b.definitions.contains_key("mod_fx"), "the on-disk version of the open module is not in effect");

    // "one further change notification" that still does not parse does not help either
    b.document_opened(&module);
    b.analyze_file(module.clone(), &format!("{broken}x"));
    assert!(b.definitions.contains_key("mod_fx"));
}
