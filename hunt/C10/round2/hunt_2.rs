// C10 hunt 2: a conftest.py that is opened and closed again while the scan is running is
// dropped from the scan's work list for following imports (that list is built from the text
// cache, and didClose removes the document's entry from it), so the fixture modules it
// imports are never indexed - although the very same workspace scanned without the
// open/close has them.
//
// The close is placed between the scan's walk and its import phase (i.e. during the venv
// phase, which takes seconds in a real virtualenv); the test detects the start of the venv
// phase through the public `site_packages_paths` field and makes that phase long enough with
// a few hundred files in `_pytest/`.
use pytest_language_server::FixtureDatabase;
use std::fs;
use std::path::Path;
use std::sync::Arc;
use std::time::{Duration, Instant};

fn w(p: &Path, s: &str) {
    fs::create_dir_all(p.parent().unwrap()).unwrap();
    fs::write(p, s).unwrap();
}

fn slow_venv(root: &Path) -> std::path::PathBuf {
    let sp = root.join(".venv/lib/python3.12/site-packages");
    let mut body = String::from("import pytest\n");
    for i in 0..150 {
        body.push_str(&format!("\ndef helper_{i}(a, b=1, *c, **d):\n    x = [a, b, c, d]\n    return x\n"));
    }
    for i in 0..40 {
        w(&sp.join(format!("_pytest/mod_{i}.py")), &body);
    }
    sp
}

/// run `scan_workspace` in a thread; call `during_venv_phase` once the walk is over
fn scan_with(db: &Arc<FixtureDatabase>, root: &Path, during_venv_phase: impl FnOnce()) {
    let db2 = Arc::clone(db);
    let root2 = root.to_path_buf();
    let scan = std::thread::spawn(move || db2.scan_workspace(&root2));
    let t = Instant::now();
    while db.site_packages_paths.lock().unwrap().is_empty() {
        assert!(t.elapsed() < Duration::from_secs(30), "venv phase never started");
        std::thread::yield_now();
    }
    during_venv_phase();
    let closed_at = t.elapsed();
    scan.join().unwrap();
    eprintln!("close done {:?} after scan start; scan finished after {:?}", closed_at, t.elapsed());
}

// Variant A: the document is NOT modified (didOpen carries the text that is on disk).
// conftest.py star-imports a module of a src-layout package that is installed editable;
// the import only resolves once the venv phase has discovered the editable install.
#[test]
fn open_close_unmodified_conftest_during_scan_loses_its_imported_fixtures() {
    let tmp = tempfile::tempdir().unwrap();
    let root = tmp.path().canonicalize().unwrap();
    let conf_text = "import pytest\nfrom myplug.fixtures import *\n\n@pytest.fixture\ndef local_fx():\n    return 1\n";
    w(&root.join("tests/conftest.py"), conf_text);
    w(&root.join("tests/test_x.py"), "def test_x(plug_fx, local_fx):\n    pass\n");
    w(&root.join("src/myplug/__init__.py"), "");
    w(&root.join("src/myplug/fixtures.py"), "import pytest\n\n@pytest.fixture\ndef plug_fx():\n    return 2\n");
    let sp = slow_venv(&root);
    w(&sp.join("myplug-1.0.dist-info/direct_url.json"), "{\"url\": \"file:///x\", \"dir_info\": {\"editable\": true}}");
    w(&sp.join("__editable__.myplug-1.0.pth"), &format!("{}\n", root.join("src").display()));
    let conf = root.join("tests/conftest.py");
    let test_x = root.join("tests/test_x.py");

    // control: the scan alone
    let control = FixtureDatabase::new();
    control.scan_workspace(&root);
    assert!(control.definitions.contains_key("plug_fx"), "sanity: scan alone indexes src/myplug/fixtures.py");
    assert!(control.find_fixture_definition(&test_x, 0, 12).is_some());

    // didOpen(conftest.py, same text as on disk) early in the scan, didClose during the venv phase
    let db = Arc::new(FixtureDatabase::new());
    db.document_opened(&conf);
    db.analyze_file(conf.clone(), conf_text);
    scan_with(&db, &root, || {
        db.document_closed(&conf);
        db.cleanup_file_cache(&conf);
    });

    eprintln!("plug_fx indexed: control={} with open+close={}",
        control.definitions.contains_key("plug_fx"), db.definitions.contains_key("plug_fx"));
    eprintln!("go-to-definition of plug_fx from tests/test_x.py: {:?}",
        db.find_fixture_definition(&test_x, 0, 12).map(|d| d.file_path));
    assert!(
        db.definitions.contains_key("plug_fx"),
        "open+close of an unmodified conftest.py during the scan: the module it imports was never indexed"
    );
}

// Variant B: the document is open with text that does not parse (its on-disk version stays
// in effect), plain sibling helper module.
#[test]
fn open_unparsable_close_conftest_during_scan_loses_its_imported_fixtures() {
    let tmp = tempfile::tempdir().unwrap();
    let root = tmp.path().canonicalize().unwrap();
    let conf_text = "import pytest\nfrom fixtures_mod import *\n";
    w(&root.join("conftest.py"), conf_text);
    w(&root.join("fixtures_mod.py"), "import pytest\n\n@pytest.fixture\ndef mod_fx():\n    return 2\n");
    w(&root.join("test_x.py"), "def test_x(mod_fx):\n    pass\n");
    slow_venv(&root);
    let conf = root.join("conftest.py");

    let control = FixtureDatabase::new();
    control.scan_workspace(&root);
    assert!(control.definitions.contains_key("mod_fx"));

    let db = Arc::new(FixtureDatabase::new());
    db.document_opened(&conf);
    db.analyze_file(conf.clone(), &format!("{conf_text}\ndef half_typed(:\n"));
    scan_with(&db, &root, || {
        db.document_closed(&conf);
        db.cleanup_file_cache(&conf);
    });
    eprintln!("mod_fx indexed: control={} with open+close={}",
        control.definitions.contains_key("mod_fx"), db.definitions.contains_key("mod_fx"));
    assert!(db.definitions.contains_key("mod_fx"));
}
