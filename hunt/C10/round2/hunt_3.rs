// C10 hunt 3: a didOpen that is handled before the scan thread has stored the workspace root
// is analysed with `workspace_root == None`, so `path_is_in_site_packages` looks at the whole
// path; if the workspace lives below a directory whose name contains "site-packages" the
// buffer's fixtures are recorded as third-party. The scan's walk then leaves "the analysis of
// the buffer" standing, so the flag stays wrong after both have finished (the scan alone, or
// the scan followed by the same didOpen, give is_third_party=false).
use pytest_language_server::FixtureDatabase;
use std::fs;

#[test]
fn did_open_before_scan_start_marks_workspace_fixtures_third_party() {
    let tmp = tempfile::tempdir().unwrap();
    let root = tmp.path().canonicalize().unwrap().join("site-packages-tools/proj");
    fs::create_dir_all(root.join("tests/sub")).unwrap();
    let text = "import pytest\n\n@pytest.fixture\ndef conf_fx():\n    return 1\n";
    let conf = root.join("tests/sub/conftest.py");
    fs::write(&conf, text).unwrap();
    let other = root.join("tests/test_other.py");
    fs::write(&other, "def test_o(conf_fx):\n    pass\n").unwrap();

    let a = FixtureDatabase::new();
    a.scan_workspace(&root);
    a.document_opened(&conf);
    a.analyze_file(conf.clone(), text);

    let b = FixtureDatabase::new();
    b.document_opened(&conf);
    b.analyze_file(conf.clone(), text);
    b.scan_workspace(&root);

    let tp = |db: &FixtureDatabase| db.definitions.get("conf_fx").unwrap().iter().map(|d| d.is_third_party).collect::<Vec<_>>();
    // tests/test_other.py is NOT below tests/sub/: conf_fx must not resolve there
    let res = |db: &FixtureDatabase| db.find_fixture_definition(&other, 0, 12).map(|d| d.file_path);
    eprintln!("scan, then didOpen : is_third_party {:?}; conf_fx seen from tests/test_other.py: {:?}", tp(&a), res(&a));
    eprintln!("didOpen, then scan : is_third_party {:?}; conf_fx seen from tests/test_other.py: {:?}", tp(&b), res(&b));
    assert_eq!(tp(&b), tp(&a));
    assert_eq!(res(&b), res(&a));
}
