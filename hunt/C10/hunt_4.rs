//! C10 hunt 4: the notification is handled WHILE the scan worker is in the middle of
//! analysing F (true interleaving, not "before" or "after"). `analyze_file_internal` is a
//! sequence of independent DashMap operations (cache text, clear usages, clear definitions,
//! record one definition / usage at a time) with nothing that serialises two analyses of
//! the same path, so the two runs interleave and the index ends up as a mixture: the
//! buffer's records plus whatever the scan worker recorded after the notification's
//! cleanup.
//!
//! No hook is needed to hit the window: the test delivers the notification as soon as the
//! scan worker has started on F (the cached text appears first), F just has to be big
//! enough for its analysis to take longer than a thread wake-up.

use pytest_language_server::FixtureDatabase;
use std::fmt::Write as _;
use std::fs;
use std::path::Path;
use std::sync::Arc;

/// fixtures + tests per version of F (override with HUNT_N)
fn n() -> usize {
    std::env::var("HUNT_N").ok().and_then(|v| v.parse().ok()).unwrap_or(1500)
}

fn module(prefix: &str) -> String {
    let mut s = String::from("import pytest\n\n");
    for i in 0..n() {
        write!(
            s,
            "\n@pytest.fixture\ndef {prefix}_{i}():\n    return {i}\n\n\ndef test_{prefix}_{i}({prefix}_{i}):\n    pass\n\n"
        )
        .unwrap();
    }
    s
}

fn count_defs(db: &FixtureDatabase, file: &Path, prefix: &str) -> usize {
    db.definitions
        .iter()
        .map(|e| {
            e.value()
                .iter()
                .filter(|d| d.file_path == file && d.name.starts_with(prefix))
                .count()
        })
        .sum()
}

fn count_usages(db: &FixtureDatabase, file: &Path, prefix: &str) -> usize {
    db.usages
        .get(file)
        .map(|u| u.iter().filter(|u| u.name.starts_with(prefix)).count())
        .unwrap_or(0)
}

fn count_refs(db: &FixtureDatabase, file: &Path, prefix: &str) -> usize {
    db.usage_by_fixture
        .iter()
        .map(|e| {
            e.value()
                .iter()
                .filter(|(p, u)| p == file && u.name.starts_with(prefix))
                .count()
        })
        .sum()
}

fn run(file_name: &str) {
    #[allow(non_snake_case)]
    let N = n();
    let disk = module("disk");
    let buffer = module("buf");
    let mut worst = None;
    for attempt in 0..10 {
        let tmp = tempfile::tempdir().unwrap();
        let root = tmp.path().canonicalize().unwrap();
        let file = root.join(file_name);
        fs::write(&file, &disk).unwrap();

        let db = Arc::new(FixtureDatabase::new());
        let scan = {
            let db = Arc::clone(&db);
            let root = root.clone();
            std::thread::spawn(move || db.scan_workspace(&root))
        };
        // the scan worker has begun analysing F
        while !db.file_cache.contains_key(&file) {
            std::hint::spin_loop();
        }
        db.analyze_file(file.clone(), &buffer); // did_open / did_change
        scan.join().unwrap();

        let state = (
            count_defs(&db, &file, "buf_"),
            count_defs(&db, &file, "disk_"),
            count_usages(&db, &file, "buf_"),
            count_usages(&db, &file, "disk_"),
            count_refs(&db, &file, "buf_"),
            count_refs(&db, &file, "disk_"),
            db.file_cache.get(&file).map(|t| **t == buffer).unwrap(),
        );
        println!(
            "attempt {attempt}: defs buffer/disk = {}/{}, usages buffer/disk = {}/{}, reverse index buffer/disk = {}/{}, cached text is buffer = {}",
            state.0, state.1, state.2, state.3, state.4, state.5, state.6
        );
        if state != (N, 0, N, 0, N, 0, true) {
            worst = Some(state);
            // positive control: one more notification repairs it
            db.analyze_file(file.clone(), &buffer);
            assert_eq!(
                (
                    count_defs(&db, &file, "buf_"),
                    count_defs(&db, &file, "disk_"),
                    count_usages(&db, &file, "buf_"),
                    count_usages(&db, &file, "disk_"),
                    count_refs(&db, &file, "buf_"),
                    count_refs(&db, &file, "disk_"),
                ),
                (N, 0, N, 0, N, 0)
            );
            break;
        }
    }
    assert_eq!(
        worst, None,
        "(buffer defs, disk defs, buffer usages, disk usages, buffer refs, disk refs, text is buffer): expected ({N}, 0, {N}, 0, {N}, 0, true)"
    );
}

#[test]
fn notification_interleaved_with_scan_worker_test_file() {
    run("test_big.py");
}

#[test]
fn notification_interleaved_with_scan_worker_conftest() {
    run("conftest.py");
}
