//! C10 hunt 2: the scan reads F from disk a SECOND time, in its plugin phase, and this
//! time with cleanup - so the older on-disk text replaces the editor's buffer outright,
//! even when the notification arrived *after* the scan worker's visit to F (the order in
//! which the buffer does win in phase 2).
//!
//! Workspace shape: the project is a pytest plugin installed editable into its own
//! .venv (what `pip install -e .` / `uv sync` produce), its `pytest11` entry point names
//! the package, and the package contains a conftest.py (tests shipped inside the package).
//!
//! Schedule control: a FIFO `_pytest/zz_gate.py` in site-packages. `_pytest` is scanned
//! at the beginning of phase 3 (after phase 2 has completed), reading the FIFO blocks the
//! scan thread until the test closes the write end. It plays the role of any slow file.

use pytest_language_server::FixtureDatabase;
use std::fs;
use std::io::Write;
use std::path::Path;
use std::sync::Arc;

const DISK: &str = r#"import pytest


@pytest.fixture
def old_fx():
    return 1
"#;

const BUFFER: &str = r#"import pytest

# edited, unsaved

@pytest.fixture
def new_fx():
    return 1
"#;

fn defs_of(db: &FixtureDatabase, file: &Path) -> Vec<(String, usize)> {
    let mut v: Vec<(String, usize)> = db
        .definitions
        .iter()
        .flat_map(|e| {
            e.value()
                .iter()
                .filter(|d| d.file_path == file)
                .map(|d| (d.name.clone(), d.line))
                .collect::<Vec<_>>()
        })
        .collect();
    v.sort();
    v
}

fn run(rel_file: &str) {
    let tmp = tempfile::tempdir().unwrap();
    let root = tmp.path().canonicalize().unwrap();

    // the project: an importable package with an in-package conftest.py
    let file = root.join(rel_file);
    fs::create_dir_all(file.parent().unwrap()).unwrap();
    fs::write(root.join("mypkg/__init__.py"), "").unwrap();
    fs::write(&file, DISK).unwrap();

    // its own venv, the project installed editable
    let sp = root.join(".venv/lib/python3.12/site-packages");
    let di = sp.join("mypkg-1.0.dist-info");
    fs::create_dir_all(&di).unwrap();
    fs::write(di.join("entry_points.txt"), "[pytest11]\nmypkg = mypkg\n").unwrap();
    fs::write(
        di.join("direct_url.json"),
        format!(
            r#"{{"url": "file://{}", "dir_info": {{"editable": true}}}}"#,
            root.display()
        ),
    )
    .unwrap();
    fs::write(
        sp.join("__editable__.mypkg-1.0.pth"),
        format!("{}\n", root.display()),
    )
    .unwrap();

    // pytest itself, with the gate
    fs::create_dir_all(sp.join("_pytest")).unwrap();
    fs::write(sp.join("_pytest/__init__.py"), "").unwrap();
    let gate = sp.join("_pytest/zz_gate.py");
    assert!(std::process::Command::new("mkfifo")
        .arg(&gate)
        .status()
        .unwrap()
        .success());

    let db = Arc::new(FixtureDatabase::new());
    let scan = {
        let db = Arc::clone(&db);
        let root = root.clone();
        std::thread::spawn(move || db.scan_workspace(&root))
    };

    // Blocks until the scan thread opens the gate for reading: phase 2 is over by then.
    let mut gate_w = fs::OpenOptions::new().write(true).open(&gate).unwrap();
    assert!(
        db.file_cache.contains_key(&file),
        "the scan worker has already visited F"
    );
    assert_eq!(defs_of(&db, &file), vec![("old_fx".to_string(), 5)]);

    // did_open / did_change with the buffer, after the scan's visit: the buffer wins ...
    db.analyze_file(file.clone(), BUFFER);
    assert_eq!(defs_of(&db, &file), vec![("new_fx".to_string(), 6)]);
    assert!(!scan.is_finished());

    // ... until the scan carries on
    gate_w.write_all(b"\n").unwrap();
    drop(gate_w);
    scan.join().unwrap();

    let got = defs_of(&db, &file);
    let text_is_buffer = db.file_cache.get(&file).map(|t| t.as_str() == BUFFER);
    println!("definitions of {rel_file} after the scan: {got:?}; cached text is buffer: {text_is_buffer:?}");
    assert_eq!(
        got,
        vec![("new_fx".to_string(), 6)],
        "index must reflect the editor's buffer, not the older on-disk text"
    );
    assert_eq!(text_is_buffer, Some(true));
}

#[test]
fn conftest_in_editable_plugin_package() {
    run("mypkg/conftest.py");
}

#[test]
fn nested_tests_conftest_in_editable_plugin_package() {
    run("mypkg/tests/conftest.py");
}

#[test]
fn suffix_style_test_file_in_editable_plugin_package() {
    run("mypkg/tests/plugin_test.py");
}
