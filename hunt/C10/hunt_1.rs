//! C10 hunt 1: a document opened while the workspace scan is running, *before* the scan
//! worker reaches that file. The scan then analyses the on-disk text with
//! `analyze_file_fresh` (no cleanup) on top of the editor's analysis.
//!
//! Expected (C10): the index reflects the buffer exactly once.
//! Actual: definitions of the buffer AND of the disk text, usages of the disk text only,
//! cached text = disk text.

use pytest_language_server::FixtureDatabase;
use std::fs;
use std::path::{Path, PathBuf};
use std::sync::Arc;

const DISK: &str = r#"import pytest


@pytest.fixture
def old_fx():
    return 1


@pytest.fixture
def shared():
    return 2


def test_disk(old_fx, shared):
    pass
"#;

// The editor's buffer: `old_fx` renamed to `new_fx`, a comment block inserted on top
// (every line number moves), the test uses the new name.
const BUFFER: &str = r#"import pytest

# edited in the editor, not saved yet
# (two extra lines)

@pytest.fixture
def new_fx():
    return 1


@pytest.fixture
def shared():
    return 2


def test_buffer(new_fx, shared):
    pass
"#;

/// (fixture name, line) of every definition recorded for `file`, sorted.
fn defs_of(db: &FixtureDatabase, file: &Path) -> Vec<(String, usize)> {
    let mut v: Vec<(String, usize)> = db
        .definitions
        .iter()
        .flat_map(|e| {
            e.value()
                .iter()
                .filter(|d| d.file_path == file)
                .map(|d| (d.name.clone(), d.line))
                .collect::<Vec<_>>()
        })
        .collect();
    v.sort();
    v
}

/// (fixture name, line) of every usage recorded for `file`, sorted.
fn usages_of(db: &FixtureDatabase, file: &Path) -> Vec<(String, usize)> {
    let mut v: Vec<(String, usize)> = db
        .usages
        .get(file)
        .map(|u| u.iter().map(|u| (u.name.clone(), u.line)).collect())
        .unwrap_or_default();
    v.sort();
    v
}

fn refs_of(db: &FixtureDatabase, file: &Path) -> Vec<(String, usize)> {
    let mut v: Vec<(String, usize)> = db
        .usage_by_fixture
        .iter()
        .flat_map(|e| {
            e.value()
                .iter()
                .filter(|(p, _)| p == file)
                .map(|(_, u)| (u.name.clone(), u.line))
                .collect::<Vec<_>>()
        })
        .collect();
    v.sort();
    v
}

fn snapshot(db: &FixtureDatabase, file: &Path) -> String {
    format!(
        "defs={:?}\nusages={:?}\nrefs={:?}\ntext_is_buffer={}",
        defs_of(db, file),
        usages_of(db, file),
        refs_of(db, file),
        db.file_cache
            .get(file)
            .map(|t| t.as_str() == BUFFER)
            .unwrap_or(false)
    )
}

/// The state C10 promises: the buffer analysed exactly once.
fn reference(file: &Path) -> String {
    let db = FixtureDatabase::new();
    db.analyze_file(file.to_path_buf(), BUFFER);
    snapshot(&db, file)
}

fn workspace(file_name: &str, extra_dirs: usize) -> (tempfile::TempDir, PathBuf, PathBuf) {
    let tmp = tempfile::tempdir().unwrap();
    let root = tmp.path().canonicalize().unwrap();
    let dir = root.join("tests");
    fs::create_dir_all(&dir).unwrap();
    let file = dir.join(file_name);
    fs::write(&file, DISK).unwrap();
    // Ballast so that the directory walk (phase 1 of the scan) takes a moment
    for i in 0..extra_dirs {
        let d = root.join(format!("pkg{:04}/sub", i));
        fs::create_dir_all(&d).unwrap();
        fs::write(d.join("module.py"), "x = 1\n").unwrap();
    }
    (tmp, root, file)
}

/// The schedule "didOpen is handled, then the scan worker reaches F", written sequentially.
/// (In the server `initialize` only *spawns* the scan; the first didOpen is routinely
/// handled while the scan is still walking directories.)
fn open_then_scan(file_name: &str) {
    let (_tmp, root, file) = workspace(file_name, 0);
    let db = FixtureDatabase::new();
    db.analyze_file(file.clone(), BUFFER); // did_open
    db.scan_workspace(&root); // the scan gets to F afterwards
    let got = snapshot(&db, &file);
    let want = reference(&file);
    println!("--- expected\n{want}\n--- actual\n{got}");

    // positive control: one more change notification repairs it
    let db2 = FixtureDatabase::new();
    db2.analyze_file(file.clone(), BUFFER);
    db2.scan_workspace(&root);
    db2.analyze_file(file.clone(), BUFFER);
    assert_eq!(snapshot(&db2, &file), want, "a further didChange restores");

    assert_eq!(got, want, "index must reflect the buffer exactly once");
}

#[test]
fn open_before_scan_visit_test_file() {
    open_then_scan("test_mod.py");
}

#[test]
fn open_before_scan_visit_conftest() {
    open_then_scan("conftest.py");
}

/// Same thing with a scan that is really running on another thread: the notification is
/// delivered as soon as the scan has started (it publishes `workspace_root` first thing),
/// while it is still walking the directory tree.
#[test]
fn open_while_scan_is_walking() {
    for attempt in 0..20 {
        let (_tmp, root, file) = workspace("test_mod.py", 3000);
        let db = Arc::new(FixtureDatabase::new());
        let scan = {
            let db = Arc::clone(&db);
            let root = root.clone();
            std::thread::spawn(move || db.scan_workspace(&root))
        };
        while db.workspace_root.lock().unwrap().is_none() {
            std::hint::spin_loop();
        }
        let visited_before = db.file_cache.contains_key(&file);
        db.analyze_file(file.clone(), BUFFER); // did_open during the scan
        let scan_running_after = !scan.is_finished();
        scan.join().unwrap();
        if visited_before || !scan_running_after {
            println!("attempt {attempt}: missed the window, retrying");
            continue;
        }
        let got = snapshot(&db, &file);
        let want = reference(&file);
        println!("--- expected\n{want}\n--- actual\n{got}");
        assert_eq!(got, want, "index must reflect the buffer exactly once");
        return;
    }
    panic!("never hit the window");
}
