//! C20 hunt 5: "project fixture" is decided by a substring test on the path
//! (`path_is_in_site_packages`: `relative.to_string_lossy().contains("site-packages")`).
//! A project directory or file whose *name merely contains* "site-packages"
//! (tests/site-packages-compat/, test_site-packages_layout.py) is scanned like any other
//! (only a component called exactly `site-packages` is skipped) but its fixtures are
//! classified third-party: `fixtures unused` never lists them, while
//! `fixtures list --only-unused` prints them as unused.

use assert_cmd::Command;
use pytest_language_server::FixtureDatabase;
use std::fs;
use tempfile::tempdir;

#[test]
fn project_fixture_in_directory_named_like_site_packages() {
    let dir = tempdir().unwrap();
    let root = dir.path().canonicalize().unwrap();
    fs::create_dir_all(root.join("tests/site-packages-compat")).unwrap();
    fs::write(
        root.join("tests/site-packages-compat/conftest.py"),
        "import pytest\n\n\n@pytest.fixture\ndef fake_site():\n    return 'x'\n",
    )
    .unwrap();
    fs::write(
        root.join("tests/site-packages-compat/test_compat.py"),
        "def test_compat():\n    pass\n",
    )
    .unwrap();

    let db = FixtureDatabase::new();
    db.scan_workspace(&root);
    let def = db.definitions.get("fake_site").unwrap()[0].clone();
    println!(
        "fake_site: file={:?} is_third_party={} references={}",
        def.file_path.strip_prefix(&root).unwrap(),
        def.is_third_party,
        db.find_references_for_definition(&def).len()
    );

    let run = |args: &[&str]| {
        let out = Command::cargo_bin("pytest-language-server")
            .unwrap()
            .arg("fixtures")
            .arg(args[0])
            .arg(&root)
            .args(&args[1..])
            .env("NO_COLOR", "1")
            .output()
            .unwrap();
        (out.status.code(), String::from_utf8_lossy(&out.stdout).to_string())
    };
    let (code, unused) = run(&["unused", "--format", "json"]);
    println!("fixtures unused --format json: exit={:?}\n{}", code, unused);
    let (_, only_unused) = run(&["list", "--only-unused"]);
    println!("fixtures list --only-unused:\n{}", only_unused);

    assert!(only_unused.contains("fake_site"));
    assert!(
        unused.contains("fake_site") && code == Some(1),
        "a project fixture without any usage must be listed and the exit status must be 1"
    );
}
