//! C20 hunt 2: a test module that is reachable under two names (a symlink next to, or in a
//! sibling directory of, the real file) is analysed twice by the parallel scan, both times
//! under the same canonical path and with `analyze_file_fresh` (no clean-up of earlier
//! definitions).  The two rayon workers race on the usages of that path, so the counts of
//! `fixtures list` differ from run to run and with the worker count, and `fixtures unused`
//! lists every unused fixture of the file twice.
#![cfg(unix)]

use assert_cmd::Command;
use std::collections::BTreeMap;
use std::fs;
use tempfile::tempdir;

fn run(root: &std::path::Path, threads: Option<&str>, args: &[&str]) -> (Option<i32>, String) {
    let mut cmd = Command::cargo_bin("pytest-language-server").unwrap();
    cmd.arg("fixtures").arg(args[0]).arg(root).args(&args[1..]);
    if let Some(t) = threads {
        cmd.env("RAYON_NUM_THREADS", t);
    }
    let out = cmd.output().unwrap();
    (out.status.code(), String::from_utf8_lossy(&out.stdout).to_string())
}

#[test]
fn symlinked_test_module_is_not_reproducible() {
    let dir = tempdir().unwrap();
    let root = dir.path().canonicalize().unwrap();
    fs::create_dir_all(root.join("a")).unwrap();
    fs::create_dir_all(root.join("b")).unwrap();
    fs::write(
        root.join("a/test_real.py"),
        r#"import pytest


@pytest.fixture
def shared():
    return 1


@pytest.fixture
def lonely():
    return 2


def test_1(shared):
    pass
"#,
    )
    .unwrap();
    std::os::unix::fs::symlink("../a/test_real.py", root.join("b/test_link.py")).unwrap();

    // (1) `fixtures unused`: one unused fixture in the tree, listed twice
    let (code, json) = run(&root, Some("1"), &["unused", "--format", "json"]);
    println!("fixtures unused --format json (exit {:?}):\n{}", code, json);
    let parsed: serde_json::Value = serde_json::from_str(&json).unwrap();
    let entries = parsed.as_array().unwrap().len();

    // (2) `fixtures list`: the count of `shared` over repeated runs / worker counts
    let mut seen: BTreeMap<String, usize> = BTreeMap::new();
    for threads in [Some("1"), Some("2"), Some("8"), None] {
        for _ in 0..15 {
            let (_, text) = run(&root, threads, &["list"]);
            let line = text
                .lines()
                .find(|l| l.contains("shared"))
                .unwrap_or("<no line>")
                .trim()
                .to_string();
            *seen.entry(line).or_default() += 1;
        }
    }
    println!("distinct `shared` lines over 60 runs of `fixtures list`: {:#?}", seen);

    assert_eq!(seen.len(), 1, "repeated runs must print byte-identical output");
    assert_eq!(entries, 1, "one unused fixture (lonely) must be listed once");
}
