//! C20 hunt 1: the CLI counter keys its counts by (file, fixture name), the server by
//! definition.  Two definitions of one name in one file (a rebinding at module level, or
//! the same fixture name in two test classes) are collapsed by the CLI: the definition no
//! usage resolves to is not reported by `fixtures unused`, and `fixtures list` prints one
//! count for two definitions.

use assert_cmd::Command;
use pytest_language_server::FixtureDatabase;
use std::fs;
use std::path::PathBuf;
use tempfile::tempdir;

/// The property's reference: project fixture, not autouse, no usage resolves to it
/// (as the server's references / code lens compute it).
fn expected_unused(db: &FixtureDatabase) -> Vec<(PathBuf, String, usize)> {
    let mut out = Vec::new();
    for entry in db.definitions.iter() {
        for def in entry.value().iter() {
            if def.is_third_party || def.autouse {
                continue;
            }
            if db.find_references_for_definition(def).is_empty() {
                out.push((def.file_path.clone(), def.name.clone(), def.line));
            }
        }
    }
    out.sort();
    out
}

#[test]
fn rebinding_in_one_module() {
    let dir = tempdir().unwrap();
    let root = dir.path().canonicalize().unwrap();
    fs::write(
        root.join("test_dup.py"),
        r#"import pytest


@pytest.fixture
def data():
    return 1


@pytest.fixture
def data():  # rebinding: the definition above is dead
    return 2


def test_x(data):
    assert data == 2
"#,
    )
    .unwrap();

    let db = FixtureDatabase::new();
    db.scan_workspace(&root);

    // Server view: line 5 has 0 references, line 10 has 1
    let expected = expected_unused(&db);
    println!("server: definitions without references = {:?}", expected);
    for entry in db.definitions.iter() {
        for def in entry.value().iter() {
            println!(
                "server: {}:{} -> {} reference(s)",
                def.name,
                def.line,
                db.find_references_for_definition(def).len()
            );
        }
    }
    let cli = db.get_unused_fixtures();
    println!("cli: get_unused_fixtures = {:?}", cli);

    let out = Command::cargo_bin("pytest-language-server")
        .unwrap()
        .args(["fixtures", "unused"])
        .arg(&root)
        .args(["--format", "json"])
        .output()
        .unwrap();
    println!(
        "binary: exit={:?} stdout={}",
        out.status.code(),
        String::from_utf8_lossy(&out.stdout)
    );

    let expected_pairs: Vec<(PathBuf, String)> =
        expected.iter().map(|(p, n, _)| (p.clone(), n.clone())).collect();
    assert_eq!(
        cli, expected_pairs,
        "`fixtures unused` must list exactly the definitions no usage resolves to"
    );
}

#[test]
fn same_name_in_two_classes() {
    let dir = tempdir().unwrap();
    let root = dir.path().canonicalize().unwrap();
    fs::write(
        root.join("test_cls.py"),
        r#"import pytest


class TestA:
    @pytest.fixture
    def data(self):
        return 1


class TestB:
    @pytest.fixture
    def data(self):
        return 2

    def test_b(self, data):
        assert data == 2
"#,
    )
    .unwrap();

    let db = FixtureDatabase::new();
    db.scan_workspace(&root);
    let expected = expected_unused(&db);
    let cli = db.get_unused_fixtures();
    println!("server: definitions without references = {:?}", expected);
    println!("cli: get_unused_fixtures = {:?}", cli);
    let expected_pairs: Vec<(PathBuf, String)> =
        expected.iter().map(|(p, n, _)| (p.clone(), n.clone())).collect();
    assert_eq!(cli, expected_pairs);
}
