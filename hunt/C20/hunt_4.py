#!/usr/bin/env python3
"""C20 hunt 4: the CLI ignores `[tool.pytest-language-server] exclude`, the server honours it.

Drives the real binary twice on the same tree:
  * as a language server over stdio (initialize -> wait for the scan -> codeLens/references)
  * as `fixtures list` / `fixtures unused --format json`
and compares the usage count of `db` and the set of unused fixtures.

usage: python3 hunt_4.py [path/to/pytest-language-server]
exit status 1 (and a FAIL line) when the two disagree.
"""
import json
import os
import re
import subprocess
import sys
import tempfile

BIN = sys.argv[1] if len(sys.argv) > 1 else os.path.join(
    os.path.dirname(os.path.abspath(__file__)), "target/debug/pytest-language-server")


def make_tree(root):
    os.makedirs(os.path.join(root, "legacy"))
    with open(os.path.join(root, "pyproject.toml"), "w") as f:
        f.write('[tool.pytest-language-server]\nexclude = ["legacy/**"]\n')
    with open(os.path.join(root, "conftest.py"), "w") as f:
        f.write("import pytest\n\n\n@pytest.fixture\ndef db():\n    return 1\n")
    with open(os.path.join(root, "legacy", "conftest.py"), "w") as f:
        f.write("import pytest\n\n\n@pytest.fixture\ndef old_only():\n    return 1\n")
    with open(os.path.join(root, "legacy", "test_old.py"), "w") as f:
        f.write("def test_old(db):\n    pass\n")


class Lsp:
    def __init__(self):
        self.p = subprocess.Popen([BIN], stdin=subprocess.PIPE, stdout=subprocess.PIPE,
                                  stderr=subprocess.DEVNULL)
        self.id = 0

    def send(self, obj):
        body = json.dumps(obj).encode()
        self.p.stdin.write(b"Content-Length: %d\r\n\r\n" % len(body) + body)
        self.p.stdin.flush()

    def read(self):
        length = None
        while True:
            line = self.p.stdout.readline()
            if not line:
                raise EOFError
            line = line.strip()
            if not line:
                break
            if line.lower().startswith(b"content-length:"):
                length = int(line.split(b":")[1])
        return json.loads(self.p.stdout.read(length))

    def request(self, method, params):
        self.id += 1
        self.send({"jsonrpc": "2.0", "id": self.id, "method": method, "params": params})
        while True:
            msg = self.read()
            if msg.get("id") == self.id and "method" not in msg:
                return msg.get("result")

    def notify(self, method, params):
        self.send({"jsonrpc": "2.0", "method": method, "params": params})

    def wait_log(self, text):
        while True:
            msg = self.read()
            if msg.get("method") == "window/logMessage" and text in msg["params"]["message"]:
                return


def main():
    root = os.path.realpath(tempfile.mkdtemp(prefix="hunt4_"))
    make_tree(root)
    uri = "file://" + root

    # --- the language server ---
    lsp = Lsp()
    lsp.request("initialize", {"processId": None, "rootUri": uri, "capabilities": {},
                               "workspaceFolders": [{"uri": uri, "name": "w"}]})
    lsp.notify("initialized", {})
    lsp.wait_log("Workspace scan complete")
    lenses = lsp.request("textDocument/codeLens", {"textDocument": {"uri": uri + "/conftest.py"}})
    server_db = [l["command"]["title"] for l in lenses or []]
    refs = lsp.request("textDocument/references", {
        "textDocument": {"uri": uri + "/conftest.py"},
        "position": {"line": 4, "character": 5},
        "context": {"includeDeclaration": False}})
    legacy_lenses = lsp.request("textDocument/codeLens",
                                {"textDocument": {"uri": uri + "/legacy/conftest.py"}})
    lsp.request("shutdown", None)
    lsp.notify("exit", None)
    print("server: code lens on conftest.py::db          =", server_db)
    print("server: references of db (first is the definition) =",
          [r["uri"][len(uri):] + ":" + str(r["range"]["start"]["line"] + 1) for r in refs or []])
    print("server: code lenses on legacy/conftest.py      =", legacy_lenses)

    # --- the CLI ---
    env = dict(os.environ, NO_COLOR="1")
    lst = subprocess.run([BIN, "fixtures", "list", root], capture_output=True, text=True, env=env)
    print("cli: fixtures list\n" + lst.stdout)
    un = subprocess.run([BIN, "fixtures", "unused", root, "--format", "json"],
                        capture_output=True, text=True, env=env)
    print("cli: fixtures unused --format json (exit %d)\n%s" % (un.returncode, un.stdout))

    cli_db = re.search(r"db \((.*?)\)", lst.stdout).group(1)
    cli_unused = sorted((e["file"], e["fixture"]) for e in json.loads(un.stdout))
    # what the server's index says: db has no reference; legacy/ is not indexed at all
    server_unused = [("conftest.py", "db")] if server_db == ["0 usages"] else []
    ok = True
    if not (server_db == ["0 usages"] and cli_db == "unused"
            or server_db == ["1 usage"] and cli_db == "used 1 time"):
        print("FAIL: usage count of db: server says %r, `fixtures list` says %r" % (server_db, cli_db))
        ok = False
    if cli_unused != server_unused:
        print("FAIL: unused fixtures: server index implies %r, `fixtures unused` prints %r"
              % (server_unused, cli_unused))
        ok = False
    print("PASS" if ok else "FAILED")
    sys.exit(0 if ok else 1)


main()
