//! C20 hunt 2: a project directory / file whose NAME merely contains "site-packages".
//! `path_is_in_site_packages` is a substring test on the path below the workspace root, so
//! project fixtures under `tests/site-packages-compat/` or in `test_site-packages_layout.py`
//! are classified third-party and can never be reported by `fixtures unused`.

use assert_cmd::Command;
use std::fs;

const CONFTEST: &str = "import pytest\n\n@pytest.fixture\ndef never_used():\n    return 1\n";

#[test]
fn project_fixture_below_a_dir_named_like_site_packages_is_reported_unused() {
    let tmp = tempfile::tempdir().unwrap();
    let root = tmp.path().canonicalize().unwrap();
    fs::create_dir_all(root.join("tests/site-packages-compat")).unwrap();
    fs::create_dir_all(root.join("tests/plain")).unwrap();
    fs::write(root.join("tests/site-packages-compat/conftest.py"), CONFTEST).unwrap();
    fs::write(root.join("tests/plain/conftest.py"), CONFTEST).unwrap();
    fs::write(
        root.join("tests/plain/test_site-packages_layout.py"),
        "import pytest\n\n@pytest.fixture\ndef also_never_used():\n    return 1\n\ndef test_x():\n    pass\n",
    )
    .unwrap();

    let out = Command::cargo_bin("pytest-language-server")
        .unwrap()
        .args(["fixtures", "unused", "--format", "json"])
        .arg(&root)
        .output()
        .unwrap();
    let stdout = String::from_utf8_lossy(&out.stdout).to_string();
    println!("fixtures unused --format json:\n{}", stdout);
    let json: serde_json::Value = serde_json::from_str(&stdout).unwrap();
    let entries: Vec<(String, String)> = json
        .as_array()
        .unwrap()
        .iter()
        .map(|e| {
            (
                e["file"].as_str().unwrap().to_string(),
                e["fixture"].as_str().unwrap().to_string(),
            )
        })
        .collect();

    let list = Command::cargo_bin("pytest-language-server")
        .unwrap()
        .args(["fixtures", "list", "--only-unused"])
        .arg(&root)
        .output()
        .unwrap();
    println!("fixtures list --only-unused:\n{}", String::from_utf8_lossy(&list.stdout));

    // All three are project fixtures, none is autouse, nothing uses them
    let expected = [
        ("tests/plain/conftest.py", "never_used"),
        ("tests/plain/test_site-packages_layout.py", "also_never_used"),
        ("tests/site-packages-compat/conftest.py", "never_used"),
    ];
    for (file, name) in expected {
        assert!(
            entries.iter().any(|(f, n)| f == file && n == name),
            "`fixtures unused` does not list project fixture {} in {} (got {:?})",
            name,
            file,
            entries
        );
    }
}
