//! C20 hunt 1: a test module with CR-only ("old Mac") line endings.
//! Python (and the rustpython lexer) treat a lone '\r' as a newline, but the line index of
//! the analyzer only splits at '\n': every definition and usage of the file lands on line 1.
//! The "enclosing fixture" of a usage is then a tie between all fixtures of the file, broken
//! by DashMap iteration order (random per process): the CLI output changes from run to run.

use assert_cmd::Command;
use pytest_language_server::FixtureDatabase;
use std::collections::BTreeSet;
use std::fs;

const SRC: &str = "import pytest\r\r@pytest.fixture\rdef alpha():\r    return 1\r\r@pytest.fixture\rdef beta(alpha):\r    return alpha\r\rdef test_one(beta):\r    pass\r";

#[test]
fn cr_only_file_cli_output_is_reproducible_and_correct() {
    let tmp = tempfile::tempdir().unwrap();
    let root = tmp.path().canonicalize().unwrap();
    fs::write(root.join("test_cr.py"), SRC).unwrap();

    let mut outputs: BTreeSet<String> = BTreeSet::new();
    let mut codes: BTreeSet<i32> = BTreeSet::new();
    for _ in 0..30 {
        let out = Command::cargo_bin("pytest-language-server")
            .unwrap()
            .args(["fixtures", "unused", "--format", "json"])
            .arg(&root)
            .output()
            .unwrap();
        outputs.insert(String::from_utf8_lossy(&out.stdout).replace(['\n', ' '], ""));
        codes.insert(out.status.code().unwrap());
    }
    println!("distinct `fixtures unused --format json` outputs over 30 runs: {:#?}", outputs);
    println!("distinct exit codes: {:?}", codes);

    let mut lists: BTreeSet<String> = BTreeSet::new();
    for _ in 0..30 {
        let out = Command::cargo_bin("pytest-language-server")
            .unwrap()
            .args(["fixtures", "list"])
            .arg(&root)
            .output()
            .unwrap();
        lists.insert(String::from_utf8_lossy(&out.stdout).to_string());
    }
    println!("distinct `fixtures list` outputs over 30 runs: {}", lists.len());
    for l in &lists {
        println!("----\n{}", l);
    }

    assert_eq!(outputs.len(), 1, "`fixtures unused` output differs between runs on the same tree");
    assert_eq!(lists.len(), 1, "`fixtures list` output differs between runs on the same tree");
    // alpha is requested by beta, beta by test_one: nothing is unused
    assert_eq!(outputs.iter().next().unwrap(), "[]");
}

#[test]
fn cr_only_file_library_results_are_reproducible() {
    let tmp = tempfile::tempdir().unwrap();
    let root = tmp.path().canonicalize().unwrap();
    fs::write(root.join("test_cr.py"), SRC).unwrap();

    let mut results: BTreeSet<Vec<String>> = BTreeSet::new();
    for _ in 0..40 {
        let db = FixtureDatabase::new();
        db.scan_workspace(&root);
        results.insert(db.get_unused_fixtures().into_iter().map(|(_, n)| n).collect());
    }
    println!("distinct get_unused_fixtures() results over 40 fresh databases: {:?}", results);
    assert_eq!(results.len(), 1);
}
