//! C20 hunt 4: the CLI is run on the tests directory of a project (`fixtures list proj/tests`)
//! whose conftest star-imports a fixture module one level up (`from ..shared_fixtures import *`).
//! The module lies outside the root: `print_fixtures_tree` only attaches paths whose ancestors
//! reach the root, so `fixtures list` prints NOTHING for it (no name, no usage count), while
//! the server reports 1 reference for `shared_used` and `fixtures unused` lists `shared_unused`
//! (with an absolute path).

use assert_cmd::Command;
use pytest_language_server::FixtureDatabase;
use std::fs;

#[test]
fn list_shows_fixtures_reached_through_a_relative_import_above_the_root() {
    let tmp = tempfile::tempdir().unwrap();
    let top = tmp.path().canonicalize().unwrap();
    let proj = top.join("proj");
    let root = proj.join("tests");
    fs::create_dir_all(&root).unwrap();
    fs::write(proj.join("__init__.py"), "").unwrap();
    fs::write(root.join("__init__.py"), "").unwrap();
    fs::write(
        proj.join("shared_fixtures.py"),
        "import pytest\n\n@pytest.fixture\ndef shared_used():\n    return 1\n\n@pytest.fixture\ndef shared_unused():\n    return 1\n",
    )
    .unwrap();
    fs::write(root.join("conftest.py"), "from ..shared_fixtures import *\n").unwrap();
    fs::write(root.join("test_a.py"), "def test_a(shared_used):\n    pass\n").unwrap();

    // What the server reports
    let db = FixtureDatabase::new();
    db.scan_workspace(&root);
    let def = db.definitions.get("shared_used").unwrap().value()[0].clone();
    let refs = db.find_references_for_definition(&def);
    println!("server: {} reference(s) to shared_used ({:?})", refs.len(), def.file_path);
    assert_eq!(refs.len(), 1);

    let unused = Command::cargo_bin("pytest-language-server")
        .unwrap()
        .args(["fixtures", "unused", "--format", "json"])
        .arg(&root)
        .output()
        .unwrap();
    println!("fixtures unused --format json (exit {:?}):\n{}", unused.status.code(), String::from_utf8_lossy(&unused.stdout));

    let list = Command::cargo_bin("pytest-language-server")
        .unwrap()
        .args(["fixtures", "list"])
        .arg(&root)
        .output()
        .unwrap();
    let list_out = String::from_utf8_lossy(&list.stdout).to_string();
    println!("fixtures list:\n{}<end>", list_out);

    let only_unused = Command::cargo_bin("pytest-language-server")
        .unwrap()
        .args(["fixtures", "list", "--only-unused"])
        .arg(&root)
        .output()
        .unwrap();
    let only_unused_out = String::from_utf8_lossy(&only_unused.stdout).to_string();

    assert!(
        list_out.contains("shared_used") && list_out.contains("used 1 time"),
        "`fixtures list` does not print the fixture (and its usage count) that the server has 1 reference for"
    );
    assert!(
        only_unused_out.contains("shared_unused"),
        "`fixtures unused` reports shared_unused but `fixtures list --only-unused` does not show it"
    );
}
