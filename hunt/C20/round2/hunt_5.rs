//! C20 hunt 5: test packages that are NAMED like an ignored directory, deeper in the tree:
//! tests/build/, tests/env/ (also dist, target, vendor, venv ...). The directory filter applies
//! at every depth, so the usages in those test modules are never seen and the fixtures they
//! use are reported unused (exit 1). As soon as the editor opens one of these (unmodified)
//! files the server reports the reference - the CLI and the server disagree on the same tree.

use assert_cmd::Command;
use pytest_language_server::FixtureDatabase;
use std::fs;

#[test]
fn usages_in_test_packages_named_build_or_env_count() {
    let tmp = tempfile::tempdir().unwrap();
    let root = tmp.path().canonicalize().unwrap();
    fs::create_dir_all(root.join("tests/build")).unwrap();
    fs::create_dir_all(root.join("tests/env")).unwrap();
    fs::write(
        root.join("tests/conftest.py"),
        "import pytest\n\n@pytest.fixture\ndef builder():\n    return 1\n\n@pytest.fixture\ndef environ():\n    return 1\n",
    )
    .unwrap();
    let test_build = "def test_b(builder):\n    pass\n";
    fs::write(root.join("tests/build/test_build.py"), test_build).unwrap();
    fs::write(root.join("tests/env/test_env.py"), "def test_e(environ):\n    pass\n").unwrap();

    let out = Command::cargo_bin("pytest-language-server")
        .unwrap()
        .args(["fixtures", "unused"])
        .arg(&root)
        .output()
        .unwrap();
    println!("fixtures unused (exit {:?}):\n{}", out.status.code(), String::from_utf8_lossy(&out.stdout));

    // The server, after didOpen of the unmodified tests/build/test_build.py
    let db = FixtureDatabase::new();
    db.scan_workspace(&root);
    db.analyze_file(root.join("tests/build/test_build.py"), test_build);
    let def = db.definitions.get("builder").unwrap().value()[0].clone();
    println!("server: {} reference(s) to builder", db.find_references_for_definition(&def).len());

    assert_eq!(out.status.code(), Some(0), "fixtures used by tests/build/ and tests/env/ are reported unused");
}
