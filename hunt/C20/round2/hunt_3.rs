//! C20 hunt 3: a third-party plugin installed editable into `<venv>/src/<name>` (pip's
//! default checkout location for `pip install -e git+...#egg=name`) with the venv inside the
//! workspace. `is_editable_install_third_party` calls every editable source root below the
//! workspace root "in-workspace" (= project), although the scanner itself skips `.venv`.
//! `fixtures unused` then reports the plugin's fixtures as unused PROJECT fixtures, exit 1.

use assert_cmd::Command;
use pytest_language_server::FixtureDatabase;
use std::fs;

#[test]
fn plugin_checked_out_in_venv_src_is_third_party() {
    let tmp = tempfile::tempdir().unwrap();
    let root = tmp.path().canonicalize().unwrap();
    let sp = root.join(".venv/lib/python3.12/site-packages");
    let src = root.join(".venv/src/foo");
    fs::create_dir_all(sp.join("foo-1.0.dist-info")).unwrap();
    fs::create_dir_all(src.join("foo")).unwrap();
    fs::create_dir_all(root.join("tests")).unwrap();
    fs::write(
        sp.join("foo-1.0.dist-info/direct_url.json"),
        format!(
            "{{\"url\":\"file://{}\",\"dir_info\":{{\"editable\":true}}}}",
            src.display()
        ),
    )
    .unwrap();
    fs::write(sp.join("foo-1.0.dist-info/entry_points.txt"), "[pytest11]\nfoo = foo.plugin\n").unwrap();
    fs::write(sp.join("__editable__.foo-1.0.pth"), format!("{}\n", src.display())).unwrap();
    fs::write(src.join("foo/__init__.py"), "").unwrap();
    fs::write(
        src.join("foo/plugin.py"),
        "import pytest\n\n@pytest.fixture\ndef foo_client():\n    return 1\n\n@pytest.fixture\ndef foo_server():\n    return 1\n",
    )
    .unwrap();
    fs::write(root.join("tests/test_a.py"), "def test_a(foo_client):\n    pass\n").unwrap();

    let out = Command::cargo_bin("pytest-language-server")
        .unwrap()
        .env_remove("VIRTUAL_ENV")
        .args(["fixtures", "unused"])
        .arg(&root)
        .output()
        .unwrap();
    println!("fixtures unused (exit {:?}):\n{}", out.status.code(), String::from_utf8_lossy(&out.stdout));

    let db = FixtureDatabase::new();
    db.scan_workspace(&root);
    for entry in db.definitions.iter() {
        for def in entry.value() {
            println!("{} in {:?}: is_third_party={} is_plugin={}", def.name, def.file_path, def.is_third_party, def.is_plugin);
        }
    }

    // The project itself has no fixture at all: nothing to report, exit status 0
    assert_eq!(
        out.status.code(),
        Some(0),
        "a fixture of a third-party plugin under .venv/src is reported as an unused project fixture"
    );
}
