//! C20 hunt 3: the import scan (scanner.rs, scan_imported_fixture_modules) builds its work
//! list by iterating a DashMap (`file_cache`), whose order is random per process, and the
//! "importer is a plugin" status is read when a file is *processed*.  With a
//! workspace-local pytest11 plugin `plugin.py -> conftest.py -> fixtures.py` (star
//! imports), `fixtures.py` is marked as a plugin module only if `plugin.py` happens to be
//! processed before `conftest.py`.  `fixtures unused` therefore flips between "cfix unused,
//! exit 1" and "nothing unused, exit 0" on the same tree - even with one worker thread.
#![cfg(unix)]

use assert_cmd::Command;
use std::collections::BTreeMap;
use std::fs;
use tempfile::tempdir;

#[test]
fn plugin_status_depends_on_dashmap_iteration_order() {
    let dir = tempdir().unwrap();
    let root = dir.path().canonicalize().unwrap();
    let sp = root.join(".venv/lib/python3.12/site-packages");
    let di = sp.join("myplug-1.0.dist-info");
    fs::create_dir_all(&di).unwrap();
    fs::create_dir_all(root.join("src/myplug")).unwrap();
    fs::create_dir_all(root.join("tests")).unwrap();

    // an editable install of the project's own plugin package (pip install -e .)
    fs::write(di.join("entry_points.txt"), "[pytest11]\nmyplug = myplug.plugin\n").unwrap();
    fs::write(
        di.join("direct_url.json"),
        format!(
            r#"{{"url": "file://{}/src", "dir_info": {{"editable": true}}}}"#,
            root.display()
        ),
    )
    .unwrap();
    fs::write(
        sp.join("__editable__.myplug-1.0.pth"),
        format!("{}/src\n", root.display()),
    )
    .unwrap();

    fs::write(root.join("src/myplug/__init__.py"), "").unwrap();
    fs::write(root.join("src/myplug/plugin.py"), "from .conftest import *  # noqa\n").unwrap();
    fs::write(root.join("src/myplug/conftest.py"), "from .fixtures import *  # noqa\n").unwrap();
    fs::write(
        root.join("src/myplug/fixtures.py"),
        "import pytest\n\n\n@pytest.fixture\ndef cfix():\n    return 1\n",
    )
    .unwrap();
    fs::write(
        root.join("tests/test_x.py"),
        "def test_x(cfix):\n    assert cfix == 1\n",
    )
    .unwrap();

    let mut seen: BTreeMap<String, usize> = BTreeMap::new();
    for _ in 0..40 {
        let out = Command::cargo_bin("pytest-language-server")
            .unwrap()
            .args(["fixtures", "unused"])
            .arg(&root)
            .args(["--format", "json"])
            .env("RAYON_NUM_THREADS", "1")
            .output()
            .unwrap();
        let key = format!(
            "exit={:?} stdout={}",
            out.status.code(),
            String::from_utf8_lossy(&out.stdout).replace(['\n', ' '], "")
        );
        *seen.entry(key).or_default() += 1;
    }
    println!("distinct outcomes of 40 runs (RAYON_NUM_THREADS=1): {:#?}", seen);
    assert_eq!(seen.len(), 1, "repeated runs on the same tree must be byte-identical");
}
