#!/bin/bash
# hunt_2: the workspace scan never terminates when a non-regular file carries a test-file name.
# scan_workspace_with_excludes() (src/fixtures/scanner.rs:116-220) lets every non-directory
# entry through (`entry.file_type().is_file()` is only used to *allow* entries, the name is
# the only selection criterion) and then calls std::fs::read_to_string() on it.
#   - a FIFO named conftest.py / test_*.py: open(2) blocks for ever (no writer)
#   (a symlink test_zero.py -> /dev/zero is read until memory is exhausted, same root cause)
# usage: hunt_2.sh <server-binary>
BIN=$(realpath "$1")
W=$(mktemp -d /tmp/hunt2_XXXX)
mkdir -p "$W/tests"
cat > "$W/tests/conftest.py" <<'PY'
import pytest

@pytest.fixture
def fx():
    return 1
PY
printf 'def test_a(fx):\n    pass\n' > "$W/tests/test_a.py"

echo "--- control: regular files only"
timeout 20 "$BIN" fixtures list "$W" | tail -3; echo "exit=${PIPESTATUS[0]}"

echo "--- a FIFO named test_pipe.py in the workspace"
mkfifo "$W/tests/test_pipe.py"
timeout 20 "$BIN" fixtures list "$W" | tail -3; rc=${PIPESTATUS[0]}; echo "exit=$rc"
rm "$W/tests/test_pipe.py"

rm -rf "$W"
if [ "$rc" = 124 ]; then echo "FAIL: scan did not terminate (killed by timeout after 20 s)"; exit 1; fi
echo OK
