#!/bin/bash
# hunt_3: unbounded recursion -> stack overflow -> the process aborts (the operation never completes,
# and in server mode every open document loses its server).
#  (a) analysis recurses over the expression tree (undeclared.rs visit_expr_for_names, the AST's Drop):
#      one long `a + a + ... + a` (left-deep BinOp chain) in a test body
#  (b) queries recurse once per module along an import chain (imports.rs get_imported_fixtures <->
#      compute_imported_fixtures, collect_imported_modules): conftest -> m0 -> m1 -> ... -> mN, acyclic
# usage: hunt_3.sh <server-binary>
BIN=$(realpath "$1"); W=$(mktemp -d /tmp/hunt3_XXXX); fail=0
mkdir "$W/expr" "$W/chain"
python3 - "$W" <<'PY'
import sys
w = sys.argv[1]
n = 30000
open(w + "/expr/test_big.py", "w").write(
    "import pytest\n\n@pytest.fixture\ndef fx():\n    return 1\n\ndef test_sum(fx):\n    total = "
    + " + ".join(["fx"] * n) + "\n    assert total\n")
n = 20000
open(w + "/chain/conftest.py", "w").write("from m0 import *\n")
for i in range(n):
    open(w + "/chain/m%d.py" % i, "w").write("from m%d import *\n" % (i + 1))
open(w + "/chain/m%d.py" % n, "w").write("import pytest\n\n@pytest.fixture\ndef deep_fx():\n    return 1\n")
open(w + "/chain/test_x.py", "w").write("def test_x(deep_fx):\n    pass\n")
PY
for case in expr chain; do
  echo "--- $case"
  timeout 300 "$BIN" fixtures list "$W/$case" > /dev/null 2> "$W/$case.err"; rc=$?
  echo "exit=$rc  $(tail -n 2 "$W/$case.err" | tr '\n' ' ')"
  [ $rc -ne 0 ] && fail=1
done
rm -rf "$W"
[ $fail = 1 ] && { echo "FAIL: process aborted instead of completing"; exit 1; }
echo OK
