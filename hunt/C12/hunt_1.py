#!/usr/bin/env python3
"""hunt_1: the server wedges itself for good when didChange notifications are pipelined.

`did_change` (src/main.rs:193) awaits the answer to a server->client request
(`workspace/inlayHint/refresh`) from inside the notification handler. tower-lsp-server runs
at most 4 handlers at a time and feeds them from a bounded queue (100) that is filled by the
very loop that also reads the client's *responses* from stdin. Once 4 did_change handlers
wait for their refresh answer and ~101 more messages are queued, the read loop blocks on the
full queue, never reaches the answers that sit behind them in stdin, and nothing ever
completes again: a self-deadlock produced only by an interleaving of notifications and
requests.

The client below is protocol-compliant: it reads everything the server writes and answers
EVERY server request - just not before it has finished writing its burst of notifications
(a single-threaded editor replaying a macro / applying a multi-edit behaves like that).

usage: hunt_1.py <server-binary> [N_CHANGES] [never-answer]
  N_CHANGES=20  (control)  -> the hover sent afterwards is answered
  N_CHANGES=130 (default)  -> the hover is never answered: FAIL
  N_CHANGES=4 never-answer -> client without inlay-hint refresh support that ignores the
                              unsolicited request: the hover is never answered: FAIL
"""
import json, os, subprocess, sys, tempfile, threading, time, queue

binary = sys.argv[1]
n_changes = int(sys.argv[2]) if len(sys.argv) > 2 else 130
# variant: a client that did not announce workspace.inlayHint.refreshSupport and simply
# ignores the unsolicited refresh request; 4 didChange are enough then
never_answer = len(sys.argv) > 3 and sys.argv[3] == "never-answer"

ws = tempfile.mkdtemp(prefix="hunt1_")
test_file = os.path.join(ws, "test_a.py")
SRC = "import pytest\n\n@pytest.fixture\ndef fx():\n    return 1\n\ndef test_a(fx):\n    pass\n"
open(test_file, "w").write(SRC)
uri = "file://" + test_file

p = subprocess.Popen([binary], stdin=subprocess.PIPE, stdout=subprocess.PIPE,
                     stderr=subprocess.DEVNULL)
wlock = threading.Lock()


def send(obj):
    body = json.dumps(obj).encode()
    with wlock:
        p.stdin.write(b"Content-Length: %d\r\n\r\n" % len(body) + body)
        p.stdin.flush()


responses = {}           # id -> response
server_requests = queue.Queue()
cv = threading.Condition()


def reader():
    f = p.stdout
    while True:
        length = None
        while True:
            line = f.readline()
            if not line:
                return
            line = line.strip()
            if not line:
                break
            if line.lower().startswith(b"content-length:"):
                length = int(line.split(b":")[1])
        msg = json.loads(f.read(length))
        if "method" in msg and "id" in msg:      # server -> client request
            server_requests.put(msg)
        elif "id" in msg:                        # response to one of ours
            with cv:
                responses[msg["id"]] = msg
                cv.notify_all()


threading.Thread(target=reader, daemon=True).start()


def wait_response(rid, timeout):
    end = time.time() + timeout
    with cv:
        while rid not in responses:
            left = end - time.time()
            if left <= 0:
                return None
            cv.wait(left)
        return responses[rid]


answered = 0


def answer_pending_server_requests():
    """Answer every server->client request received so far (null result = success)."""
    global answered
    if never_answer:
        return
    while True:
        try:
            req = server_requests.get_nowait()
        except queue.Empty:
            return
        send({"jsonrpc": "2.0", "id": req["id"], "result": None})
        answered += 1


send({"jsonrpc": "2.0", "id": 1, "method": "initialize",
      "params": {"processId": None, "rootUri": "file://" + ws, "capabilities": {}}})
assert wait_response(1, 20) is not None, "no initialize response"
send({"jsonrpc": "2.0", "method": "initialized", "params": {}})
send({"jsonrpc": "2.0", "method": "textDocument/didOpen",
      "params": {"textDocument": {"uri": uri, "languageId": "python", "version": 1, "text": SRC}}})
time.sleep(1.0)  # let the (tiny) workspace scan finish
answer_pending_server_requests()

# sanity: the server answers a hover now
send({"jsonrpc": "2.0", "id": 2, "method": "textDocument/hover",
      "params": {"textDocument": {"uri": uri}, "position": {"line": 6, "character": 12}}})
assert wait_response(2, 10) is not None, "server did not even answer the first hover"
print("hover before the burst: answered")

# the burst: N didChange notifications written back to back; the answers to the refresh
# requests they trigger are written only afterwards
for i in range(n_changes):
    send({"jsonrpc": "2.0", "method": "textDocument/didChange",
          "params": {"textDocument": {"uri": uri, "version": 2 + i},
                     "contentChanges": [{"text": SRC + "# edit %d\n" % i}]}})
print("sent %d didChange notifications" % n_changes)

# now behave: answer every server request, repeatedly, for the rest of the session
stop = False


def answer_loop():
    while not stop:
        answer_pending_server_requests()
        time.sleep(0.05)


threading.Thread(target=answer_loop, daemon=True).start()

send({"jsonrpc": "2.0", "id": 3, "method": "textDocument/hover",
      "params": {"textDocument": {"uri": uri}, "position": {"line": 6, "character": 12}}})
r = wait_response(3, 15)
stop = True
print("server->client requests answered by this client: %d" % answered)
if r is None:
    print("FAIL: hover sent after the burst got no response within 15 s "
          "(server is wedged; process still alive: %s)" % (p.poll() is None))
    p.kill()
    sys.exit(1)
print("OK: hover after the burst answered")
p.kill()
