#!/usr/bin/env python3
"""hunt_2 (LSP variant): a FIFO named conftest.py above an open test file wedges the server.
Resolution walks every ancestor directory, sees `conftest.py` "exists" and reads it with
std::fs::read_to_string (FixtureDatabase::get_file_content, src/fixtures/mod.rs:188) on the
thread that drives all handlers -> open(2) blocks for ever, no request is answered again.
usage: hunt_2_lsp.py <server-binary> [fifo|regular]"""
import json, os, subprocess, sys, tempfile, threading, time
binary = sys.argv[1]; mode = sys.argv[2] if len(sys.argv) > 2 else "fifo"
ws = tempfile.mkdtemp(prefix="hunt2lsp_")
os.makedirs(ws + "/tests/unit")
open(ws + "/conftest.py", "w").write("import pytest\n\n@pytest.fixture\ndef fx():\n    return 1\n")
if mode == "fifo":
    os.mkfifo(ws + "/tests/conftest.py")
else:
    open(ws + "/tests/conftest.py", "w").write("")
SRC = "def test_a(fx):\n    pass\n"
tf = ws + "/tests/unit/test_a.py"; open(tf, "w").write(SRC); uri = "file://" + tf
p = subprocess.Popen([binary], stdin=subprocess.PIPE, stdout=subprocess.PIPE, stderr=subprocess.DEVNULL)
def send(o):
    b = json.dumps(o).encode(); p.stdin.write(b"Content-Length: %d\r\n\r\n" % len(b) + b); p.stdin.flush()
resp = {}; cv = threading.Condition()
def reader():
    f = p.stdout
    while True:
        n = None
        while True:
            l = f.readline()
            if not l: return
            l = l.strip()
            if not l: break
            if l.lower().startswith(b"content-length:"): n = int(l.split(b":")[1])
        m = json.loads(f.read(n))
        if "method" in m and "id" in m:
            send({"jsonrpc": "2.0", "id": m["id"], "result": None})
        elif "id" in m:
            with cv: resp[m["id"]] = m; cv.notify_all()
threading.Thread(target=reader, daemon=True).start()
def wait(i, t):
    end = time.time() + t
    with cv:
        while i not in resp:
            if end - time.time() <= 0: return None
            cv.wait(end - time.time())
        return resp[i]
send({"jsonrpc": "2.0", "id": 1, "method": "initialize", "params": {"processId": None, "rootUri": "file://" + ws, "capabilities": {}}})
assert wait(1, 20)
send({"jsonrpc": "2.0", "method": "initialized", "params": {}})
send({"jsonrpc": "2.0", "method": "textDocument/didOpen", "params": {"textDocument": {"uri": uri, "languageId": "python", "version": 1, "text": SRC}}})
send({"jsonrpc": "2.0", "id": 2, "method": "textDocument/definition", "params": {"textDocument": {"uri": uri}, "position": {"line": 0, "character": 12}}})
r = wait(2, 15)
if r is None:
    print("FAIL: textDocument/definition not answered within 15 s (server alive: %s)" % (p.poll() is None)); p.kill(); sys.exit(1)
print("OK: definition ->", json.dumps(r.get("result"))[:120]); p.kill()
