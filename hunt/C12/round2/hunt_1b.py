"""hunt_1b: ordinary editor traffic (one didChange per ~7 requests, 10 ms apart, every server request
answered at once by a reader thread) against a workspace with cyclic imports, while the scan runs.
Expected: every request is answered. Actual: the server stops reading stdin for good."""
import subprocess, json, sys, time, os, tempfile, threading, queue, random
BIN = sys.argv[1]
ws = tempfile.mkdtemp(prefix="h2c12m_")
n = 150
def w(rel, s):
    p = os.path.join(ws, rel); os.makedirs(os.path.dirname(p), exist_ok=True); open(p, "w").write(s); return p
w("__init__.py", "from . import *\nfrom .conftest import *\n")
conf = "import pytest\nfrom .a import *\nfrom .b import fb0, fb1\nfrom .conftest import *\npytest_plugins = ['b', 'a', 'conftest']\n" + "".join(
    "@pytest.fixture(scope='session')\ndef f%d(f%d, f%d, fa%d):\n    return fb%d\n\n" % (i, (i+1) % n, i, i, i) for i in range(n))
files = {}
files["conftest.py"] = conf
files["a.py"] = "import pytest\nfrom .b import *\nfrom .a import *\nfrom . import *\n" + "".join("@pytest.fixture\ndef fa%d(fb%d, f%d):\n    return 1\n\n" % (i, i, i) for i in range(n))
files["b.py"] = "import pytest\nfrom .a import *\nfrom .conftest import *\npytest_plugins = 'conftest'\n" + "".join("@pytest.fixture\ndef fb%d(fa%d, fb%d):\n    return 1\n\n" % (i, i, i) for i in range(n))
files["sub/conftest.py"] = "from ..a import *\nfrom ..conftest import *\nimport pytest\n@pytest.fixture\ndef f0(f0):\n    return f0\n"
files["sub/deeper/test_x.py"] = "import pytest\nfrom ...b import *\n" + "".join("def test_%d(f%d, fa%d, fb%d):\n    fa%d\n    fb%d\n\n" % (i, i, i, i, (i+3) % n, (i+3) % n) for i in range(n))
for i in range(200):
    files["many/t%d/test_m%d.py" % (i, i)] = files["sub/deeper/test_x.py"].replace("from ...b import *", "")
paths = {k: w(k, v) for k, v in files.items()}
p = subprocess.Popen([BIN], stdin=subprocess.PIPE, stdout=subprocess.PIPE, stderr=subprocess.DEVNULL)
wlock = threading.Lock()
def send(msg):
    b = json.dumps(msg).encode()
    with wlock:
        p.stdin.write(b"Content-Length: %d\r\n\r\n" % len(b) + b); p.stdin.flush()
def read():
    h = b""
    while not h.endswith(b"\r\n\r\n"):
        c = p.stdout.read(1)
        if not c: return None
        h += c
    ln = int([l for l in h.split(b"\r\n") if l.lower().startswith(b"content-length")][0].split(b":")[1])
    return json.loads(p.stdout.read(ln))
got = {}
ev = threading.Event()
def reader():
    while True:
        m = read()
        if m is None: ev.set(); return
        if "method" in m and "id" in m:
            send({"jsonrpc": "2.0", "id": m["id"], "result": None})
        elif "id" in m:
            got[m["id"]] = time.time()
send({"jsonrpc":"2.0","id":0,"method":"initialize","params":{"processId":None,"rootUri":"file://"+ws,"capabilities":{}}})
m = read()
while m.get("id") != 0: m = read()
send({"jsonrpc":"2.0","method":"initialized","params":{}})
threading.Thread(target=reader, daemon=True).start()

keys = ["conftest.py", "a.py", "b.py", "sub/conftest.py", "sub/deeper/test_x.py"]
for k in keys:
    send({"jsonrpc":"2.0","method":"textDocument/didOpen","params":{"textDocument":{"uri":"file://"+paths[k],"languageId":"python","version":1,"text":files[k]}}})
sent = {}
done_sending = threading.Event()
def traffic():
    rid = 1
    random.seed(1)
    methods = ["textDocument/hover","textDocument/definition","textDocument/references","textDocument/codeLens","textDocument/inlayHint","textDocument/completion","textDocument/documentSymbol","textDocument/prepareCallHierarchy","workspace/symbol","textDocument/implementation"]
    for it in range(400):
        k = random.choice(keys); uri = "file://"+paths[k]
        if it % 7 == 0:
            txt = files[k] + ("\ndef broken(:\n" if it % 14 == 0 else "# %d\n" % it)
            send({"jsonrpc":"2.0","method":"textDocument/didChange","params":{"textDocument":{"uri":uri,"version":2+it},"contentChanges":[{"text":txt}]}})
        meth = random.choice(methods)
        pos = {"line": random.randint(0, 60), "character": random.randint(0, 20)}
        if meth == "workspace/symbol": params = {"query": "f1"}
        elif meth in ("textDocument/codeLens","textDocument/documentSymbol"): params = {"textDocument":{"uri":uri}}
        elif meth == "textDocument/inlayHint": params = {"textDocument":{"uri":uri},"range":{"start":{"line":0,"character":0},"end":{"line":200,"character":0}}}
        elif meth == "textDocument/references": params = {"textDocument":{"uri":uri},"position":pos,"context":{"includeDeclaration":True}}
        else: params = {"textDocument":{"uri":uri},"position":pos}
        sent[rid] = (meth, time.time())
        send({"jsonrpc":"2.0","id":rid,"method":meth,"params":params}); rid += 1
        time.sleep(0.01)
    done_sending.set()
threading.Thread(target=traffic, daemon=True).start()
def cpu():
    f = open("/proc/%d/stat" % p.pid).read().rsplit(")", 1)[1].split()
    return int(f[11]) + int(f[12])
last = (-1, -1); still = 0; T0 = time.time()
while True:
    time.sleep(5)
    cur = (len(got), cpu())
    print("t=%3.0fs requests sent=%d answered=%d server cpu ticks=%d" % (time.time()-T0, len(sent), cur[0], cur[1]), flush=True)
    if done_sending.is_set() and len(got) >= len(sent):
        print("OK: all %d requests answered" % len(sent)); p.kill(); sys.exit(0)
    still = still + 5 if cur == last else 0
    last = cur
    if still >= 40:
        print("WEDGED: %d of %d requests unanswered, no answer and no server CPU use for 40 s; the client's sender is blocked writing to the server's stdin: %s" % (len(sent)-len(got), len(sent), not done_sending.is_set()))
        p.kill(); sys.exit(1)
