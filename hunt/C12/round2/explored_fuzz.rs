// Exploratory: feed real-world Python (and truncations of it) to analyze_file; report panics.
use pytest_language_server::FixtureDatabase;
use std::panic::{catch_unwind, AssertUnwindSafe};
use std::path::PathBuf;

fn collect(dir: &std::path::Path, out: &mut Vec<PathBuf>) {
    if let Ok(rd) = std::fs::read_dir(dir) {
        for e in rd.flatten() {
            let p = e.path();
            if p.is_dir() {
                collect(&p, out);
            } else if p.extension().and_then(|s| s.to_str()) == Some("py") {
                out.push(p);
            }
        }
    }
}

#[test]
fn fuzz() {
    let root = std::env::var("FUZZ_ROOT").unwrap();
    let mut files = vec![];
    collect(std::path::Path::new(&root), &mut files);
    files.sort();
    let step: usize = std::env::var("FUZZ_STEP").ok().and_then(|s| s.parse().ok()).unwrap_or(1);
    std::panic::set_hook(Box::new(|_| {}));
    let mut panics = 0;
    let handle = std::thread::Builder::new().stack_size(64 << 20).spawn(move || {
        for (i, f) in files.iter().enumerate() {
            if i % step != 0 { continue; }
            let Ok(text) = std::fs::read_to_string(f) else { continue };
            let mut variants: Vec<String> = vec![text.clone()];
            // truncations at char boundaries
            let n = text.len();
            for k in 1..8 {
                let mut cut = n * k / 8;
                while cut < n && !text.is_char_boundary(cut) { cut += 1; }
                variants.push(text[..cut].to_string());
            }
            variants.push(text.replace('\n', "\r\n"));
            variants.push(text.replace('\n', "\r"));
            variants.push(format!("\u{feff}{}", text));
            for (vi, v) in variants.iter().enumerate() {
                let db = FixtureDatabase::new();
                let path = PathBuf::from(format!("/nonexistent_fuzz/test_{}.py", i));
                let r = catch_unwind(AssertUnwindSafe(|| {
                    db.analyze_file(path.clone(), v);
                    for line in [0u32, 3, 10, 50] {
                        let _ = db.get_completion_context(&path, line, 5);
                        let _ = db.find_fixture_definition(&path, line, 5);
                    }
                    let _ = db.get_available_fixtures(&path);
                    let _ = db.detect_fixture_cycles();
                }));
                if let Err(e) = r {
                    let msg = e.downcast_ref::<String>().cloned().or_else(|| e.downcast_ref::<&str>().map(|s| s.to_string())).unwrap_or_default();
                    eprintln!("PANIC file={:?} variant={} msg={}", f, vi, msg);
                    panics += 1;
                }
            }
        }
        panics
    }).unwrap();
    let panics = handle.join().unwrap();
    eprintln!("total panics: {}", panics);
}
