"""A compliant client: answers every server->client request immediately, but pipelines a
burst of didChange notifications (as notifications need no acknowledgement)."""
import subprocess, json, sys, time, os, tempfile, threading, queue
BIN = sys.argv[1]
BURST = int(sys.argv[2])
ws = tempfile.mkdtemp(prefix="h2c12_")
conf = os.path.join(ws, "conftest.py")
text = "import pytest\n\n@pytest.fixture\ndef a():\n    return 1\n\n@pytest.fixture\ndef b(a):\n    return a\n"
open(conf, "w").write(text)
p = subprocess.Popen([BIN], stdin=subprocess.PIPE, stdout=subprocess.PIPE, stderr=subprocess.DEVNULL)
wlock = threading.Lock()
def send(msg):
    b = json.dumps(msg).encode()
    with wlock:
        p.stdin.write(b"Content-Length: %d\r\n\r\n" % len(b) + b); p.stdin.flush()
def read():
    h = b""
    while not h.endswith(b"\r\n\r\n"):
        c = p.stdout.read(1)
        if not c: return None
        h += c
    n = int([l for l in h.split(b"\r\n") if l.lower().startswith(b"content-length")][0].split(b":")[1])
    return json.loads(p.stdout.read(n))
responses = queue.Queue()
answered = [0]
def reader():
    while True:
        m = read()
        if m is None: return
        if "method" in m and "id" in m:          # server -> client request: answer at once
            send({"jsonrpc": "2.0", "id": m["id"], "result": None})
            answered[0] += 1
        elif "id" in m:
            responses.put(m)
uri = "file://" + conf
send({"jsonrpc":"2.0","id":1,"method":"initialize","params":{"processId":None,"rootUri":"file://"+ws,"capabilities":{}}})
m = read()
while m.get("id") != 1: m = read()
send({"jsonrpc":"2.0","method":"initialized","params":{}})
send({"jsonrpc":"2.0","method":"textDocument/didOpen","params":{"textDocument":{"uri":uri,"languageId":"python","version":1,"text":text}}})
time.sleep(1.0)
# the burst: written before the reader thread starts (e.g. a macro replay / programmatic edit)
for i in range(BURST):
    send({"jsonrpc":"2.0","method":"textDocument/didChange","params":{"textDocument":{"uri":uri,"version":2+i},"contentChanges":[{"text":text + "# %d\n" % i}]}})
threading.Thread(target=reader, daemon=True).start()
send({"jsonrpc":"2.0","id":99,"method":"textDocument/hover","params":{"textDocument":{"uri":uri},"position":{"line":7,"character":6}}})
t0 = time.time()
try:
    while True:
        m = responses.get(timeout=20)
        if m.get("id") == 99:
            print("burst=%d: hover answered after %.2fs (refresh requests answered: %d)" % (BURST, time.time()-t0, answered[0]))
            break
except queue.Empty:
    print("burst=%d: NO ANSWER to hover within 20s; refresh requests answered by client: %d; server wedged" % (BURST, answered[0]))
    p.kill(); sys.exit(1)
p.kill()
