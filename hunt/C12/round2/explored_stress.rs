// Exploratory stress: many threads, cyclic imports, many names. Watchdog on the main thread.
use pytest_language_server::FixtureDatabase;
use std::fs;
use std::path::PathBuf;
use std::sync::atomic::{AtomicBool, AtomicUsize, Ordering};
use std::sync::Arc;
use std::time::{Duration, Instant};

fn build_ws(root: &std::path::Path, n: usize) -> Vec<PathBuf> {
    let mut files = vec![];
    fs::write(root.join("__init__.py"), "from . import *\nfrom .conftest import *\n").unwrap();
    let mut conf = String::from(
        "import pytest\nfrom .a import *\nfrom .b import fb0, fb1\nfrom .conftest import *\npytest_plugins = ['b', 'a', 'conftest']\n",
    );
    for i in 0..n {
        conf.push_str(&format!(
            "@pytest.fixture(scope='session')\ndef f{i}(f{j}, f{i}, fa{i}):\n    return fb{i}\n\n",
            i = i,
            j = (i + 1) % n
        ));
    }
    fs::write(root.join("conftest.py"), &conf).unwrap();
    files.push(root.join("conftest.py"));
    let mut a = String::from("import pytest\nfrom .b import *\nfrom .a import *\nfrom . import *\n");
    for i in 0..n {
        a.push_str(&format!(
            "@pytest.fixture\ndef fa{i}(fb{i}, f{i}):\n    return 1\n\n",
            i = i
        ));
    }
    fs::write(root.join("a.py"), &a).unwrap();
    files.push(root.join("a.py"));
    let mut b = String::from("import pytest\nfrom .a import *\nfrom .conftest import *\npytest_plugins = 'conftest'\n");
    for i in 0..n {
        b.push_str(&format!(
            "@pytest.fixture\ndef fb{i}(fa{i}, fb{i}):\n    return 1\n\n",
            i = i
        ));
    }
    fs::write(root.join("b.py"), &b).unwrap();
    files.push(root.join("b.py"));
    let sub = root.join("sub").join("deeper");
    fs::create_dir_all(&sub).unwrap();
    fs::write(root.join("sub").join("conftest.py"), "from ..a import *\nfrom ..conftest import *\nimport pytest\n@pytest.fixture\ndef f0(f0):\n    return f0\n").unwrap();
    files.push(root.join("sub").join("conftest.py"));
    let mut t = String::from("import pytest\nfrom ...b import *\n");
    for i in 0..n {
        t.push_str(&format!(
            "def test_{i}(f{i}, fa{i}, fb{i}):\n    fa{j}\n    fb{j}\n\n",
            i = i,
            j = (i + 3) % n
        ));
    }
    fs::write(sub.join("test_x.py"), &t).unwrap();
    files.push(sub.join("test_x.py"));
    files
}

#[test]
fn stress() {
    let dir = tempfile::tempdir().unwrap();
    let root = dir.path().canonicalize().unwrap();
    let n = 120;
    let files = build_ws(&root, n);
    let db = Arc::new(FixtureDatabase::new());
    let stop = Arc::new(AtomicBool::new(false));
    let progress = Arc::new(AtomicUsize::new(0));
    let mut handles = vec![];

    // scanner
    for _ in 0..2 {
        let db = db.clone();
        let root = root.clone();
        let stop = stop.clone();
        let progress = progress.clone();
        handles.push(std::thread::spawn(move || {
            while !stop.load(Ordering::Relaxed) {
                db.scan_workspace(&root);
                progress.fetch_add(1, Ordering::Relaxed);
            }
        }));
    }
    // editors
    for k in 0..3 {
        let db = db.clone();
        let files = files.clone();
        let stop = stop.clone();
        let progress = progress.clone();
        handles.push(std::thread::spawn(move || {
            let mut it = 0usize;
            while !stop.load(Ordering::Relaxed) {
                let f = &files[(it + k) % files.len()];
                let text = fs::read_to_string(f).unwrap();
                db.document_opened(f);
                match it % 4 {
                    0 => db.analyze_file(f.clone(), &text),
                    1 => db.analyze_file(f.clone(), &format!("{}\ndef broken(:\n", text)),
                    2 => db.analyze_file(f.clone(), "import pytest\n"),
                    _ => db.analyze_file(f.clone(), &text),
                }
                if it % 5 == 0 {
                    db.document_closed(f);
                    db.cleanup_file_cache(f);
                }
                it += 1;
                progress.fetch_add(1, Ordering::Relaxed);
            }
        }));
    }
    // queries
    for k in 0..4 {
        let db = db.clone();
        let files = files.clone();
        let stop = stop.clone();
        let progress = progress.clone();
        handles.push(std::thread::spawn(move || {
            let mut it = 0usize;
            while !stop.load(Ordering::Relaxed) {
                let f = &files[(it + k) % files.len()];
                let _ = db.get_available_fixtures(f);
                let _ = db.detect_fixture_cycles();
                let _ = db.detect_scope_mismatches_in_file(f);
                for line in 0..40u32 {
                    if let Some(d) = db.find_fixture_or_definition_at_position(f, line, 6 + (it % 7) as u32) {
                        let _ = db.find_references_for_definition(&d);
                    }
                    let _ = db.get_completion_context(f, line, 4);
                }
                let _ = db.get_unused_fixtures();
                let _ = db.is_fixture_imported_in_file("fa1", f);
                it += 1;
                progress.fetch_add(1, Ordering::Relaxed);
            }
        }));
    }

    let start = Instant::now();
    let mut last = 0;
    let mut stalled_for = 0;
    while start.elapsed() < Duration::from_secs(45) {
        std::thread::sleep(Duration::from_secs(3));
        let p = progress.load(Ordering::Relaxed);
        eprintln!("progress {}", p);
        if p == last {
            stalled_for += 3;
        } else {
            stalled_for = 0;
        }
        last = p;
        if stalled_for >= 20 {
            panic!("no progress for 20s: deadlock or unbounded loop");
        }
    }
    stop.store(true, Ordering::Relaxed);
    let deadline = Instant::now() + Duration::from_secs(60);
    for h in handles {
        while !h.is_finished() {
            if Instant::now() > deadline {
                panic!("a thread did not finish within 60s after stop");
            }
            std::thread::sleep(Duration::from_millis(100));
        }
        h.join().unwrap();
    }
}
