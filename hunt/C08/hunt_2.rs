//! C08 hunt 2: a large workspace (more than MAX_FILE_CACHE_SIZE = 2000 test files).
//! During the scan `evict_cache_if_needed` throws away the first quarter of the content
//! cache *in DashMap iteration order* (randomly seeded, and the moment depends on the
//! rayon schedule). The import scan that follows (phase 4) only looks at the files that
//! are still in the content cache, so a `conftest.py` that was evicted never gets its
//! `from .shared_fixtures import *` followed: the fixtures of that module exist in one
//! scan of the workspace and are unknown in the next.
//!
//! ROOT CAUSE  src/fixtures/analyzer.rs:127 calls `evict_cache_if_needed()` after every file;
//!   src/fixtures/mod.rs:345-377 removes `self.file_cache.iter().take(len/4)` (:356-361), i.e.
//!   the first quarter in DashMap (random hasher) order of whatever the schedule inserted so
//!   far; src/fixtures/scanner.rs:260-280 builds the phase-4 worklist from
//!   `self.file_cache.iter()`, so an evicted conftest.py is never inspected for imports.
//!   (scanner.rs:359-363 / :390-394 use the same cache as "already analysed" test, so an
//!   evicted file can also be analysed twice with analyze_file_fresh.)
//!   This also falsifies the quantifier's parenthesis "(the only effect the parallel scan's
//!   schedule has on the index)".
//! CLAUSE      covered: "Scanning the same workspace again ... in a new process - yields
//!   identical answers to every query: resolution, ..., available fixtures, ..., CLI reports";
//!   "repeated process runs (hash-seed dependent iteration)", "all worker counts". No name
//!   collision needed.
//! FIX         build `files_to_check` from phase 2's `files_to_process` + `plugin_fixture_files`,
//!   track analysed files in a local set instead of `file_cache.contains_key`, and/or do not
//!   evict during `scan_workspace`.
//! OBSERVED    CARGO_NET_OFFLINE=true cargo test --offline --test hunt_2
//!   (go-to-definition line, in available fixtures, reported unused) per scan:
//!     (None, false, false) / (Some(5), true, false) mixed - 4 of 16, 1 of 16 and 6 of 32 scans
//!   answered None in three consecutive executions.  test result: FAILED. 0 passed; 1 failed

use pytest_language_server::FixtureDatabase;
use std::fs;
use std::path::Path;

fn write(p: &Path, s: &str) {
    fs::create_dir_all(p.parent().unwrap()).unwrap();
    fs::write(p, s).unwrap();
}

#[test]
fn large_workspace_scanned_again_gives_the_same_resolution() {
    let tmp = tempfile::tempdir().unwrap();
    let root = tmp.path().canonicalize().unwrap();

    for i in 0..2100 {
        write(
            &root.join(format!("bulk/d{:02}/test_bulk_{i:04}.py", i % 50)),
            "def test_nothing():\n    pass\n",
        );
    }
    write(&root.join("pkg/__init__.py"), "");
    write(
        &root.join("pkg/conftest.py"),
        "from .shared_fixtures import *  # noqa\n",
    );
    write(
        &root.join("pkg/shared_fixtures.py"),
        "import pytest\n\n\n@pytest.fixture\ndef shared_db():\n    return 1\n",
    );
    let test_file = root.join("pkg/test_use.py");
    write(&test_file, "def test_x(shared_db):\n    pass\n");

    let mut answers = Vec::new();
    for _ in 0..32 {
        let db = FixtureDatabase::new();
        db.scan_workspace(&root);
        let def = db.find_fixture_definition(&test_file, 0, 12);
        let listed = db
            .get_available_fixtures(&test_file)
            .iter()
            .any(|d| d.name == "shared_db");
        let unused = db
            .get_unused_fixtures()
            .iter()
            .any(|(_, n)| n == "shared_db");
        answers.push((def.map(|d| d.line), listed, unused));
    }
    println!("(go-to-definition line, in available fixtures, reported unused) per scan:");
    for a in &answers {
        println!("  {a:?}");
    }
    let first = answers[0].clone();
    assert!(
        answers.iter().all(|a| *a == first),
        "scanning the same workspace again gave different answers: {answers:?}"
    );
}
