//! C08 hunt 3: the "fixture used but not declared as a parameter" findings are computed
//! while a file is analysed, by looking at the definitions that happen to be in the index
//! at that moment (`is_available_fixture`). A test file analysed before its `conftest.py`
//! gets no finding, the same file analysed after it does. After `scan_workspace` the
//! answer of `get_undeclared_fixtures` therefore depends on the order / schedule.
//!
//! ROOT CAUSE  src/fixtures/undeclared.rs:252-255 records a name only if
//!   `self.is_available_fixture(..)` (:338-365) holds at analysis time, i.e. against whatever
//!   the other workers have registered so far (called from analyzer.rs:547 and :598); nothing
//!   recomputes it once the scan is complete.
//! CLAUSE      partly covered / adjacent: it is "any order in which files happen to be analyzed
//!   ... identical answers to every query", but undeclared-fixture diagnostics are not in the
//!   enumerated list, and over LSP did_open re-analyses the document after the scan; visible
//!   through the library API (scan_workspace + get_undeclared_fixtures, read by code actions)
//!   or for a document opened while the background scan is running.
//! FIX         record every candidate and filter at query time:
//!   get_undeclared_fixtures -> `.filter(|u| self.is_available_fixture(&u.file_path, &u.name))`.
//! OBSERVED    CARGO_NET_OFFLINE=true cargo test --offline --test hunt_3
//!   conftest first : [("db_conn", 2)]   /   test file first: []
//!   workers=1: 6/64, 6/64   workers=2: 1/64, 1/64   workers=8: 0/64, 0/64 files flagged
//!   test result: FAILED. 0 passed; 2 failed

use pytest_language_server::FixtureDatabase;
use std::collections::BTreeSet;
use std::fs;
use std::path::{Path, PathBuf};

fn write(p: &Path, s: &str) {
    fs::create_dir_all(p.parent().unwrap()).unwrap();
    fs::write(p, s).unwrap();
}

const CONFTEST: &str = "import pytest\n\n\n@pytest.fixture\ndef db_conn():\n    return 1\n";
const TEST: &str = "def test_x():\n    assert db_conn.execute('select 1')\n";

/// Pure permutation of the per-file analysis order, no threads involved.
#[test]
fn undeclared_findings_do_not_depend_on_analysis_order() {
    let tmp = tempfile::tempdir().unwrap();
    let root = tmp.path().canonicalize().unwrap();
    let conftest = root.join("conftest.py");
    let test = root.join("test_a.py");
    write(&conftest, CONFTEST);
    write(&test, TEST);

    let db1 = FixtureDatabase::new();
    db1.analyze_file(conftest.clone(), CONFTEST);
    db1.analyze_file(test.clone(), TEST);

    let db2 = FixtureDatabase::new();
    db2.analyze_file(test.clone(), TEST);
    db2.analyze_file(conftest.clone(), CONFTEST);

    let names = |db: &FixtureDatabase| -> Vec<(String, usize)> {
        db.get_undeclared_fixtures(&test)
            .into_iter()
            .map(|u| (u.name, u.line))
            .collect()
    };
    println!("conftest first : {:?}", names(&db1));
    println!("test file first: {:?}", names(&db2));
    assert_eq!(names(&db1), names(&db2));
}

/// The real parallel scan, with different worker counts. With one worker the files are
/// analysed in directory-walk order (conftest.py somewhere among its 64 siblings); with
/// several workers the big conftest is registered after most of the small test files.
#[test]
fn undeclared_findings_do_not_depend_on_worker_count() {
    // a conftest that takes a while to parse
    let mut big = String::from("import pytest\n");
    for i in 0..6000 {
        big.push_str(&format!("\n\ndef helper_{i}(x):\n    return x + {i}\n"));
    }
    big.push_str("\n\n@pytest.fixture\ndef db_conn():\n    return 1\n");

    let tmp = tempfile::tempdir().unwrap();
    let root = tmp.path().canonicalize().unwrap();
    write(&root.join("conftest.py"), &big);
    let mut tests: Vec<PathBuf> = Vec::new();
    for i in 0..64 {
        let p = root.join(format!("test_m{i:02}.py"));
        write(&p, TEST);
        tests.push(p);
    }

    let mut answers: BTreeSet<usize> = BTreeSet::new();
    for threads in [1usize, 2, 8] {
        for _ in 0..2 {
            let db = FixtureDatabase::new();
            let pool = rayon::ThreadPoolBuilder::new()
                .num_threads(threads)
                .build()
                .unwrap();
            pool.install(|| db.scan_workspace(&root));
            let flagged = tests
                .iter()
                .filter(|t| !db.get_undeclared_fixtures(t).is_empty())
                .count();
            println!(
                "workers={threads}: {flagged}/64 test files carry the undeclared-fixture finding"
            );
            answers.insert(flagged);
        }
    }
    assert_eq!(
        answers.len(),
        1,
        "the number of flagged files differs between scans of the same workspace: {answers:?}"
    );
}
