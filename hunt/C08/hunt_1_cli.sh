#!/usr/bin/env bash
# C08 hunt 1, real binary, separate processes: `fixtures list` on the workspace of hunt_1
# (two installed plugins providing `shared_resource` through `from .fixtures import *`).
# Prints the distinct reports seen over 12 process runs; the property demands exactly one.
set -euo pipefail
BIN="${BIN:-/tmp/wt/h_C08/target/debug/pytest-language-server}"
WS="$(mktemp -d)"
trap 'rm -rf "$WS"' EXIT
SP="$WS/.venv/lib/python3.11/site-packages"
for name in plug_alpha plug_beta; do
  mkdir -p "$SP/$name-1.0.dist-info" "$SP/$name"
  printf '[pytest11]\n%s = %s.plugin\n' "$name" "$name" > "$SP/$name-1.0.dist-info/entry_points.txt"
  : > "$SP/$name/__init__.py"
  printf 'from .fixtures import *  # noqa\n' > "$SP/$name/plugin.py"
  printf 'import pytest\n\n\n@pytest.fixture\ndef shared_resource():\n    return "%s"\n' "$name" > "$SP/$name/fixtures.py"
done
printf 'def test_x(shared_resource):\n    pass\n' > "$WS/test_use.py"

OUT="$(mktemp -d)"
for i in $(seq 1 12); do
  NO_COLOR=1 "$BIN" fixtures list "$WS" | sed "s#$WS#<ws>#" > "$OUT/run_$i.txt"
done
echo "distinct reports over 12 runs: $(md5sum "$OUT"/run_*.txt | awk '{print $1}' | sort -u | wc -l)"
for h in $(md5sum "$OUT"/run_*.txt | awk '{print $1}' | sort -u); do
  f="$(md5sum "$OUT"/run_*.txt | awk -v h="$h" '$1==h {print $2; exit}')"
  n="$(md5sum "$OUT"/run_*.txt | awk -v h="$h" '$1==h' | wc -l)"
  echo "----- report seen in $n run(s) -----"
  cat "$f"
done
rm -rf "$OUT"
