// scratch harness: differential comparison of query answers across scans
use pytest_language_server::FixtureDatabase;
use std::collections::{BTreeMap, BTreeSet};
use std::fmt::Write as _;
use std::path::{Path, PathBuf};

pub fn rel(root: &Path, p: &Path) -> String {
    p.strip_prefix(root).unwrap_or(p).to_string_lossy().to_string()
}

pub fn dump(db: &FixtureDatabase, root: &Path) -> String {
    let mut out = String::new();
    // defs
    let mut defs = Vec::new();
    for e in db.definitions.iter() {
        for d in e.value().iter() {
            defs.push(d.clone());
        }
    }
    defs.sort_by(|a, b| (&a.file_path, a.line, a.start_char, &a.name).cmp(&(&b.file_path, b.line, b.start_char, &b.name)));
    for d in &defs {
        writeln!(out, "DEF {} {}:{} [{}-{}] end={} plugin={} tp={} scope={:?} deps={:?} auto={}", d.name, rel(root, &d.file_path), d.line, d.start_char, d.end_char, d.end_line, d.is_plugin, d.is_third_party, d.scope, d.dependencies, d.autouse).unwrap();
    }
    // usages
    let mut files: BTreeSet<PathBuf> = BTreeSet::new();
    for e in db.usages.iter() { files.insert(e.key().clone()); }
    for e in db.file_definitions.iter() { files.insert(e.key().clone()); }
    for f in &files {
        if let Some(us) = db.usages.get(f) {
            let mut us: Vec<_> = us.iter().cloned().collect();
            us.sort_by_key(|u| (u.line, u.start_char, u.name.clone()));
            for u in us {
                let r = db.find_fixture_definition(f, (u.line - 1) as u32, u.start_char as u32);
                writeln!(out, "GOTO {}:{}:{} {} -> {}", rel(root, f), u.line, u.start_char, u.name,
                    r.map(|d| format!("{}:{}", rel(root, &d.file_path), d.line)).unwrap_or("-".into())).unwrap();
            }
        }
        let av = db.get_available_fixtures(f);
        let mut m: BTreeMap<String, String> = BTreeMap::new();
        for d in av { m.insert(d.name.clone(), format!("{}:{}", rel(root, &d.file_path), d.line)); }
        writeln!(out, "AVAIL {} {:?}", rel(root, f), m).unwrap();
        let mut mm: Vec<String> = db.detect_scope_mismatches_in_file(f).iter().map(|m| format!("{}:{}->{}:{}:{}", m.fixture.name, m.fixture.line, m.dependency.name, rel(root, &m.dependency.file_path), m.dependency.line)).collect();
        mm.sort();
        writeln!(out, "SCOPE {} {:?}", rel(root, f), mm).unwrap();
        let mut cc: Vec<String> = db.detect_fixture_cycles_in_file(f).iter().map(|c| format!("{}:{} {:?}", c.fixture.name, c.fixture.line, c.cycle_path)).collect();
        cc.sort();
        writeln!(out, "CYCLE {} {:?}", rel(root, f), cc).unwrap();
    }
    for d in &defs {
        let mut refs: Vec<String> = db.find_references_for_definition(d).iter().map(|u| format!("{}:{}:{}", rel(root, &u.file_path), u.line, u.start_char)).collect();
        refs.sort();
        writeln!(out, "REFS {} {}:{} {:?}", d.name, rel(root, &d.file_path), d.line, refs).unwrap();
    }
    let un: Vec<String> = db.get_unused_fixtures().iter().map(|(p, n)| format!("{}::{}", rel(root, p), n)).collect();
    writeln!(out, "UNUSED {:?}", un).unwrap();
    out
}

pub fn write_ws(root: &Path, files: &[(&str, &str)]) {
    for (p, c) in files {
        let fp = root.join(p);
        std::fs::create_dir_all(fp.parent().unwrap()).unwrap();
        std::fs::write(fp, c).unwrap();
    }
}

pub fn compare_scans(files: &[(&str, &str)], runs: usize) -> bool {
    let tmp = tempfile::tempdir().unwrap();
    let root = tmp.path().canonicalize().unwrap().join("ws");
    std::fs::create_dir_all(&root).unwrap();
    write_ws(&root, files);
    let mut dumps: BTreeMap<String, usize> = BTreeMap::new();
    for i in 0..runs {
        let n = 1 + (i % 8);
        let pool = rayon::ThreadPoolBuilder::new().num_threads(n).build().unwrap();
        let db = FixtureDatabase::new();
        pool.install(|| db.scan_workspace(&root));
        *dumps.entry(dump(&db, &root)).or_default() += 1;
    }
    if dumps.len() > 1 {
        let v: Vec<_> = dumps.iter().collect();
        println!("=== {} distinct dumps", v.len());
        let a: Vec<&str> = v[0].0.lines().collect();
        let b: Vec<&str> = v[1].0.lines().collect();
        println!("counts: {:?}", v.iter().map(|x| x.1).collect::<Vec<_>>());
        for l in &a { if !b.contains(l) { println!("A: {}", l); } }
        for l in &b { if !a.contains(l) { println!("B: {}", l); } }
        return false;
    }
    true
}

/// analyze_file in every permutation of the given files (emulated per-file order)
pub fn compare_perms(files: &[(&str, &str)], analyze: &[&str]) -> bool {
    let tmp = tempfile::tempdir().unwrap();
    let root = tmp.path().canonicalize().unwrap().join("ws");
    std::fs::create_dir_all(&root).unwrap();
    write_ws(&root, files);
    let mut idx: Vec<usize> = (0..analyze.len()).collect();
    let mut dumps: BTreeMap<String, Vec<Vec<usize>>> = BTreeMap::new();
    fn permute(k: usize, idx: &mut Vec<usize>, f: &mut dyn FnMut(&[usize])) {
        if k == idx.len() { f(idx); return; }
        for i in k..idx.len() { idx.swap(k, i); permute(k + 1, idx, f); idx.swap(k, i); }
    }
    permute(0, &mut idx, &mut |perm| {
        let db = FixtureDatabase::new();
        for &i in perm {
            let p = root.join(analyze[i]);
            let c = std::fs::read_to_string(&p).unwrap();
            db.analyze_file(p, &c);
        }
        dumps.entry(dump(&db, &root)).or_default().push(perm.to_vec());
    });
    if dumps.len() > 1 {
        let v: Vec<_> = dumps.iter().collect();
        println!("=== {} distinct dumps (perms)", v.len());
        println!("perm A {:?} perm B {:?}", v[0].1[0], v[1].1[0]);
        let a: Vec<&str> = v[0].0.lines().collect();
        let b: Vec<&str> = v[1].0.lines().collect();
        for l in &a { if !b.contains(l) { println!("A: {}", l); } }
        for l in &b { if !a.contains(l) { println!("B: {}", l); } }
        return false;
    }
    true
}

#[test]
fn w1_override_chain() {
    let files = [
        ("conftest.py", "import pytest\n\n@pytest.fixture\ndef db():\n    return 1\n\n@pytest.fixture(scope=\"session\")\ndef sess(db):\n    return db\n"),
        ("sub/conftest.py", "import pytest\n\n@pytest.fixture\ndef db(db):\n    return db\n"),
        ("sub/test_a.py", "import pytest\n\n@pytest.fixture\ndef db(db):\n    return db\n\ndef test_x(db, sess):\n    pass\n"),
        ("sub/deep/test_b.py", "def test_y(db):\n    pass\n"),
    ];
    assert!(compare_scans(&files, 24));
    assert!(compare_perms(&files, &["conftest.py", "sub/conftest.py", "sub/test_a.py", "sub/deep/test_b.py"]));
}

#[test]
fn w3_imports() {
    let files = [
        ("conftest.py", "import pytest\nfrom helpers.fx import *\nfrom helpers.gx import db\n\n@pytest.fixture\ndef top(db, other):\n    return 1\n"),
        ("helpers/__init__.py", ""),
        ("helpers/fx.py", "import pytest\n\n@pytest.fixture\ndef db():\n    return 1\n\n@pytest.fixture\ndef other(db):\n    return db\n"),
        ("helpers/gx.py", "import pytest\n\n@pytest.fixture(scope=\"session\")\ndef db(other):\n    return 2\n"),
        ("test_a.py", "from helpers.fx import other\n\ndef test_x(db, other, top):\n    pass\n"),
        ("sub/conftest.py", "import pytest\nfrom helpers.fx import db\n\n@pytest.fixture\ndef other(other, db):\n    return 1\n"),
        ("sub/test_b.py", "import pytest\n\n@pytest.fixture\ndef db(db, other):\n    return db\n\ndef test_y(db, other, top):\n    pass\n"),
    ];
    assert!(compare_scans(&files, 24));
    assert!(compare_perms(&files, &["conftest.py", "test_a.py", "sub/conftest.py", "sub/test_b.py"]));
}

#[test]
fn w4_test_module_as_helper() {
    let files = [
        ("conftest.py", "import pytest\nfrom test_shared import *\npytest_plugins = [\"plug.a\", \"plug.b\"]\n"),
        ("test_shared.py", "import pytest\nfrom plug.b import *\n\n@pytest.fixture\ndef db(db):\n    return 1\n\ndef test_s(db, pa):\n    pass\n"),
        ("plug/__init__.py", ""),
        ("plug/a.py", "import pytest\n\n@pytest.fixture\ndef db():\n    return 1\n\n@pytest.fixture\ndef pa(db):\n    return 1\n"),
        ("plug/b.py", "import pytest\nfrom plug.a import pa\n\n@pytest.fixture\ndef db(pa):\n    return 1\n"),
        ("sub/test_c.py", "def test_c(db, pa):\n    pass\n"),
        ("sub/conftest.py", "from plug.a import *\n"),
    ];
    assert!(compare_scans(&files, 24));
    assert!(compare_perms(&files, &["conftest.py", "test_shared.py", "sub/test_c.py", "sub/conftest.py"]));
}

#[test]
fn w5_alias_and_class() {
    let files = [
        ("conftest.py", "import pytest\n\n@pytest.fixture(name=\"client\")\ndef _client():\n    return 1\n\n@pytest.fixture\ndef client_override(client):\n    return 1\n\n@pytest.fixture(name=\"client\")\ndef client2(client):\n    return 2\n"),
        ("test_k.py", "import pytest\n\n@pytest.fixture\ndef client(client):\n    return client\n\nclass TestK:\n    @pytest.fixture\n    def client(self, client):\n        return client\n\n    def test_m(self, client):\n        pass\n\nclass TestL:\n    @pytest.fixture(name=\"client\")\n    def other(self, client):\n        return client\n\n    def test_m(self, client, client_override):\n        pass\n\ndef test_free(client):\n    pass\n"),
        ("pkg/conftest.py", "import pytest\nclient = pytest.fixture(scope=\"module\")(lambda: 1)\n"),
        ("pkg/test_z.py", "def test_z(client, client_override):\n    pass\n"),
    ];
    assert!(compare_scans(&files, 24));
    assert!(compare_perms(&files, &["conftest.py", "test_k.py", "pkg/conftest.py", "pkg/test_z.py"]));
}

pub fn venv_files(root_placeholder: &str, pkgs: &[(&str, &str)]) -> Vec<(String, String)> {
    // pkgs: (dist name, entry point lines)
    let sp = ".venv/lib/python3.12/site-packages";
    let mut v = Vec::new();
    for (name, eps) in pkgs {
        v.push((format!("{sp}/{name}-0.1.0.dist-info/entry_points.txt"), format!("[pytest11]\n{eps}\n")));
        v.push((format!("{sp}/{name}-0.1.0.dist-info/direct_url.json"), format!("{{\"url\": \"file://{root_placeholder}\", \"dir_info\": {{\"editable\": true}}}}")));
        v.push((format!("{sp}/{name}.pth"), format!("{root_placeholder}\n")));
    }
    v
}

pub fn compare_scans_venv(files: &[(&str, &str)], pkgs: &[(&str, &str)], runs: usize) -> bool {
    let tmp = tempfile::tempdir().unwrap();
    let root = tmp.path().canonicalize().unwrap().join("ws");
    std::fs::create_dir_all(&root).unwrap();
    write_ws(&root, files);
    let vf = venv_files(&root.to_string_lossy(), pkgs);
    let vf2: Vec<(&str, &str)> = vf.iter().map(|(a, b)| (a.as_str(), b.as_str())).collect();
    write_ws(&root, &vf2);
    let mut dumps: BTreeMap<String, usize> = BTreeMap::new();
    for i in 0..runs {
        let n = 1 + (i % 8);
        let pool = rayon::ThreadPoolBuilder::new().num_threads(n).build().unwrap();
        let db = FixtureDatabase::new();
        pool.install(|| db.scan_workspace(&root));
        let d = dump(&db, &root);
        if i == 0 && std::env::var("SHOW").is_ok() { println!("{}", d); }
        *dumps.entry(d).or_default() += 1;
    }
    if dumps.len() > 1 {
        let v: Vec<_> = dumps.iter().collect();
        println!("=== {} distinct dumps", v.len());
        let a: Vec<&str> = v[0].0.lines().collect();
        let b: Vec<&str> = v[1].0.lines().collect();
        println!("counts: {:?}", v.iter().map(|x| x.1).collect::<Vec<_>>());
        for l in &a { if !b.contains(l) { println!("A: {}", l); } }
        for l in &b { if !a.contains(l) { println!("B: {}", l); } }
        return false;
    }
    true
}

#[test]
fn w6_plugins() {
    let files = [
        ("conftest.py", "import pytest\nfrom pa.shared import *\n\n@pytest.fixture\ndef root_fx(px):\n    return 1\n"),
        ("pa/__init__.py", ""),
        ("pa/plugin.py", "import pytest\nfrom pa.shared import *\nfrom pa.extra import ex\nfrom pb.plugin import *\npytest_plugins = [\"pa.more\"]\n\n@pytest.fixture\ndef px():\n    return 1\n"),
        ("pa/shared.py", "import pytest\nfrom pa.cyc import *\n\n@pytest.fixture\ndef sh(px):\n    return 1\n\n@pytest.fixture\ndef px(px):\n    return 2\n"),
        ("pa/cyc.py", "import pytest\nfrom pa.shared import *\n\n@pytest.fixture\ndef cy():\n    return 1\n"),
        ("pa/extra.py", "import pytest\n\n@pytest.fixture\ndef ex():\n    return 1\n\n@pytest.fixture\ndef ex2():\n    return 1\n"),
        ("pa/more.py", "import pytest\n\n@pytest.fixture\ndef px():\n    return 3\n\n@pytest.fixture\ndef mo(ex):\n    return 3\n"),
        ("pb/__init__.py", ""),
        ("pb/plugin.py", "import pytest\nfrom pa.extra import *\n\n@pytest.fixture\ndef px(ex2):\n    return 4\n\n@pytest.fixture\ndef pbx(px):\n    return 4\n"),
        ("tests/test_p.py", "def test_p(px, sh, cy, ex, ex2, mo, pbx, root_fx):\n    pass\n"),
        ("other/test_q.py", "import pytest\n\n@pytest.fixture\ndef px(px):\n    return 1\n\ndef test_q(px, sh, cy, ex, ex2, mo, pbx, root_fx):\n    pass\n"),
    ];
    assert!(compare_scans_venv(&files, &[("pa", "pa = pa.plugin"), ("pb", "pb = pb.plugin")], 40));
}

pub fn diff(a: &str, b: &str) {
    let a: Vec<&str> = a.lines().collect();
    let b: Vec<&str> = b.lines().collect();
    for l in &a { if !b.contains(l) { println!("A: {}", l); } }
    for l in &b { if !a.contains(l) { println!("B: {}", l); } }
}

/// baseline scan vs: (1) rescan on same db, (2) open each file (buffer == disk) before the scan, (3) after
pub fn compare_histories(files: &[(&str, &str)], pkgs: &[(&str, &str)]) -> bool {
    let tmp = tempfile::tempdir().unwrap();
    let root = tmp.path().canonicalize().unwrap().join("ws");
    std::fs::create_dir_all(&root).unwrap();
    write_ws(&root, files);
    if !pkgs.is_empty() {
        let vf = venv_files(&root.to_string_lossy(), pkgs);
        let vf2: Vec<(&str, &str)> = vf.iter().map(|(a, b)| (a.as_str(), b.as_str())).collect();
        write_ws(&root, &vf2);
    }
    let mut ok = true;
    let db = FixtureDatabase::new();
    db.scan_workspace(&root);
    let base = dump(&db, &root);
    db.scan_workspace(&root);
    let again = dump(&db, &root);
    if base != again { println!("=== RESCAN differs"); diff(&base, &again); ok = false; }
    let basedb = FixtureDatabase::new();
    basedb.scan_workspace(&root);
    for (f, _) in files {
        if !f.ends_with(".py") { continue; }
        let p = root.join(f);
        if !basedb.imports.contains_key(&p) { continue; } // not reached by the scan
        let c = std::fs::read_to_string(&p).unwrap();
        // open before
        let db = FixtureDatabase::new();
        db.document_opened(&p);
        db.analyze_file(p.clone(), &c);
        db.scan_workspace(&root);
        let d = dump(&db, &root);
        if d != base { println!("=== OPEN-BEFORE-SCAN {} differs", f); diff(&base, &d); ok = false; }
        // open before, close before scan
        let db = FixtureDatabase::new();
        db.document_opened(&p);
        db.analyze_file(p.clone(), &c);
        db.document_closed(&p);
        db.cleanup_file_cache(&p);
        db.scan_workspace(&root);
        let d = dump(&db, &root);
        if d != base && std::env::var("SKIP_F2").is_err() { println!("=== OPEN-CLOSE-BEFORE-SCAN {} differs", f); diff(&base, &d); ok = false; }
        // open after
        let db = FixtureDatabase::new();
        db.scan_workspace(&root);
        db.document_opened(&p);
        db.analyze_file(p.clone(), &c);
        let d = dump(&db, &root);
        if d != base { println!("=== OPEN-AFTER-SCAN {} differs", f); diff(&base, &d); ok = false; }
        db.document_closed(&p);
        db.cleanup_file_cache(&p);
        let d = dump(&db, &root);
        if d != base { println!("=== OPEN-CLOSE-AFTER-SCAN {} differs", f); diff(&base, &d); ok = false; }
    }
    ok
}

#[test]
fn h6_plugins_histories() {
    let files = [
        ("conftest.py", "import pytest\nfrom pa.shared import *\n\n@pytest.fixture\ndef root_fx(px):\n    return 1\n"),
        ("pa/__init__.py", ""),
        ("pa/plugin.py", "import pytest\nfrom pa.shared import *\nfrom pa.extra import ex\nfrom pb.plugin import *\npytest_plugins = [\"pa.more\"]\n\n@pytest.fixture\ndef px():\n    return 1\n"),
        ("pa/shared.py", "import pytest\nfrom pa.cyc import *\n\n@pytest.fixture\ndef sh(px):\n    return 1\n\n@pytest.fixture\ndef px(px):\n    return 2\n"),
        ("pa/cyc.py", "import pytest\nfrom pa.shared import *\n\n@pytest.fixture\ndef cy():\n    return 1\n"),
        ("pa/extra.py", "import pytest\n\n@pytest.fixture\ndef ex():\n    return 1\n\n@pytest.fixture\ndef ex2():\n    return 1\n"),
        ("pa/more.py", "import pytest\n\n@pytest.fixture\ndef px():\n    return 3\n\n@pytest.fixture\ndef mo(ex):\n    return 3\n"),
        ("pb/__init__.py", ""),
        ("pb/plugin.py", "import pytest\nfrom pa.extra import *\n\n@pytest.fixture\ndef px(ex2):\n    return 4\n\n@pytest.fixture\ndef pbx(px):\n    return 4\n"),
        ("tests/test_p.py", "def test_p(px, sh, cy, ex, ex2, mo, pbx, root_fx):\n    pass\n"),
        ("other/test_q.py", "import pytest\n\n@pytest.fixture\ndef px(px):\n    return 1\n\ndef test_q(px, sh, cy, ex, ex2, mo, pbx, root_fx):\n    pass\n"),
    ];
    assert!(compare_histories(&files, &[("pa", "pa = pa.plugin"), ("pb", "pb = pb.plugin")]));
}

#[test]
fn h3_imports_histories() {
    let files = [
        ("conftest.py", "import pytest\nfrom helpers.fx import *\nfrom helpers.gx import db\n\n@pytest.fixture\ndef top(db, other):\n    return 1\n"),
        ("helpers/__init__.py", ""),
        ("helpers/fx.py", "import pytest\n\n@pytest.fixture\ndef db():\n    return 1\n\n@pytest.fixture\ndef other(db):\n    return db\n"),
        ("helpers/gx.py", "import pytest\n\n@pytest.fixture(scope=\"session\")\ndef db(other):\n    return 2\n"),
        ("test_a.py", "from helpers.fx import other\n\ndef test_x(db, other, top):\n    pass\n"),
        ("sub/conftest.py", "import pytest\nfrom helpers.fx import db\n\n@pytest.fixture\ndef other(other, db):\n    return 1\n"),
        ("sub/test_b.py", "import pytest\n\n@pytest.fixture\ndef db(db, other):\n    return db\n\ndef test_y(db, other, top):\n    pass\n"),
    ];
    assert!(compare_histories(&files, &[]));
}

/// general: files relative to tmp base; workspace = base/ws; "@BASE@" replaced in contents
pub fn setup_base(files: &[(&str, &str)]) -> (tempfile::TempDir, PathBuf) {
    let tmp = tempfile::tempdir().unwrap();
    let base = tmp.path().canonicalize().unwrap();
    for (p, c) in files {
        let fp = base.join(p);
        std::fs::create_dir_all(fp.parent().unwrap()).unwrap();
        std::fs::write(fp, c.replace("@BASE@", &base.to_string_lossy())).unwrap();
    }
    (tmp, base)
}

pub fn run_all(files: &[(&str, &str)], runs: usize) -> bool {
    let (_t, base) = setup_base(files);
    let root = base.join("ws");
    let mut ok = true;
    let mut dumps: BTreeMap<String, usize> = BTreeMap::new();
    for i in 0..runs {
        let n = 1 + (i % 8);
        let pool = rayon::ThreadPoolBuilder::new().num_threads(n).build().unwrap();
        let db = FixtureDatabase::new();
        pool.install(|| db.scan_workspace(&root));
        let d = dump(&db, &base);
        if i == 0 && std::env::var("SHOW").is_ok() { println!("{}", d); }
        *dumps.entry(d).or_default() += 1;
    }
    if dumps.len() > 1 {
        let v: Vec<_> = dumps.iter().collect();
        println!("=== {} distinct dumps {:?}", v.len(), v.iter().map(|x| x.1).collect::<Vec<_>>());
        diff(v[0].0, v[1].0);
        ok = false;
    }
    let base_dump = dumps.keys().next().unwrap().clone();
    let db = FixtureDatabase::new();
    db.scan_workspace(&root);
    db.scan_workspace(&root);
    let again = dump(&db, &base);
    if base_dump != again { println!("=== RESCAN differs"); diff(&base_dump, &again); ok = false; }
    for (f, _) in files {
        if !f.ends_with(".py") { continue; }
        let p = base.join(f);
        let c = std::fs::read_to_string(&p).unwrap();
        let db = FixtureDatabase::new();
        db.document_opened(&p);
        db.analyze_file(p.clone(), &c);
        db.scan_workspace(&root);
        let d = dump(&db, &base);
        if d != base_dump { println!("=== OPEN-BEFORE-SCAN {} differs", f); diff(&base_dump, &d); ok = false; }
        let db = FixtureDatabase::new();
        db.scan_workspace(&root);
        db.document_opened(&p);
        db.analyze_file(p.clone(), &c);
        let d = dump(&db, &base);
        if d != base_dump { println!("=== OPEN-AFTER-SCAN {} differs", f); diff(&base_dump, &d); ok = false; }
        db.document_closed(&p);
        db.cleanup_file_cache(&p);
        let d = dump(&db, &base);
        if d != base_dump { println!("=== OPEN-CLOSE-AFTER-SCAN {} differs", f); diff(&base_dump, &d); ok = false; }
    }
    ok
}

#[test]
fn x7_external() {
    let sp = "ws/.venv/lib/python3.12/site-packages";
    let files: Vec<(String, String)> = vec![
        // external editable
        ("ext/extpkg/__init__.py".into(), "".into()),
        ("ext/extpkg/plugin.py".into(), "import pytest\nfrom extpkg.inner import *\n\n@pytest.fixture\ndef db():\n    return 1\n\n@pytest.fixture\ndef ext_only(db):\n    return 1\n".into()),
        ("ext/extpkg/inner.py".into(), "import pytest\n\n@pytest.fixture\ndef inner_fx():\n    return 1\n\n@pytest.fixture\ndef db():\n    return 0\n".into()),
        (format!("{sp}/extpkg-1.0.dist-info/entry_points.txt"), "[pytest11]\nextpkg = extpkg.plugin\n".into()),
        (format!("{sp}/extpkg-1.0.dist-info/direct_url.json"), "{\"url\": \"file://@BASE@/ext\", \"dir_info\": {\"editable\": true}}".into()),
        (format!("{sp}/__editable__.extpkg-1.0.pth"), "@BASE@/ext\n".into()),
        // regular site-packages plugin
        (format!("{sp}/spp/__init__.py"), "".into()),
        (format!("{sp}/spp/plugin.py"), "import pytest\npytest_plugins = [\"spp.helpers\"]\n\n@pytest.fixture\ndef db(db):\n    return 2\n\n@pytest.fixture\ndef spp_fx(inner_fx):\n    return 2\n".into()),
        (format!("{sp}/spp/helpers.py"), "import pytest\n\n@pytest.fixture\ndef helper_fx(db):\n    return 2\n".into()),
        (format!("{sp}/spp-2.0.dist-info/entry_points.txt"), "[pytest11]\nspp = spp.plugin\n".into()),
        (format!("{sp}/_pytest/__init__.py"), "".into()),
        (format!("{sp}/_pytest/tmpdir.py"), "import pytest\n\n@pytest.fixture\ndef tmp_path():\n    return 1\n\n@pytest.fixture\ndef db():\n    return 9\n".into()),
        // workspace
        ("ws/conftest.py".into(), "import pytest\nfrom extpkg.inner import inner_fx\n\n@pytest.fixture\ndef tmp_path(tmp_path, db):\n    return tmp_path\n".into()),
        ("ws/tests/test_w.py".into(), "def test_w(db, ext_only, inner_fx, spp_fx, helper_fx, tmp_path):\n    pass\n".into()),
        ("ws/tests/conftest.py".into(), "import pytest\nfrom spp.helpers import *\n\n@pytest.fixture(scope=\"session\")\ndef helper_fx(helper_fx):\n    return 3\n".into()),
    ];
    let f2: Vec<(&str, &str)> = files.iter().map(|(a, b)| (a.as_str(), b.as_str())).collect();
    assert!(run_all(&f2, 32));
}

#[test]
fn x8_external_explicit() {
    let sp = "ws/.venv/lib/python3.12/site-packages";
    let files: Vec<(String, String)> = vec![
        ("ext/extpkg/__init__.py".into(), "".into()),
        ("ext/extpkg/plugin.py".into(), "import pytest\nfrom extpkg.inner import inner_fx\n\n@pytest.fixture\ndef ext_only(inner_fx):\n    return 1\n".into()),
        ("ext/extpkg/inner.py".into(), "import pytest\n\n@pytest.fixture\ndef inner_fx():\n    return 1\n".into()),
        (format!("{sp}/extpkg-1.0.dist-info/entry_points.txt"), "[pytest11]\nextpkg = extpkg.plugin\n".into()),
        (format!("{sp}/extpkg-1.0.dist-info/direct_url.json"), "{\"url\": \"file://@BASE@/ext\", \"dir_info\": {\"editable\": true}}".into()),
        (format!("{sp}/__editable__.extpkg-1.0.pth"), "@BASE@/ext\n".into()),
        ("ws/conftest.py".into(), "import pytest\n\n@pytest.fixture\ndef local(inner_fx):\n    return 1\n".into()),
        ("ws/tests/test_w.py".into(), "def test_w(ext_only, inner_fx, local):\n    pass\n".into()),
    ];
    let f2: Vec<(&str, &str)> = files.iter().map(|(a, b)| (a.as_str(), b.as_str())).collect();
    assert!(run_all(&f2, 8));
}

struct Rng(u64);
impl Rng {
    fn next(&mut self) -> u64 { self.0 ^= self.0 << 13; self.0 ^= self.0 >> 7; self.0 ^= self.0 << 17; self.0 }
    fn below(&mut self, n: usize) -> usize { (self.next() % n as u64) as usize }
    fn chance(&mut self, pct: usize) -> bool { self.below(100) < pct }
}

fn gen_fixture(rng: &mut Rng, names: &[&str], indent: &str, in_class: bool) -> String {
    let name = names[rng.below(names.len())];
    let mut s = String::new();
    let scope = ["", "", "scope=\"session\"", "scope=\"module\"", "scope=\"class\""][rng.below(5)];
    let alias = rng.chance(15);
    let fname = if alias { format!("impl_{}_{}", name, rng.below(3)) } else { name.to_string() };
    let mut args = Vec::new();
    if alias { args.push(format!("name=\"{}\"", name)); }
    if !scope.is_empty() { args.push(scope.to_string()); }
    if rng.chance(8) { args.push("autouse=True".into()); }
    if args.is_empty() { s += &format!("{indent}@pytest.fixture\n"); } else { s += &format!("{indent}@pytest.fixture({})\n", args.join(", ")); }
    let mut params: Vec<String> = Vec::new();
    if in_class { params.push("self".into()); }
    let nd = rng.below(3);
    for _ in 0..nd {
        let d = names[rng.below(names.len())];
        if !params.contains(&d.to_string()) { params.push(d.to_string()); }
    }
    if rng.chance(25) && !params.contains(&name.to_string()) { params.push(name.to_string()); }
    s += &format!("{indent}def {}({}):\n{indent}    return 1\n\n", fname, params.join(", "));
    s
}

fn gen_ws(rng: &mut Rng) -> (Vec<(String, String)>, bool) {
    let names = ["fa", "fb", "fc", "fd", "fe"];
    let dirs = ["", "a", "a/b", "a/b/c", "d", "d/e", "pk", "pk/sub"];
    let mut files: Vec<(String, String)> = Vec::new();
    let mut modules: Vec<String> = Vec::new(); // dotted abs module names of helper modules
    // helper modules
    let nh = 1 + rng.below(4);
    for i in 0..nh {
        let d = ["pk", "pk/sub", "d", ""][rng.below(4)];
        let stem = format!("h{}", i);
        let path = if d.is_empty() { format!("{stem}.py") } else { format!("{d}/{stem}.py") };
        let dotted = if d.is_empty() { stem.clone() } else { format!("{}.{}", d.replace('/', "."), stem) };
        modules.push(dotted);
        files.push((path, String::new()));
    }
    for d in ["pk", "pk/sub", "d", "d/e", "a", "a/b", "a/b/c"] { files.push((format!("{d}/__init__.py"), String::new())); }
    let use_plugin = rng.chance(40);
    // fill helper contents (may import each other)
    for i in 0..nh {
        let mut s = String::from("import pytest\n");
        for _ in 0..rng.below(3) {
            let m = &modules[rng.below(modules.len())];
            if rng.chance(50) { s += &format!("from {} import *\n", m); } else { s += &format!("from {} import {}\n", m, names[rng.below(names.len())]); }
        }
        if rng.chance(20) { s += &format!("pytest_plugins = [\"{}\"]\n", modules[rng.below(modules.len())]); }
        s += "\n";
        for _ in 0..(1 + rng.below(3)) { s += &gen_fixture(rng, &names, "", false); }
        files[i].1 = s;
    }
    // conftests and tests
    for d in dirs.iter() {
        if rng.chance(55) {
            let mut s = String::from("import pytest\n");
            for _ in 0..rng.below(3) {
                let m = &modules[rng.below(modules.len())];
                if rng.chance(50) { s += &format!("from {} import *\n", m); } else { s += &format!("from {} import {}\n", m, names[rng.below(names.len())]); }
            }
            if rng.chance(25) { s += &format!("from .test_t{} import *\n", rng.below(2)); }
            if rng.chance(15) { s += "from ..conftest import *\n"; }
            if rng.chance(15) { s += "try:\n    from pk.h0 import *\nexcept ImportError:\n    from d.h1 import *\n"; }
            if rng.chance(20) { s += &format!("pytest_plugins = [\"{}\"]\n", modules[rng.below(modules.len())]); }
            s += "\n";
            for _ in 0..rng.below(3) { s += &gen_fixture(rng, &names, "", false); }
            if rng.chance(20) { s += &format!("{} = pytest.fixture(scope=\"module\")(lambda: 1)\n", names[rng.below(5)]); }
            let p = if d.is_empty() { "conftest.py".to_string() } else { format!("{d}/conftest.py") };
            files.push((p, s));
        }
        if rng.chance(60) {
            let mut s = String::from("import pytest\n");
            if rng.chance(30) {
                let m = &modules[rng.below(modules.len())];
                if rng.chance(50) { s += &format!("from {} import *\n", m); } else { s += &format!("from {} import {}\n", m, names[rng.below(names.len())]); }
            }
            s += "\n";
            for _ in 0..rng.below(3) { s += &gen_fixture(rng, &names, "", false); }
            if rng.chance(40) {
                s += "class TestK:\n";
                for _ in 0..(1 + rng.below(2)) { s += &gen_fixture(rng, &names, "    ", true); }
                s += &format!("    def test_m(self, {}, {}):\n        pass\n\n", names[rng.below(5)], names[rng.below(5)]);
            }
            if rng.chance(30) { s += &format!("@pytest.mark.usefixtures(\"{}\")\n", names[rng.below(5)]); }
            let a = names[rng.below(5)]; let mut b = names[rng.below(5)]; if a == b { b = "request"; }
            s += &format!("def test_f({}, {}):\n    pass\n", a, b);
            let p = if d.is_empty() { format!("test_t{}.py", rng.below(2)) } else { format!("{d}/test_t{}.py", rng.below(2)) };
            files.push((p, s));
        }
    }
    (files, use_plugin)
}

#[test]
fn random_workspaces() {
    let seed: u64 = std::env::var("SEED").ok().and_then(|s| s.parse().ok()).unwrap_or(12345);
    let n: usize = std::env::var("N").ok().and_then(|s| s.parse().ok()).unwrap_or(60);
    let mut rng = Rng(seed.wrapping_mul(0x9E3779B97F4A7C15) | 1);
    let mut bad = 0;
    for it in 0..n {
        let (files, use_plugin) = gen_ws(&mut rng);
        let f2: Vec<(&str, &str)> = files.iter().map(|(a, b)| (a.as_str(), b.as_str())).collect();
        let pk: Vec<(&str, &str)> = if use_plugin { vec![("pk", "pk = pk.h0")] } else { vec![] };
        // h0 may not be in pk; entry then unresolvable: fine
        let ok1 = compare_scans_venv(&f2, &pk, 10);
        let ok2 = compare_histories(&f2, &pk);
        if !(ok1 && ok2) {
            bad += 1;
            println!("##### workspace {} (seed {}) differs; files:", it, seed);
            for (p, c) in &files { println!("--- {}\n{}", p, c); }
            if bad >= 2 { break; }
        }
    }
    assert_eq!(bad, 0);
}

#[test]
fn p3_perms_with_helpers() {
    let files = [
        ("conftest.py", "import pytest\nfrom helpers.fx import *\nfrom helpers.gx import db\n\n@pytest.fixture\ndef top(db, other):\n    return 1\n"),
        ("helpers/__init__.py", ""),
        ("helpers/fx.py", "import pytest\nfrom helpers.gx import *\n\n@pytest.fixture\ndef db():\n    return 1\n\n@pytest.fixture\ndef other(db):\n    return db\n"),
        ("helpers/gx.py", "import pytest\n\n@pytest.fixture(scope=\"session\")\ndef db(other):\n    return 2\n"),
        ("test_a.py", "from helpers.fx import other\n\ndef test_x(db, other, top):\n    pass\n"),
        ("sub/test_b.py", "import pytest\n\n@pytest.fixture\ndef db(db, other):\n    return db\n\ndef test_y(db, other, top):\n    pass\n"),
    ];
    assert!(compare_perms(&files, &["conftest.py", "test_a.py", "helpers/fx.py", "helpers/gx.py", "sub/test_b.py"]));
}
