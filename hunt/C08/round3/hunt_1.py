#!/usr/bin/env python3
"""C08 hunt 1 - the answer to textDocument/definition depends on whether a didOpen for a
module of an (external) editable install is handled before or after the background scan has
discovered the editable installs (phase 3).  Same workspace, same documents, same texts.

usage: python3 hunt_1.py /path/to/pytest-language-server
"""
import json, os, subprocess, sys, tempfile, time, pathlib, threading, queue

BIN = sys.argv[1] if len(sys.argv) > 1 else "target/debug/pytest-language-server"

def build(base: pathlib.Path):
    sp = base / "ws/.venv/lib/python3.12/site-packages"
    files = {
        "ext/extpkg/__init__.py": "",
        "ext/extpkg/plugin.py": "import pytest\nfrom extpkg.inner import inner_fx\n\n@pytest.fixture\ndef ext_only(inner_fx):\n    return 1\n",
        "ext/extpkg/inner.py": "import pytest\n\n@pytest.fixture\ndef inner_fx():\n    return 1\n",
        str(sp.relative_to(base) / "extpkg-1.0.dist-info/entry_points.txt"): "[pytest11]\nextpkg = extpkg.plugin\n",
        str(sp.relative_to(base) / "extpkg-1.0.dist-info/direct_url.json"): json.dumps({"url": f"file://{base}/ext", "dir_info": {"editable": True}}),
        str(sp.relative_to(base) / "__editable__.extpkg-1.0.pth"): f"{base}/ext\n",
        "ws/tests/test_w.py": "def test_w(ext_only, inner_fx):\n    pass\n",
    }
    # some bulk so that the walk + parallel analysis (phases 1-2) take a moment
    for i in range(1500):
        files[f"ws/bulk/d{i % 30}/test_bulk_{i}.py"] = "import pytest\n\n@pytest.fixture\ndef fx_%d():\n    return 1\n\ndef test_it(fx_%d):\n    pass\n" % (i, i)
    for rel, text in files.items():
        p = base / rel
        p.parent.mkdir(parents=True, exist_ok=True)
        p.write_text(text)

class Lsp:
    def __init__(self):
        self.p = subprocess.Popen([BIN], stdin=subprocess.PIPE, stdout=subprocess.PIPE, stderr=subprocess.DEVNULL)
        self.q = queue.Queue()
        threading.Thread(target=self._reader, daemon=True).start()
        self.id = 0
    def _reader(self):
        f = self.p.stdout
        while True:
            n = None
            while True:
                line = f.readline()
                if not line:
                    return
                line = line.strip()
                if not line:
                    break
                if line.lower().startswith(b"content-length:"):
                    n = int(line.split(b":")[1])
            self.q.put(json.loads(f.read(n)))
    def frame(self, msg):
        b = json.dumps(msg).encode()
        return b"Content-Length: %d\r\n\r\n" % len(b) + b
    def send_raw(self, data):
        self.p.stdin.write(data); self.p.stdin.flush()
    def request(self, method, params):
        self.id += 1
        return {"jsonrpc": "2.0", "id": self.id, "method": method, "params": params}
    def notif(self, method, params):
        return {"jsonrpc": "2.0", "method": method, "params": params}
    def wait(self, pred, timeout=60):
        end = time.time() + timeout
        while time.time() < end:
            try:
                m = self.q.get(timeout=0.2)
            except queue.Empty:
                continue
            if "id" in m and "method" in m:   # server->client request: answer it
                self.send_raw(self.frame({"jsonrpc": "2.0", "id": m["id"], "result": None}))
            if pred(m):
                return m
        raise TimeoutError

def session(base, open_early):
    ws = base / "ws"
    inner = base / "ext/extpkg/inner.py"
    test = ws / "tests/test_w.py"
    l = Lsp()
    init = l.request("initialize", {"processId": None, "rootUri": ws.as_uri(), "capabilities": {},
                                    "workspaceFolders": [{"uri": ws.as_uri(), "name": "ws"}]})
    initialized = l.notif("initialized", {})
    did_open = l.notif("textDocument/didOpen", {"textDocument": {"uri": inner.as_uri(), "languageId": "python", "version": 1, "text": inner.read_text()}})
    l.send_raw(l.frame(init))
    l.wait(lambda m: m.get("id") == init["id"] and "method" not in m)
    if open_early:
        # what an editor does on start-up: the tabs that were open are announced right away
        l.send_raw(l.frame(initialized) + l.frame(did_open))
    else:
        l.send_raw(l.frame(initialized))
    l.wait(lambda m: m.get("method") == "window/logMessage" and "scan complete" in m["params"]["message"])
    if not open_early:
        l.send_raw(l.frame(did_open))
    # go to definition on `inner_fx` in tests/test_w.py (line 0, col 22)
    req = l.request("textDocument/definition", {"textDocument": {"uri": test.as_uri()}, "position": {"line": 0, "character": 22}})
    l.send_raw(l.frame(req))
    ans = l.wait(lambda m: m.get("id") == req["id"] and "method" not in m)
    req2 = l.request("workspace/symbol", {"query": "inner_fx"})
    l.send_raw(l.frame(req2))
    ans2 = l.wait(lambda m: m.get("id") == req2["id"] and "method" not in m)
    l.p.kill()
    r = ans.get("result")
    loc = None if r is None else r["uri"].split("/ext/")[-1] + ":%d" % r["range"]["start"]["line"]
    syms = None if ans2.get("result") is None else [s["name"] for s in ans2["result"]]
    return loc, syms

with tempfile.TemporaryDirectory() as d:
    base = pathlib.Path(d).resolve()
    build(base)
    late = session(base, open_early=False)
    early = session(base, open_early=True)
    print("didOpen(ext/extpkg/inner.py) AFTER  the scan : definition(inner_fx) ->", late[0], "| workspace/symbol ->", late[1])
    print("didOpen(ext/extpkg/inner.py) BEFORE the scan : definition(inner_fx) ->", early[0], "| workspace/symbol ->", early[1])
    if late != early:
        print("FAIL: same workspace, same open document, different answers")
        sys.exit(1)
    print("ok: identical")
