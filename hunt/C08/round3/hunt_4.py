#!/usr/bin/env python3
"""C08 hunt 4 - the scope-mismatch / circular-dependency diagnostics the server pushes for a
document depend on how far the background scan had got when the didOpen was handled, and are
never pushed again when the scan completes.  Same workspace, same document.

usage: python3 hunt_4.py /path/to/pytest-language-server
"""
import json, subprocess, sys, tempfile, time, pathlib, threading, queue

BIN = sys.argv[1] if len(sys.argv) > 1 else "target/debug/pytest-language-server"

def build(base: pathlib.Path):
    files = {
        "ws/conftest.py": "import pytest\n\n@pytest.fixture\ndef db():\n    return 1\n",
        # a session-scoped fixture that requests the function-scoped `db` of conftest.py
        "ws/test_s.py": "import pytest\n\n@pytest.fixture(scope=\"session\")\ndef s(db):\n    return db\n\ndef test_s(s):\n    pass\n",
    }
    # some bulk so that the walk + parallel analysis take a moment
    for i in range(1500):
        files[f"ws/bulk/d{i % 30}/test_bulk_{i}.py"] = "import pytest\n\n@pytest.fixture\ndef fx_%d():\n    return 1\n\ndef test_it(fx_%d):\n    pass\n" % (i, i)
    for rel, text in files.items():
        p = base / rel
        p.parent.mkdir(parents=True, exist_ok=True)
        p.write_text(text)

class Lsp:
    def __init__(self):
        self.p = subprocess.Popen([BIN], stdin=subprocess.PIPE, stdout=subprocess.PIPE, stderr=subprocess.DEVNULL)
        self.q = queue.Queue()
        self.diags = {}
        threading.Thread(target=self._reader, daemon=True).start()
        self.id = 0
    def _reader(self):
        f = self.p.stdout
        while True:
            n = None
            while True:
                line = f.readline()
                if not line:
                    return
                line = line.strip()
                if not line:
                    break
                if line.lower().startswith(b"content-length:"):
                    n = int(line.split(b":")[1])
            m = json.loads(f.read(n))
            if m.get("method") == "textDocument/publishDiagnostics":
                self.diags[m["params"]["uri"]] = sorted(d["code"] + "@" + str(d["range"]["start"]["line"]) for d in m["params"]["diagnostics"])
            self.q.put(m)
    def frame(self, msg):
        b = json.dumps(msg).encode()
        return b"Content-Length: %d\r\n\r\n" % len(b) + b
    def send_raw(self, data):
        self.p.stdin.write(data); self.p.stdin.flush()
    def request(self, method, params):
        self.id += 1
        return {"jsonrpc": "2.0", "id": self.id, "method": method, "params": params}
    def notif(self, method, params):
        return {"jsonrpc": "2.0", "method": method, "params": params}
    def wait(self, pred, timeout=60):
        end = time.time() + timeout
        while time.time() < end:
            try:
                m = self.q.get(timeout=0.2)
            except queue.Empty:
                continue
            if "id" in m and "method" in m:
                self.send_raw(self.frame({"jsonrpc": "2.0", "id": m["id"], "result": None}))
            if pred(m):
                return m
        raise TimeoutError

def session(base, open_early):
    ws = base / "ws"
    doc = ws / "test_s.py"
    l = Lsp()
    init = l.request("initialize", {"processId": None, "rootUri": ws.as_uri(), "capabilities": {},
                                    "workspaceFolders": [{"uri": ws.as_uri(), "name": "ws"}]})
    l.send_raw(l.frame(init))
    l.wait(lambda m: m.get("id") == init["id"] and "method" not in m)
    did_open = l.notif("textDocument/didOpen", {"textDocument": {"uri": doc.as_uri(), "languageId": "python", "version": 1, "text": doc.read_text()}})
    if open_early:
        l.send_raw(l.frame(l.notif("initialized", {})) + l.frame(did_open))
    else:
        l.send_raw(l.frame(l.notif("initialized", {})))
    l.wait(lambda m: m.get("method") == "window/logMessage" and "scan complete" in m["params"]["message"])
    if not open_early:
        l.send_raw(l.frame(did_open))
    time.sleep(1.5)   # give the server every chance to push (again)
    l.p.kill()
    return l.diags.get(doc.as_uri())

with tempfile.TemporaryDirectory() as d:
    base = pathlib.Path(d).resolve()
    build(base)
    late = session(base, open_early=False)
    early = session(base, open_early=True)
    print("didOpen(test_s.py) handled AFTER  the scan: diagnostics shown =", late)
    print("didOpen(test_s.py) handled DURING the scan: diagnostics shown =", early)
    if late != early:
        print("FAIL: same workspace, same document, different diagnostics (and they stay that way)")
        sys.exit(1)
    print("ok: identical")
