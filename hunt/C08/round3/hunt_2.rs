//! C08 hunt 2: phase 4 of the scan decides "this module is indexed already, re-analyse it so
//! that its fixtures get is_plugin=true" by looking at the TEXT cache (`file_cache`), while
//! "this module is indexed already, do not analyse it" is decided by looking at the INDEX
//! (`file_definitions` / `imports`). A module that is indexed but whose text is not cached
//! (the editor opened and closed it before the scan started) falls between the two: it is
//! marked as a plugin file, never re-analysed, and its fixtures keep is_plugin=false.
//! Same workspace on disk, no document open any more: different answers.
use pytest_language_server::FixtureDatabase;
use std::fs;
use std::path::Path;

fn write(p: &Path, s: &str) {
    fs::create_dir_all(p.parent().unwrap()).unwrap();
    fs::write(p, s).unwrap();
}

fn answers(db: &FixtureDatabase, test: &Path) -> (Option<String>, Vec<String>) {
    // go-to-definition on `mo` in `def test_w(px):`
    let goto = db
        .find_fixture_definition(test, 0, 11)
        .map(|d| format!("{}:{}", d.file_path.file_name().unwrap().to_string_lossy(), d.line));
    let avail: Vec<String> = db.get_available_fixtures(test).into_iter().map(|d| format!("{}@{}", d.name, d.file_path.file_name().unwrap().to_string_lossy())).collect();
    (goto, avail)
}

#[test]
fn a_module_opened_and_closed_before_the_scan_is_indexed_like_any_other() {
    let tmp = tempfile::tempdir().unwrap();
    let ws = tmp.path().canonicalize().unwrap().join("ws");
    let sp = ws.join(".venv/lib/python3.12/site-packages");
    // the project itself is installed editable and registers a pytest11 plugin
    write(&ws.join("pa/__init__.py"), "");
    write(&ws.join("pa/plugin.py"), "import pytest\npytest_plugins = [\"pa.more\"]\n\n@pytest.fixture\ndef px():\n    return 1\n");
    let more = ws.join("pa/more.py");
    write(&more, "import pytest\n\n@pytest.fixture\ndef px():\n    return 3\n");
    write(&sp.join("pa-0.1.0.dist-info/entry_points.txt"), "[pytest11]\npa = pa.plugin\n");
    write(&sp.join("pa-0.1.0.dist-info/direct_url.json"), &format!("{{\"url\": \"file://{}\", \"dir_info\": {{\"editable\": true}}}}", ws.display()));
    write(&sp.join("pa.pth"), &format!("{}\n", ws.display()));
    let test = ws.join("tests/test_w.py");
    write(&test, "def test_w(px):\n    pass\n");
    let more_text = fs::read_to_string(&more).unwrap();

    // A: plain scan
    let a = FixtureDatabase::new();
    a.scan_workspace(&ws);
    let a = answers(&a, &test);

    // B: didOpen(pa/more.py) + didClose(pa/more.py) are handled before the scan starts
    let b = FixtureDatabase::new();
    b.document_opened(&more);
    b.analyze_file(more.clone(), &more_text);
    b.document_closed(&more);
    b.cleanup_file_cache(&more);
    b.scan_workspace(&ws);
    let flags: Vec<bool> = b.definitions.get("px").unwrap().iter().filter(|d| d.file_path == more).map(|d| d.is_plugin).collect();
    let b = answers(&b, &test);

    println!("scan                      : goto(px)={:?} available={:?}", a.0, a.1);
    println!("open, close, then the scan: goto(px)={:?} available={:?}  (is_plugin of px in pa/more.py={:?})", b.0, b.1, flags);
    assert_eq!(a, b);
}
