//! C08 hunt 1: `is_third_party` is a snapshot taken when a file is analysed. A module of an
//! editable install that lives outside the workspace is third-party - but only once phase 3
//! of the scan has discovered the editable installs. When the editor's didOpen for that
//! module is handled while the scan is still in phases 1-2 (the common start-up order: the
//! editor re-announces its open tabs right after `initialized`), the module is indexed with
//! is_third_party=false, and phase 4 skips it because "the index has it already".
//! Same workspace, same document, same text: different answers.
use pytest_language_server::FixtureDatabase;
use std::fs;
use std::path::Path;

fn write(p: &Path, s: &str) {
    fs::create_dir_all(p.parent().unwrap()).unwrap();
    fs::write(p, s).unwrap();
}

fn answers(db: &FixtureDatabase, test: &Path) -> (Option<String>, Vec<String>, Vec<bool>) {
    // go-to-definition on `inner_fx` in `def test_w(ext_only, inner_fx):`
    let goto = db
        .find_fixture_definition(test, 0, 22)
        .map(|d| format!("{}:{}", d.file_path.file_name().unwrap().to_string_lossy(), d.line));
    let mut avail: Vec<String> = db.get_available_fixtures(test).into_iter().map(|d| d.name).collect();
    avail.sort();
    let flags = db.definitions.get("inner_fx").map(|d| d.iter().map(|d| d.is_third_party).collect()).unwrap_or_default();
    (goto, avail, flags)
}

#[test]
fn did_open_before_or_after_the_scan_gives_the_same_answers() {
    let tmp = tempfile::tempdir().unwrap();
    let base = tmp.path().canonicalize().unwrap();
    let ws = base.join("ws");
    let sp = ws.join(".venv/lib/python3.12/site-packages");
    // an editable install whose sources are outside the workspace, with a pytest11 plugin
    write(&base.join("ext/extpkg/__init__.py"), "");
    write(&base.join("ext/extpkg/plugin.py"), "import pytest\nfrom extpkg.inner import inner_fx\n\n@pytest.fixture\ndef ext_only(inner_fx):\n    return 1\n");
    let inner = base.join("ext/extpkg/inner.py");
    write(&inner, "import pytest\n\n@pytest.fixture\ndef inner_fx():\n    return 1\n");
    write(&sp.join("extpkg-1.0.dist-info/entry_points.txt"), "[pytest11]\nextpkg = extpkg.plugin\n");
    write(&sp.join("extpkg-1.0.dist-info/direct_url.json"), &format!("{{\"url\": \"file://{}/ext\", \"dir_info\": {{\"editable\": true}}}}", base.display()));
    write(&sp.join("__editable__.extpkg-1.0.pth"), &format!("{}/ext\n", base.display()));
    let test = ws.join("tests/test_w.py");
    write(&test, "def test_w(ext_only, inner_fx):\n    pass\n");
    let inner_text = fs::read_to_string(&inner).unwrap();

    // schedule A: the scan runs, then the editor's didOpen(inner.py) is handled
    let a = FixtureDatabase::new();
    a.scan_workspace(&ws);
    a.document_opened(&inner);
    a.analyze_file(inner.clone(), &inner_text);
    let a = answers(&a, &test);

    // schedule B: didOpen(inner.py) is handled first (the scan is in its walk), then the scan
    let b = FixtureDatabase::new();
    b.document_opened(&inner);
    b.analyze_file(inner.clone(), &inner_text);
    b.scan_workspace(&ws);
    let b = answers(&b, &test);

    println!("scan, then didOpen : goto={:?} available={:?} inner_fx.is_third_party={:?}", a.0, a.1, a.2);
    println!("didOpen, then scan : goto={:?} available={:?} inner_fx.is_third_party={:?}", b.0, b.1, b.2);
    assert_eq!(a, b, "answers depend on whether the notification or the scan analysed inner.py first");
}
