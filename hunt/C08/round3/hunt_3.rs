//! C08 hunt 3: the public library query `FixtureDatabase::resolve_fixture_for_file` falls back
//! to "the first definition" of the name (and takes the first registered plugin / third-party
//! definition): the answer is decided by the order in which the files were analysed - in the
//! rayon scan, by thread timing.
use pytest_language_server::FixtureDatabase;
use std::collections::BTreeMap;
use std::fs;

#[test]
fn resolve_fixture_for_file_is_independent_of_the_analysis_order() {
    let tmp = tempfile::tempdir().unwrap();
    let ws = tmp.path().canonicalize().unwrap();
    let a = ws.join("a/conftest.py");
    let b = ws.join("b/conftest.py");
    let test = ws.join("c/test_x.py");
    for d in ["a", "b", "c"] {
        fs::create_dir_all(ws.join(d)).unwrap();
    }
    fs::write(&a, "import pytest\n\n@pytest.fixture\ndef db():\n    return 'a'\n").unwrap();
    fs::write(&b, "import pytest\n\n@pytest.fixture\ndef db():\n    return 'b'\n").unwrap();
    fs::write(&test, "def test_x(db):\n    pass\n").unwrap();
    let files = [&a, &b, &test];

    // (1) the two orders in which the two conftest files can be analysed
    let mut answers = Vec::new();
    for order in [[0usize, 1, 2], [1, 0, 2]] {
        let db = FixtureDatabase::new();
        for i in order {
            db.analyze_file(files[i].clone(), &fs::read_to_string(files[i]).unwrap());
        }
        let lib = db.resolve_fixture_for_file(&test, "db").map(|d| d.file_path.strip_prefix(&ws).unwrap().to_path_buf());
        let goto = db.find_fixture_definition(&test, 0, 11).map(|d| d.file_path.strip_prefix(&ws).unwrap().to_path_buf());
        println!("analysis order {:?}: resolve_fixture_for_file -> {:?}   (go-to-definition -> {:?})", order, lib, goto);
        answers.push(lib);
    }

    // (2) the real parallel scan, repeated: the schedule picks the answer
    let mut seen: BTreeMap<String, usize> = BTreeMap::new();
    for i in 0..200 {
        let pool = rayon::ThreadPoolBuilder::new().num_threads(2 + i % 3).build().unwrap();
        let db = FixtureDatabase::new();
        pool.install(|| db.scan_workspace(&ws));
        let lib = db.resolve_fixture_for_file(&test, "db").map(|d| d.file_path.strip_prefix(&ws).unwrap().display().to_string());
        *seen.entry(format!("{:?}", lib)).or_default() += 1;
    }
    println!("200 scans of the same workspace: {:?}", seen);

    assert_eq!(answers[0], answers[1], "the answer depends on which conftest.py was registered first");
    assert_eq!(seen.len(), 1, "the answer differs between scans of the same workspace");
}
