#!/usr/bin/env python3
"""C08 hunt 5, real binary over stdio, separate processes.

Workspace with colliding fixture names: `thing` is defined in 12 sibling conftest.py
files, and the root conftest's `shared` is used by 12 test files. For each server
process: initialize, wait for "Workspace scan complete", then ask workspace/symbol
(query "thing") and textDocument/references on `shared`. The answers are printed as the
ordered list of directories; the property demands one single answer over all runs.
"""
import json, os, subprocess, sys, tempfile, pathlib, shutil

BIN = os.environ.get("BIN", "/tmp/wt/h_C08/target/debug/pytest-language-server")


def make_ws():
    ws = pathlib.Path(tempfile.mkdtemp()).resolve()
    (ws / "conftest.py").write_text("import pytest\n\n\n@pytest.fixture\ndef shared():\n    return 1\n")
    for i in range(12):
        d = ws / f"pkg{i:02}"
        d.mkdir()
        (d / "conftest.py").write_text("import pytest\n\n\n@pytest.fixture\ndef thing():\n    return 1\n")
        (d / f"test_m{i:02}.py").write_text("def test_x(shared, thing):\n    pass\n")
    return ws


class Lsp:
    def __init__(self, env):
        self.p = subprocess.Popen([BIN], stdin=subprocess.PIPE, stdout=subprocess.PIPE,
                                  stderr=subprocess.DEVNULL, env=env)
        self.id = 0

    def send(self, msg):
        body = json.dumps(msg).encode()
        self.p.stdin.write(b"Content-Length: %d\r\n\r\n" % len(body) + body)
        self.p.stdin.flush()

    def read(self):
        length = None
        while True:
            line = self.p.stdout.readline()
            if not line:
                raise EOFError
            line = line.strip()
            if not line:
                break
            if line.lower().startswith(b"content-length:"):
                length = int(line.split(b":")[1])
        return json.loads(self.p.stdout.read(length))

    def request(self, method, params):
        self.id += 1
        self.send({"jsonrpc": "2.0", "id": self.id, "method": method, "params": params})
        while True:
            m = self.read()
            if m.get("id") == self.id and "method" not in m:
                return m.get("result")

    def wait_log(self, text):
        while True:
            m = self.read()
            if m.get("method") == "window/logMessage" and text in m["params"]["message"]:
                return


def one_run(ws, threads):
    env = dict(os.environ)
    if threads:
        env["RAYON_NUM_THREADS"] = str(threads)
    s = Lsp(env)
    s.send({"jsonrpc": "2.0", "id": 0, "method": "initialize",
            "params": {"processId": None, "rootUri": ws.as_uri(), "capabilities": {}}})
    s.send({"jsonrpc": "2.0", "method": "initialized", "params": {}})
    s.wait_log("Workspace scan complete")
    syms = s.request("workspace/symbol", {"query": "thing"}) or []
    sym_order = [pathlib.Path(x["location"]["uri"]).parent.name for x in syms]
    refs = s.request("textDocument/references", {
        "textDocument": {"uri": (ws / "conftest.py").as_uri()},
        "position": {"line": 4, "character": 6},
        "context": {"includeDeclaration": True}}) or []
    ref_order = [pathlib.Path(x["uri"]).parent.name for x in refs[1:]]
    s.request("shutdown", None)
    s.send({"jsonrpc": "2.0", "method": "exit"})
    try:
        s.p.wait(timeout=5)
    except Exception:
        s.p.kill()
    return tuple(sym_order), tuple(ref_order)


def main():
    ws = make_ws()
    try:
        sym_answers, ref_answers = {}, {}
        for threads in (1, 1, 4, 4, 16, 16, None, None):
            sym, ref = one_run(ws, threads)
            assert len(sym) == 12 and len(ref) == 12, (sym, ref)
            sym_answers.setdefault(sym, []).append(threads)
            ref_answers.setdefault(ref, []).append(threads)
        short = lambda t: " ".join(x[3:] for x in t)
        print(f"workspace/symbol 'thing': {len(sym_answers)} distinct ordered answers over 8 server runs")
        for a, t in sym_answers.items():
            print(f"  RAYON_NUM_THREADS={t}: {short(a)}")
        print(f"textDocument/references 'shared': {len(ref_answers)} distinct ordered answers over 8 server runs")
        for a, t in ref_answers.items():
            print(f"  RAYON_NUM_THREADS={t}: {short(a)}")
        ok = len(sym_answers) == 1 and len(ref_answers) == 1
        print("PASS" if ok else "FAIL: the answer of the same query on the same workspace differs between runs")
        sys.exit(0 if ok else 1)
    finally:
        shutil.rmtree(ws, ignore_errors=True)


if __name__ == "__main__":
    main()
