#!/usr/bin/env python3
"""hunt_3: after a scan of more than 2000 files a quarter of the cached texts is evicted in
DashMap iteration order (random per process, src/fixtures/mod.rs evict_cache_if_needed), and
callHierarchy/outgoingCalls reads the text cache directly (providers/call_hierarchy.rs:264
`self.fixture_db.file_cache.get(file_path)?`).  The `fromRanges` of the same request on the
same workspace therefore differ from one server process to the next.

usage: python3 hunt_3.py [path-to-binary]
"""
import json, os, subprocess, sys, tempfile, threading, queue, pathlib, shutil

BIN = sys.argv[1] if len(sys.argv) > 1 else os.path.join(
    os.path.dirname(os.path.abspath(__file__)), "target/debug/pytest-language-server")


class Lsp:
    def __init__(self, root):
        env = dict(os.environ)
        env.pop("VIRTUAL_ENV", None)
        self.p = subprocess.Popen([BIN], stdin=subprocess.PIPE, stdout=subprocess.PIPE,
                                  stderr=subprocess.DEVNULL, env=env)
        self.q = queue.Queue()
        self.id = 0
        threading.Thread(target=self._reader, daemon=True).start()
        self.root = root

    def _reader(self):
        f = self.p.stdout
        while True:
            n = None
            while True:
                line = f.readline()
                if not line:
                    self.q.put(None)
                    return
                line = line.strip()
                if not line:
                    break
                if line.lower().startswith(b"content-length:"):
                    n = int(line.split(b":")[1])
            self.q.put(json.loads(f.read(n)))

    def send(self, obj):
        b = json.dumps(obj).encode()
        self.p.stdin.write(b"Content-Length: %d\r\n\r\n" % len(b) + b)
        self.p.stdin.flush()

    def notify(self, method, params):
        self.send({"jsonrpc": "2.0", "method": method, "params": params})

    def request(self, method, params):
        self.id += 1
        self.send({"jsonrpc": "2.0", "id": self.id, "method": method, "params": params})
        return self.wait(lambda m: m.get("id") == self.id and "method" not in m)["result"]

    def wait(self, pred, timeout=120):
        while True:
            m = self.q.get(timeout=timeout)
            if m is None:
                raise RuntimeError("server closed the stream")
            if "method" in m and "id" in m:  # server -> client request: answer it
                self.send({"jsonrpc": "2.0", "id": m["id"], "result": None})
            if pred(m):
                return m

    def start(self):
        self.request("initialize", {"processId": None, "rootUri": self.root.as_uri(),
                                    "capabilities": {}})
        self.notify("initialized", {})
        self.wait(lambda m: m.get("method") == "window/logMessage"
                  and "scan complete" in m["params"]["message"])

    def stop(self):
        try:
            self.request("shutdown", None)
            self.notify("exit", None)
        except Exception:
            pass
        self.p.kill()


def main():
    tmp = pathlib.Path(tempfile.mkdtemp(prefix="hunt3_")).resolve()
    try:
        (tmp / "conftest.py").write_text(
            "import pytest\n\n\n@pytest.fixture\ndef base():\n    return 1\n\n\n"
            "@pytest.fixture\ndef derived(base):\n    return base\n")
        for i in range(2100):
            d = tmp / ("pkg%02d" % (i // 100))
            d.mkdir(exist_ok=True)
            (d / ("test_m%04d.py" % i)).write_text("def test_x(derived):\n    pass\n")
        test = tmp / "pkg00" / "test_m0000.py"

        answers = {}
        for run in range(24):
            s = Lsp(tmp)
            s.start()
            s.notify("textDocument/didOpen", {"textDocument": {
                "uri": test.as_uri(), "languageId": "python", "version": 1,
                "text": test.read_text()}})
            items = s.request("textDocument/prepareCallHierarchy", {
                "textDocument": {"uri": test.as_uri()},
                "position": {"line": 0, "character": 12}})
            out = s.request("callHierarchy/outgoingCalls", {"item": items[0]})
            s.stop()
            key = json.dumps([c["fromRanges"] for c in out], sort_keys=True)
            answers.setdefault(key, []).append(run)
            print("run %2d: outgoingCalls(derived).fromRanges = %s" % (run, key), flush=True)
            if len(answers) > 1 and run >= 7:
                break
        print()
        for k, runs in answers.items():
            print("%d run(s): %s" % (len(runs), k))
        if len(answers) > 1:
            print("FAIL: the same request on the same workspace has %d different answers" % len(answers))
            sys.exit(1)
        print("ok: one answer")
    finally:
        shutil.rmtree(tmp, ignore_errors=True)


main()
