//! hunt_2: the public resolution query `FixtureDatabase::resolve_fixture_for_file` answers
//! with "the first" definition in registration order:
//!   - Priority 3 `.find(|d| d.is_plugin && !d.is_third_party)`  (resolver.rs:1882)
//!   - Priority 4 `.find(|d| d.is_third_party)`                  (resolver.rs:1890)
//!   - fallback   `definitions.first()`                          (resolver.rs:1895)
//! Registration order is decided by the rayon schedule (workspace walk) or by the iteration
//! order of a randomly seeded HashSet (import scan, scanner.rs:433 `for module_path in &new_modules`).

use pytest_language_server::FixtureDatabase;
use std::collections::BTreeSet;
use std::fs;

fn write(p: &std::path::Path, s: &str) {
    fs::create_dir_all(p.parent().unwrap()).unwrap();
    fs::write(p, s).unwrap();
}

/// Two modules of one workspace plugin define `dup`; both are star-imported by the plugin
/// module, so both are plugin fixtures and `dup` is legitimately available everywhere.
#[test]
fn plugin_fixture_resolution_does_not_depend_on_registration_order() {
    let tmp = tempfile::tempdir().unwrap();
    let ws = tmp.path().canonicalize().unwrap();
    let sp = ws.join(".venv/lib/python3.11/site-packages");
    write(
        &sp.join("myplug-1.0.dist-info/direct_url.json"),
        r#"{"url": "file:///x", "dir_info": {"editable": true}}"#,
    );
    write(
        &sp.join("myplug-1.0.dist-info/entry_points.txt"),
        "[pytest11]\nmyplug = myplug.plugin\n",
    );
    write(
        &sp.join("__editable__.myplug-1.0.pth"),
        &format!("{}\n", ws.join("src").display()),
    );
    write(&ws.join("src/myplug/__init__.py"), "");
    write(
        &ws.join("src/myplug/plugin.py"),
        "from .fix_a import *\nfrom .fix_b import *\n",
    );
    for m in ["fix_a", "fix_b"] {
        write(
            &ws.join(format!("src/myplug/{m}.py")),
            "import pytest\n\n@pytest.fixture\ndef dup():\n    return 1\n",
        );
    }
    let test_file = ws.join("tests/test_t.py");
    write(&test_file, "def test_x(dup):\n    pass\n");

    let mut api: BTreeSet<String> = BTreeSet::new();
    let mut goto: BTreeSet<String> = BTreeSet::new();
    for _ in 0..64 {
        let db = FixtureDatabase::new();
        db.scan_workspace(&ws);
        let r = db
            .resolve_fixture_for_file(&test_file, "dup")
            .map(|d| d.file_path.file_name().unwrap().to_string_lossy().to_string());
        api.insert(format!("{r:?}"));
        let g = db
            .find_fixture_definition(&test_file, 0, 11)
            .map(|d| d.file_path.file_name().unwrap().to_string_lossy().to_string());
        goto.insert(format!("{g:?}"));
    }
    eprintln!("find_fixture_definition  -> {goto:?}");
    eprintln!("resolve_fixture_for_file -> {api:?}");
    assert_eq!(goto.len(), 1, "go-to-definition is stable (location order)");
    assert_eq!(
        api.len(),
        1,
        "resolve_fixture_for_file gave different answers on identical scans: {api:?}"
    );
}

/// The fallback: 60 test modules each define `shared`; asked from an unrelated file the API
/// returns whichever module a rayon worker registered first.
#[test]
fn fallback_resolution_does_not_depend_on_thread_schedule() {
    let tmp = tempfile::tempdir().unwrap();
    let ws = tmp.path().canonicalize().unwrap();
    for i in 0..60 {
        write(
            &ws.join(format!("pkg{i:02}/test_m{i:02}.py")),
            "import pytest\n\n@pytest.fixture\ndef shared():\n    return 1\n\ndef test_it(shared):\n    pass\n",
        );
    }
    let other = ws.join("other/test_other.py");
    write(&other, "def test_x(shared):\n    pass\n");

    let mut api: BTreeSet<String> = BTreeSet::new();
    for _ in 0..40 {
        let db = FixtureDatabase::new();
        db.scan_workspace(&ws);
        assert!(db.find_fixture_definition(&other, 0, 11).is_none());
        let r = db
            .resolve_fixture_for_file(&other, "shared")
            .map(|d| d.file_path.file_name().unwrap().to_string_lossy().to_string());
        api.insert(format!("{r:?}"));
    }
    eprintln!("resolve_fixture_for_file(other, shared) -> {api:?}");
    assert_eq!(api.len(), 1, "answers differ between identical scans: {api:?}");
}
