//! hunt_1: which of two matching `.pth` files gives the source root of an editable install
//! is decided by the iteration order of a randomly seeded std HashMap
//! (scanner.rs, find_editable_pth_source_root: `for (stem, pth_path) in pth_index`).
//! The set of plugin fixtures the scan finds therefore changes from scan to scan / run to run.

use pytest_language_server::FixtureDatabase;
use std::collections::BTreeSet;
use std::fs;

fn write(p: &std::path::Path, s: &str) {
    fs::create_dir_all(p.parent().unwrap()).unwrap();
    fs::write(p, s).unwrap();
}

#[test]
fn editable_source_root_does_not_depend_on_hash_seed() {
    let tmp = tempfile::tempdir().unwrap();
    let ws = tmp.path().canonicalize().unwrap();
    let sp = ws.join(".venv/lib/python3.11/site-packages");

    // one editable distribution `mypkg` with a pytest11 entry point
    write(
        &sp.join("mypkg-0.2.dist-info/direct_url.json"),
        r#"{"url": "file:///somewhere", "dir_info": {"editable": true}}"#,
    );
    write(
        &sp.join("mypkg-0.2.dist-info/entry_points.txt"),
        "[pytest11]\nmypkg = mypkg.plugin\n",
    );
    // the current .pth of the install, and a stale one that an earlier editable install
    // (other version / other build backend) left behind; both match the candidates
    // `__editable__.mypkg` (+ "-<digit>...") and `_mypkg`
    let new_root = ws.join("checkout_new");
    let old_root = ws.join("checkout_old");
    write(
        &sp.join("__editable__.mypkg-0.2.pth"),
        &format!("{}\n", new_root.display()),
    );
    write(&sp.join("_mypkg.pth"), &format!("{}\n", old_root.display()));

    write(
        &new_root.join("mypkg/plugin.py"),
        "import pytest\n\n@pytest.fixture\ndef new_fix():\n    return 1\n",
    );
    write(&new_root.join("mypkg/__init__.py"), "");
    write(
        &old_root.join("mypkg/plugin.py"),
        "import pytest\n\n@pytest.fixture\ndef old_fix():\n    return 1\n",
    );
    write(&old_root.join("mypkg/__init__.py"), "");

    let test_file = ws.join("test_x.py");
    write(&test_file, "def test_a(new_fix, old_fix):\n    pass\n");

    let mut outcomes: BTreeSet<String> = BTreeSet::new();
    for _ in 0..64 {
        let db = FixtureDatabase::new();
        db.scan_workspace(&ws);
        let mut names: Vec<String> = db
            .get_available_fixtures(&test_file)
            .into_iter()
            .map(|d| d.name)
            .collect();
        names.sort();
        let goto_new = db
            .find_fixture_definition(&test_file, 0, 11)
            .map(|d| d.file_path.strip_prefix(&ws).unwrap().display().to_string());
        let goto_old = db
            .find_fixture_definition(&test_file, 0, 20)
            .map(|d| d.file_path.strip_prefix(&ws).unwrap().display().to_string());
        outcomes.insert(format!(
            "available={:?} goto(new_fix)={:?} goto(old_fix)={:?}",
            names, goto_new, goto_old
        ));
    }
    for o in &outcomes {
        eprintln!("outcome: {o}");
    }
    assert_eq!(
        outcomes.len(),
        1,
        "64 scans of the same workspace gave {} different answer sheets",
        outcomes.len()
    );
}
