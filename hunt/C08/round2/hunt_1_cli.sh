#!/bin/sh
# hunt_1 (CLI variant): the `fixtures list` report of one unchanged directory differs between
# process runs, because the source root of the editable install is taken from whichever
# matching .pth file a randomly seeded HashMap yields first.
# usage: sh hunt_1_cli.sh [path-to-binary]
BIN=${1:-$(dirname "$0")/target/debug/pytest-language-server}
BIN=$(readlink -f "$BIN")
WS=$(mktemp -d)
trap 'rm -rf "$WS"' EXIT
cd "$WS" || exit 2
python3 - <<'PY'
import pathlib
ws = pathlib.Path(".").resolve()
def w(p, s):
    p = ws / p; p.parent.mkdir(parents=True, exist_ok=True); p.write_text(s)
sp = ".venv/lib/python3.11/site-packages/"
w(sp+"mypkg-0.2.dist-info/direct_url.json", '{"url":"file:///x","dir_info":{"editable":true}}')
w(sp+"mypkg-0.2.dist-info/entry_points.txt", "[pytest11]\nmypkg = mypkg.plugin\n")
w(sp+"__editable__.mypkg-0.2.pth", str(ws/"checkout_new")+"\n")   # current install
w(sp+"_mypkg.pth", str(ws/"checkout_old")+"\n")                    # stale leftover
for n in ("new", "old"):
    w(f"checkout_{n}/mypkg/__init__.py", "")
    w(f"checkout_{n}/mypkg/plugin.py", f"import pytest\n\n@pytest.fixture\ndef {n}_fix():\n    return 1\n")
w("test_x.py", "def test_a(new_fix, old_fix):\n    pass\n")
PY
for i in 1 2 3 4 5 6 7 8 9 10 11 12 13 14 15 16; do
  NO_COLOR=1 "$BIN" fixtures list . 2>/dev/null | tail -n +3 | tr '\n' ' ' | sed 's/  */ /g'; echo
done | sort | uniq -c > report.txt
cat report.txt
[ "$(wc -l < report.txt)" -eq 1 ] && { echo "ok: one report"; exit 0; }
echo "FAIL: 16 runs of 'fixtures list' on the same directory printed $(wc -l < report.txt) different reports"; exit 1
