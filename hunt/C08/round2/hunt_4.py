#!/usr/bin/env python3
"""hunt_4: list-valued answers are emitted in index order, which is the registration order
decided by the rayon schedule (Vec order inside `definitions[name]` / `usage_by_fixture[name]`)
or the iteration order of randomly seeded maps (DashMap `definitions`, std HashSet
`file_definitions[file]`).  workspace/symbol sorts by name only, so the order among the
same-named definitions (the colliding-names case of the property) is the registration order;
textDocument/references, textDocument/codeLens, callHierarchy/incomingCalls and the
scope-mismatch diagnostics are not sorted at all.

usage: python3 hunt_4.py [path-to-binary]
"""
import json, os, subprocess, sys, tempfile, threading, queue, pathlib, shutil

BIN = sys.argv[1] if len(sys.argv) > 1 else os.path.join(
    os.path.dirname(os.path.abspath(__file__)), "target/debug/pytest-language-server")


class Lsp:
    def __init__(self, root):
        env = dict(os.environ)
        env.pop("VIRTUAL_ENV", None)
        self.p = subprocess.Popen([BIN], stdin=subprocess.PIPE, stdout=subprocess.PIPE,
                                  stderr=subprocess.DEVNULL, env=env)
        self.q = queue.Queue()
        self.id = 0
        threading.Thread(target=self._reader, daemon=True).start()
        self.root = root

    def _reader(self):
        f = self.p.stdout
        while True:
            n = None
            while True:
                line = f.readline()
                if not line:
                    self.q.put(None)
                    return
                line = line.strip()
                if not line:
                    break
                if line.lower().startswith(b"content-length:"):
                    n = int(line.split(b":")[1])
            self.q.put(json.loads(f.read(n)))

    def send(self, obj):
        b = json.dumps(obj).encode()
        self.p.stdin.write(b"Content-Length: %d\r\n\r\n" % len(b) + b)
        self.p.stdin.flush()

    def notify(self, method, params):
        self.send({"jsonrpc": "2.0", "method": method, "params": params})

    def request(self, method, params):
        self.id += 1
        self.send({"jsonrpc": "2.0", "id": self.id, "method": method, "params": params})
        return self.wait(lambda m: m.get("id") == self.id and "method" not in m)["result"]

    def wait(self, pred, timeout=120):
        while True:
            m = self.q.get(timeout=timeout)
            if m is None:
                raise RuntimeError("server closed the stream")
            if "method" in m and "id" in m:  # server -> client request: answer it
                self.send({"jsonrpc": "2.0", "id": m["id"], "result": None})
            if pred(m):
                return m

    def start(self):
        self.request("initialize", {"processId": None, "rootUri": self.root.as_uri(),
                                    "capabilities": {}})
        self.notify("initialized", {})
        self.wait(lambda m: m.get("method") == "window/logMessage"
                  and "scan complete" in m["params"]["message"])

    def stop(self):
        try:
            self.request("shutdown", None)
            self.notify("exit", None)
        except Exception:
            pass
        self.p.kill()


def main():
    tmp = pathlib.Path(tempfile.mkdtemp(prefix="hunt4_")).resolve()
    try:
        # colliding name `dup` in 12 sibling conftest.py files, many tests using the root one
        (tmp / "conftest.py").write_text(
            "import pytest\n\n\n@pytest.fixture\ndef dup():\n    return 0\n\n\n"
            + "".join("@pytest.fixture\ndef fx%d():\n    return %d\n\n\n" % (i, i) for i in range(8))
            + "@pytest.fixture\ndef narrow():\n    return 0\n\n\n"
            + "".join("@pytest.fixture(scope=\"session\")\ndef wide%d(narrow):\n    return %d\n\n\n" % (i, i)
                      for i in range(6)))
        for i in range(12):
            d = tmp / ("pkg%02d" % i)
            d.mkdir()
            (d / "conftest.py").write_text("import pytest\n\n\n@pytest.fixture\ndef dup():\n    return %d\n" % i)
        for i in range(40):
            d = tmp / ("use%02d" % i)
            d.mkdir()
            (d / ("test_u%02d.py" % i)).write_text("def test_x(dup, fx0):\n    pass\n")
        conftest = tmp / "conftest.py"

        names = ["workspace/symbol(dup)", "references(dup @ root conftest)",
                 "codeLens(root conftest)", "scope-mismatch diagnostics(root conftest)",
                 "incomingCalls(dup @ root conftest)"]
        seen = {k: {} for k in names}
        canon = {k: set() for k in names}
        for run in range(12):
            s = Lsp(tmp)
            s.start()
            s.notify("textDocument/didOpen", {"textDocument": {
                "uri": conftest.as_uri(), "languageId": "python", "version": 1,
                "text": conftest.read_text()}})
            diag = s.wait(lambda m: m.get("method") == "textDocument/publishDiagnostics")
            res = {}
            res["scope-mismatch diagnostics(root conftest)"] = [
                d["message"] for d in diag["params"]["diagnostics"]]
            sym = s.request("workspace/symbol", {"query": "dup"})
            res["workspace/symbol(dup)"] = [
                x["location"]["uri"].rsplit("/", 2)[-2] for x in sym]
            refs = s.request("textDocument/references", {
                "textDocument": {"uri": conftest.as_uri()},
                "position": {"line": 4, "character": 5},
                "context": {"includeDeclaration": True}})
            res["references(dup @ root conftest)"] = [
                r["uri"].rsplit("/", 1)[-1] + ":%d" % r["range"]["start"]["line"] for r in refs]
            lens = s.request("textDocument/codeLens", {"textDocument": {"uri": conftest.as_uri()}})
            res["codeLens(root conftest)"] = [l["range"]["start"]["line"] for l in lens]
            items = s.request("textDocument/prepareCallHierarchy", {
                "textDocument": {"uri": conftest.as_uri()},
                "position": {"line": 4, "character": 5}})
            inc = s.request("callHierarchy/incomingCalls", {"item": items[0]})
            res["incomingCalls(dup @ root conftest)"] = [
                c["from"]["uri"].rsplit("/", 1)[-1] for c in inc]
            s.stop()
            for k, v in res.items():
                seen[k].setdefault(json.dumps(v), []).append(run)
                canon[k].add(json.dumps(sorted(v, key=str)))
            print("run %d done" % run, flush=True)
        bad = 0
        print()
        for k, v in seen.items():
            print("%-45s %2d different raw answers in 12 runs; %d different after sorting" % (
                k, len(v), len(canon[k])))
            for ans in list(v)[:2]:
                print("      e.g. " + (ans if len(ans) < 150 else ans[:150] + " ..."))
            bad += len(v) > 1
        if bad:
            print("FAIL: %d of %d queries answered differently on identical workspaces" % (bad, len(seen)))
            sys.exit(1)
        print("ok")
    finally:
        shutil.rmtree(tmp, ignore_errors=True)


main()
