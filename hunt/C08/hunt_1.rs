//! C08 hunt 1: two installed pytest plugins provide a fixture with the same name through a
//! helper module (`plugin.py` does `from .fixtures import *`, the pytest-django layout).
//! The helper modules are discovered by the import scan (phase 4 of `scan_workspace`),
//! which analyses newly found modules in the iteration order of a randomly seeded
//! `HashSet`; resolution then takes "the first" third-party definition in the index.
//! Scanning the very same workspace again therefore sends go-to-definition to a
//! different plugin.
//!
//! ROOT CAUSE  src/fixtures/scanner.rs:306 (`new_modules: HashSet<PathBuf>`) and :412-424 (the
//!   modules are analysed in that set's iteration order; the worklist itself comes from
//!   `self.file_cache.iter()`, :260-280) decide the order of the two entries of
//!   `definitions["shared_resource"]`; src/fixtures/resolver.rs:289-297 (priority 4,
//!   third-party), :274-282 (priority 3, plugins) and :574-596 (compute_available_fixtures)
//!   take the first matching entry of that Vec.
//! CLAUSE      squarely covered: "No answer depends on which of several same-named definitions
//!   happened to be registered first"; quantifier "repeated process runs (hash-seed dependent
//!   iteration) ... workspaces with colliding fixture names"; resolution, available fixtures, CLI.
//! FIX         choose independently of registration order, e.g. in priorities 3/4 and in
//!   compute_available_fixtures `.filter(..).min_by(|a, b| (&a.file_path, a.line).cmp(&(&b.file_path, b.line)))`;
//!   and sort `new_modules` before the analysis loop.
//! OBSERVED    CARGO_NET_OFFLINE=true cargo test --offline --test hunt_1
//!   go-to-definition answers over 24 scans: {"plug_alpha/fixtures.py", "plug_beta/fixtures.py"}
//!   available-fixture docstrings over 24 scans: {"from plug_alpha", "from plug_beta"}
//!   test result: FAILED. 0 passed; 1 failed
//!   ./hunt_1_cli.sh (12 processes of `fixtures list`): 2 distinct reports, "used 1 time" on
//!   plug_alpha in 8 runs and on plug_beta in 4 runs.

use pytest_language_server::FixtureDatabase;
use std::collections::BTreeSet;
use std::fs;
use std::path::Path;

fn write(p: &Path, s: &str) {
    fs::create_dir_all(p.parent().unwrap()).unwrap();
    fs::write(p, s).unwrap();
}

fn make_plugin(site_packages: &Path, name: &str) {
    write(
        &site_packages
            .join(format!("{name}-1.0.dist-info"))
            .join("entry_points.txt"),
        &format!("[pytest11]\n{name} = {name}.plugin\n"),
    );
    write(&site_packages.join(name).join("__init__.py"), "");
    write(
        &site_packages.join(name).join("plugin.py"),
        "from .fixtures import *  # noqa\n",
    );
    write(
        &site_packages.join(name).join("fixtures.py"),
        &format!(
            "import pytest\n\n\n@pytest.fixture\ndef shared_resource() -> str:\n    \"\"\"from {name}\"\"\"\n    return \"{name}\"\n"
        ),
    );
}

#[test]
fn same_workspace_scanned_again_resolves_to_the_same_plugin() {
    let tmp = tempfile::tempdir().unwrap();
    let root = tmp.path().canonicalize().unwrap();
    let sp = root.join(".venv/lib/python3.11/site-packages");
    make_plugin(&sp, "plug_alpha");
    make_plugin(&sp, "plug_beta");
    let test_file = root.join("test_use.py");
    write(&test_file, "def test_x(shared_resource):\n    pass\n");

    let mut goto_answers = BTreeSet::new();
    let mut available_answers = BTreeSet::new();
    for _ in 0..24 {
        let db = FixtureDatabase::new();
        db.scan_workspace(&root);
        // cursor on `shared_resource` in `def test_x(shared_resource):`
        let def = db
            .find_fixture_definition(&test_file, 0, 13)
            .expect("the fixture is provided by two installed plugins");
        goto_answers.insert(def.file_path.strip_prefix(&sp).unwrap().to_path_buf());
        let avail = db
            .get_available_fixtures(&test_file)
            .into_iter()
            .find(|d| d.name == "shared_resource")
            .unwrap();
        available_answers.insert(avail.docstring.unwrap_or_default());
    }
    println!("go-to-definition answers over 24 scans: {goto_answers:?}");
    println!("available-fixture docstrings over 24 scans: {available_answers:?}");
    assert_eq!(
        goto_answers.len(),
        1,
        "the same workspace resolved `shared_resource` to different definitions: {goto_answers:?}"
    );
    assert_eq!(available_answers.len(), 1);
}
