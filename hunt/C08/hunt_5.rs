//! C08 hunt 5: answers that expose the registration order of same-named definitions /
//! usages directly. Pure permutations of the per-file analysis order, no threads.
//!
//! (a) `resolve_fixture_for_file` (public library API) ends with
//!     `definitions.first().cloned()`: for a file that has no definition of the name in
//!     scope it returns whichever same-named definition was registered first.
//! (b) `find_references_for_definition` (behind textDocument/references, incoming calls)
//!     returns the usages in registration order, and nothing downstream sorts them.
//!
//! ROOT CAUSE  (a) src/fixtures/resolver.rs:1761-1762 `// Fallback: first definition`.
//!   (b) resolver.rs:419 walks `usage_by_fixture[name]` in registration order, :376 walks the
//!   `usages` DashMap; src/providers/workspace_symbol.rs:71 sorts by name only (stable, so
//!   same-named symbols keep registration order); references.rs, call_hierarchy.rs (incoming
//!   calls) and code_lens.rs:24 emit those sequences unsorted.
//! CLAUSE      (a) literally "No answer depends on which of several same-named definitions
//!   happened to be registered first", but the server never calls resolve_fixture_for_file
//!   (library API only) - adjacent in practice. (b) covered ("references ... symbols", "thread
//!   schedule", "process run") if an answer is the ordered list the client receives; adjacent
//!   if answers are compared as sets (the set of locations is stable).
//! FIX         (a) return None instead of the fallback. (b) sort symbols by (name, uri, line),
//!   references by (file_path, line, start_char), code lenses by line.
//! OBSERVED    CARGO_NET_OFFLINE=true cargo test --offline --test hunt_5
//!   order a,b: Some(".../a/test_a.py")   order b,a: Some(".../b/test_b.py")
//!   order a,b: ["test_a.py", "test_b.py"]   order b,a: ["test_b.py", "test_a.py"]
//!   test result: FAILED. 0 passed; 2 failed
//!   python3 hunt_5_lsp.py (real binary over stdio, 8 processes, RAYON_NUM_THREADS 1/4/16/default):
//!   workspace/symbol 'thing': 7 distinct ordered answers; textDocument/references 'shared': 7.

use pytest_language_server::FixtureDatabase;
use std::fs;
use std::path::Path;

fn write(p: &Path, s: &str) {
    fs::create_dir_all(p.parent().unwrap()).unwrap();
    fs::write(p, s).unwrap();
}

const FIX: &str = "import pytest\n\n\n@pytest.fixture\ndef thing():\n    return 1\n\n\ndef test_local(thing):\n    pass\n";
const USER: &str = "def test_c(thing):\n    pass\n";

#[test]
fn resolve_fixture_for_file_does_not_depend_on_registration_order() {
    let tmp = tempfile::tempdir().unwrap();
    let root = tmp.path().canonicalize().unwrap();
    let a = root.join("a/test_a.py");
    let b = root.join("b/test_b.py");
    let c = root.join("c/test_c.py");
    write(&a, FIX);
    write(&b, FIX);
    write(&c, USER);

    let db1 = FixtureDatabase::new();
    db1.analyze_file(a.clone(), FIX);
    db1.analyze_file(b.clone(), FIX);
    db1.analyze_file(c.clone(), USER);

    let db2 = FixtureDatabase::new();
    db2.analyze_file(b.clone(), FIX);
    db2.analyze_file(a.clone(), FIX);
    db2.analyze_file(c.clone(), USER);

    let r1 = db1.resolve_fixture_for_file(&c, "thing").map(|d| d.file_path);
    let r2 = db2.resolve_fixture_for_file(&c, "thing").map(|d| d.file_path);
    println!("order a,b: {r1:?}\norder b,a: {r2:?}");
    assert_eq!(r1, r2);
}

#[test]
fn references_are_listed_in_the_same_order_whatever_the_analysis_order() {
    let tmp = tempfile::tempdir().unwrap();
    let root = tmp.path().canonicalize().unwrap();
    let conftest = root.join("conftest.py");
    let a = root.join("test_a.py");
    let b = root.join("test_b.py");
    let conf_src = "import pytest\n\n\n@pytest.fixture\ndef thing():\n    return 1\n";
    write(&conftest, conf_src);
    write(&a, USER);
    write(&b, USER);

    let refs = |order: [&Path; 2]| -> Vec<String> {
        let db = FixtureDatabase::new();
        db.analyze_file(conftest.clone(), conf_src);
        for p in order {
            db.analyze_file(p.to_path_buf(), USER);
        }
        let def = db.get_definition_at_line(&conftest, 5, "thing").unwrap();
        db.find_references_for_definition(&def)
            .into_iter()
            .map(|u| u.file_path.file_name().unwrap().to_string_lossy().into_owned())
            .collect()
    };
    let r1 = refs([&a, &b]);
    let r2 = refs([&b, &a]);
    println!("order a,b: {r1:?}\norder b,a: {r2:?}");
    assert_eq!(r1, r2);
}
