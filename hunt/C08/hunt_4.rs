//! C08 hunt 4: a workspace-local pytest plugin (editable install, `pytest11` entry point)
//! whose fixtures are spread over modules chained with star imports:
//!
//!   plugin.py  -> from .layer_a import *
//!   layer_a.py -> from .core import *
//!   core.py    -> from .db import *          (db.py defines the fixture `db_conn`)
//!
//! and a conftest.py that imports a plain helper from `myplugin.core`.
//!
//! "Plugin" status is propagated through star imports by the import scan (phase 4 of
//! `scan_workspace`), but each file is processed once and reads its own status at that
//! moment. `layer_a.py` and `core.py` are discovered in the same round and processed in
//! the iteration order of a randomly seeded `HashSet`: if `core.py` comes first it is not
//! yet a plugin module, so `db.py` is never marked and `db_conn` is unknown to the tests;
//! if `layer_a.py` comes first, `db_conn` is a plugin fixture available everywhere.
//!
//! ROOT CAUSE  src/fixtures/scanner.rs:308-312 (each file processed once, `processed_files`),
//!   :317 (`importer_is_plugin` read at that moment), :346-357 (status pushed to star-imported
//!   modules), rounds iterated in HashSet order (:306, :427). `core.py` visited before
//!   `layer_a.py` is not a plugin yet -> `db.py` not marked; `layer_a.py` then marks `core.py`
//!   (re-analysed) but `core.py` is already processed, so the status never reaches `db.py`.
//! CLAUSE      covered: "in a new process - yields identical answers to every query: resolution,
//!   ..., available fixtures, ..., CLI reports"; "repeated process runs (hash-seed dependent
//!   iteration)". Not about same-named definitions.
//! FIX         propagate to a fixpoint: a module newly inserted into `plugin_fixture_files` that is
//!   already in `processed_files` is removed from it and queued for the next round; iterate
//!   rounds in sorted order.
//! OBSERVED    CARGO_NET_OFFLINE=true cargo test --offline --test hunt_4
//!   (None, [false], false)  and  (Some(("src/myplugin/db.py", 5)), [true], true) over 24 scans
//!   test result: FAILED. 0 passed; 1 failed
//!   ./hunt_4_cli.sh (12 processes of `fixtures unused --format json`):
//!     5 exit=0 report=[]      7 exit=1 report=[{"file":"src/myplugin/db.py","fixture":"db_conn"}]

use pytest_language_server::FixtureDatabase;
use std::collections::BTreeSet;
use std::fs;
use std::path::Path;

fn write(p: &Path, s: &str) {
    fs::create_dir_all(p.parent().unwrap()).unwrap();
    fs::write(p, s).unwrap();
}

#[test]
fn plugin_fixture_is_resolved_the_same_way_on_every_scan() {
    let tmp = tempfile::tempdir().unwrap();
    let root = tmp.path().canonicalize().unwrap();
    let sp = root.join(".venv/lib/python3.11/site-packages");
    write(
        &sp.join("myplugin-0.1.dist-info/entry_points.txt"),
        "[pytest11]\nmyplugin = myplugin.plugin\n",
    );
    write(
        &sp.join("myplugin-0.1.dist-info/direct_url.json"),
        &format!(
            "{{\"url\": \"file://{}\", \"dir_info\": {{\"editable\": true}}}}",
            root.display()
        ),
    );
    write(
        &sp.join("__editable__.myplugin-0.1.pth"),
        &format!("{}\n", root.join("src").display()),
    );
    write(&root.join("src/myplugin/__init__.py"), "");
    write(
        &root.join("src/myplugin/plugin.py"),
        "from .layer_a import *  # noqa\n",
    );
    write(
        &root.join("src/myplugin/layer_a.py"),
        "from .core import *  # noqa\n",
    );
    write(
        &root.join("src/myplugin/core.py"),
        "from .db import *  # noqa\n\n\ndef helper():\n    return 42\n",
    );
    write(
        &root.join("src/myplugin/db.py"),
        "import pytest\n\n\n@pytest.fixture\ndef db_conn():\n    return 1\n",
    );
    write(
        &root.join("tests/conftest.py"),
        "from myplugin.core import helper  # noqa\n",
    );
    let test_file = root.join("tests/test_x.py");
    write(&test_file, "def test_x(db_conn):\n    pass\n");

    let mut answers = BTreeSet::new();
    for _ in 0..24 {
        let db = FixtureDatabase::new();
        db.scan_workspace(&root);
        let goto = db
            .find_fixture_definition(&test_file, 0, 12)
            .map(|d| (d.file_path.strip_prefix(&root).unwrap().to_path_buf(), d.line));
        let is_plugin: Vec<bool> = db
            .definitions
            .get("db_conn")
            .map(|v| v.iter().map(|d| d.is_plugin).collect())
            .unwrap_or_default();
        let completes = db
            .get_available_fixtures(&test_file)
            .iter()
            .any(|d| d.name == "db_conn");
        answers.insert((goto, is_plugin, completes));
    }
    println!("(go-to-definition, is_plugin of db_conn, offered in completion) over 24 scans:");
    for a in &answers {
        println!("  {a:?}");
    }
    assert_eq!(answers.len(), 1, "answers differ between scans: {answers:?}");
}
