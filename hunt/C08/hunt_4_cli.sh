#!/usr/bin/env bash
# C08 hunt 4, real binary, separate processes: `fixtures unused` (the CI check) on the
# workspace of hunt_4 (workspace-local editable plugin, fixtures chained by star imports).
# Prints exit code + report of 12 process runs; the property demands one single answer.
set -uo pipefail
BIN="${BIN:-/tmp/wt/h_C08/target/debug/pytest-language-server}"
WS="$(mktemp -d)"
trap 'rm -rf "$WS"' EXIT
SP="$WS/.venv/lib/python3.11/site-packages"
mkdir -p "$SP/myplugin-0.1.dist-info" "$WS/src/myplugin" "$WS/tests"
printf '[pytest11]\nmyplugin = myplugin.plugin\n' > "$SP/myplugin-0.1.dist-info/entry_points.txt"
printf '{"url": "file://%s", "dir_info": {"editable": true}}' "$WS" > "$SP/myplugin-0.1.dist-info/direct_url.json"
printf '%s/src\n' "$WS" > "$SP/__editable__.myplugin-0.1.pth"
: > "$WS/src/myplugin/__init__.py"
printf 'from .layer_a import *  # noqa\n' > "$WS/src/myplugin/plugin.py"
printf 'from .core import *  # noqa\n' > "$WS/src/myplugin/layer_a.py"
printf 'from .db import *  # noqa\n\n\ndef helper():\n    return 42\n' > "$WS/src/myplugin/core.py"
printf 'import pytest\n\n\n@pytest.fixture\ndef db_conn():\n    return 1\n' > "$WS/src/myplugin/db.py"
printf 'from myplugin.core import helper  # noqa\n' > "$WS/tests/conftest.py"
printf 'def test_x(db_conn):\n    pass\n' > "$WS/tests/test_x.py"

for i in $(seq 1 12); do
  out="$(NO_COLOR=1 "$BIN" fixtures unused "$WS" --format json 2>&1)"; rc=$?
  echo "exit=$rc report=$(echo "$out" | tr -d '\n ' )"
done | sort | uniq -c
