#!/usr/bin/env python3
"""hunt_1: per-file view (completion / inlay hints) is stale after didClose of a conftest
whose unsaved buffer differed from disk in its imports; go-to-definition / hover are not.

History: conftest.py on disk has `from .helpers import *`. The user opens it, deletes
that line (unsaved), looks at test_a.py (inlay hints / completion are computed and cached
per file), then closes conftest.py WITHOUT saving (the import is therefore still there).
"""
import sys
import tempfile
from lspdrv import Lsp, write_tree, loc

CONFTEST_DISK = "import pytest\nfrom .helpers import *\n"
CONFTEST_BUFFER = "import pytest\n"
HELPERS = "import pytest\n\n@pytest.fixture\ndef helper_fx() -> int:\n    return 1\n"
TEST = "def test_a(helper_fx):\n    pass\n\ndef test_b():\n    pass\n"

with tempfile.TemporaryDirectory() as root:
    write_tree(root, {"conftest.py": CONFTEST_DISK, "helpers.py": HELPERS, "__init__.py": "", "test_a.py": TEST})
    ct, ta = f"{root}/conftest.py", f"{root}/test_a.py"
    s = Lsp(root)
    s.did_open(ta, TEST)
    s.did_open(ct, CONFTEST_DISK)
    s.did_change(ct, CONFTEST_BUFFER)  # unsaved edit removes the star import

    d1 = loc(s.definition(ta, 0, 12))
    i1 = [(h["position"]["character"], h["label"]) for h in (s.inlay(ta) or [])]
    c1 = sorted(i["label"] for i in (s.completion(ta, 3, 11) or []))
    print("while the conftest buffer lacks the import:")
    print("  definition :", d1)
    print("  inlay hints:", i1)
    print("  completion :", c1)

    s.did_close(ct)  # discard the unsaved edit: the disk version still has the import

    d2 = loc(s.definition(ta, 0, 12))
    h2 = s.hover(ta, 0, 12)
    i2 = [(h["position"]["character"], h["label"]) for h in (s.inlay(ta) or [])]
    c2 = sorted(i["label"] for i in (s.completion(ta, 3, 11) or []))
    print("after didClose(conftest.py) without saving:")
    print("  definition :", d2)
    print("  hover      :", h2)
    print("  inlay hints:", i2)
    print("  completion :", c2)
    s.close()

    view_has = bool(i2) or ("helper_fx" in c2)
    nav_has = d2 is not None
    if view_has != nav_has:
        print("FAIL: per-file view (completion/inlay) and go-to-definition disagree on helper_fx")
        sys.exit(1)
    print("ok")
