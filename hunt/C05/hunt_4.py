#!/usr/bin/env python3
"""hunt_4: a fixture whose name is not a Python identifier (legal via name=, usable via
usefixtures: @pytest.fixture(name="db-main")). At its usage position inlay hints and the
completion entry describe the fixture, go-to-definition / hover / implementation /
call hierarchy find nothing at ANY column of the usage.

Position-based resolution requires `usage.name == word under the cursor`, and the word is
cut at every non [alnum_] character, so it can never equal "db-main".
"""
import sys
import tempfile
from lspdrv import Lsp, write_tree, loc

CONF = ("import pytest\n\n@pytest.fixture(name='db-main')\ndef db_main() -> int:\n    return 1\n\n"
        "@pytest.fixture\ndef plain() -> str:\n    return ''\n")
TEST = ("import pytest\n\n@pytest.mark.usefixtures('plain', 'db-main')\ndef test_c():\n    pass\n\n"
        "@pytest.mark.usefixtures()\ndef test_d():\n    pass\n")

with tempfile.TemporaryDirectory() as root:
    write_tree(root, {"conftest.py": CONF, "test_c.py": TEST})
    t = f"{root}/test_c.py"
    s = Lsp(root)
    s.did_open(t, TEST)
    line = TEST.splitlines()[2]
    print("line 2:", line)
    found = {}
    for col in range(len(line)):
        d = loc(s.definition(t, 2, col))
        h = s.hover(t, 2, col)
        i = loc(s.implementation(t, 2, col))
        c = s.prepare_call_hierarchy(t, 2, col)
        if d or h or i or c:
            found[col] = (line[col], d, bool(h), i, bool(c))
    for col, v in found.items():
        print("  col", col, v)
    hints = [(h["position"]["character"], h["label"], h["tooltip"]) for h in s.inlay(t)]
    print("  inlay hints:", hints)
    comp = {i["label"]: i["documentation"]["value"] for i in s.completion(t, 6, len("@pytest.mark.usefixtures("))}
    print("  completion inside usefixtures(|):", sorted(comp))
    print("  completion entry 'db-main':", repr(comp.get("db-main")))
    s.close()

    start = line.index("db-main")
    nav = any(start <= col < start + len("db-main") for col in found)
    described = any("db-main" in tip for (_, _, tip) in hints) or "db-main" in comp
    if described and not nav:
        print("FAIL: inlay hint / completion describe fixture 'db-main' at its usage, "
              "definition/hover/implementation/callHierarchy return nothing on every column of it")
        sys.exit(1)
    print("ok")
