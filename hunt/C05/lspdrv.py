"""Minimal LSP stdio client used by the hunt_*.py demonstrations.

Drives the REAL binary (target/debug/pytest-language-server) of this worktree.
"""
import json
import os
import subprocess
import threading
import queue
import pathlib

HERE = pathlib.Path(__file__).resolve().parent
BINARY = os.environ.get("PLS_BIN", str(HERE / "target" / "debug" / "pytest-language-server"))


def uri(path):
    return pathlib.Path(path).resolve().as_uri()


class Lsp:
    def __init__(self, root):
        self.root = str(pathlib.Path(root).resolve())
        self.p = subprocess.Popen(
            [BINARY], stdin=subprocess.PIPE, stdout=subprocess.PIPE, stderr=subprocess.DEVNULL
        )
        self.next_id = 0
        self.responses = {}
        self.cv = threading.Condition()
        self.logs = queue.Queue()
        self.t = threading.Thread(target=self._reader, daemon=True)
        self.t.start()
        self.request(
            "initialize",
            {
                "processId": None,
                "rootUri": uri(self.root),
                "workspaceFolders": [{"uri": uri(self.root), "name": "ws"}],
                "capabilities": {},
            },
        )
        self.notify("initialized", {})
        # wait for the background scan
        while True:
            msg = self.logs.get(timeout=60)
            if "Workspace scan complete" in msg:
                break

    def _send(self, obj):
        data = json.dumps(obj).encode("utf-8")
        self.p.stdin.write(b"Content-Length: %d\r\n\r\n" % len(data) + data)
        self.p.stdin.flush()

    def _reader(self):
        out = self.p.stdout
        while True:
            length = None
            while True:
                line = out.readline()
                if not line:
                    return
                line = line.strip()
                if not line:
                    break
                if line.lower().startswith(b"content-length:"):
                    length = int(line.split(b":")[1])
            body = json.loads(out.read(length))
            if "id" in body and "method" in body:
                # server -> client request (e.g. workspace/inlayHint/refresh): answer null
                self._send({"jsonrpc": "2.0", "id": body["id"], "result": None})
            elif "id" in body:
                with self.cv:
                    self.responses[body["id"]] = body
                    self.cv.notify_all()
            elif body.get("method") == "window/logMessage":
                self.logs.put(body["params"]["message"])

    def request(self, method, params):
        self.next_id += 1
        rid = self.next_id
        self._send({"jsonrpc": "2.0", "id": rid, "method": method, "params": params})
        with self.cv:
            while rid not in self.responses:
                if not self.cv.wait(timeout=30):
                    raise TimeoutError(method)
            resp = self.responses.pop(rid)
        if "error" in resp:
            raise RuntimeError(resp["error"])
        return resp.get("result")

    def notify(self, method, params):
        self._send({"jsonrpc": "2.0", "method": method, "params": params})

    # -- document sync ---------------------------------------------------
    def did_open(self, path, text, version=1):
        self.notify(
            "textDocument/didOpen",
            {"textDocument": {"uri": uri(path), "languageId": "python", "version": version, "text": text}},
        )

    def did_change(self, path, text, version=2):
        self.notify(
            "textDocument/didChange",
            {"textDocument": {"uri": uri(path), "version": version}, "contentChanges": [{"text": text}]},
        )

    def did_close(self, path):
        self.notify("textDocument/didClose", {"textDocument": {"uri": uri(path)}})

    # -- features --------------------------------------------------------
    def _pos(self, path, line, ch):
        return {"textDocument": {"uri": uri(path)}, "position": {"line": line, "character": ch}}

    def definition(self, path, line, ch):
        return self.request("textDocument/definition", self._pos(path, line, ch))

    def hover(self, path, line, ch):
        return self.request("textDocument/hover", self._pos(path, line, ch))

    def implementation(self, path, line, ch):
        return self.request("textDocument/implementation", self._pos(path, line, ch))

    def prepare_call_hierarchy(self, path, line, ch):
        return self.request("textDocument/prepareCallHierarchy", self._pos(path, line, ch))

    def outgoing(self, item):
        return self.request("callHierarchy/outgoingCalls", {"item": item})

    def completion(self, path, line, ch):
        return self.request("textDocument/completion", self._pos(path, line, ch))

    def inlay(self, path, start_line=0, end_line=1000):
        return self.request(
            "textDocument/inlayHint",
            {
                "textDocument": {"uri": uri(path)},
                "range": {
                    "start": {"line": start_line, "character": 0},
                    "end": {"line": end_line, "character": 0},
                },
            },
        )

    def close(self):
        try:
            self.request("shutdown", None)
            self.notify("exit", None)
        except Exception:
            pass
        try:
            self.p.wait(timeout=3)
        except Exception:
            self.p.kill()


def write_tree(root, files):
    for rel, text in files.items():
        p = pathlib.Path(root) / rel
        p.parent.mkdir(parents=True, exist_ok=True)
        p.write_text(text, encoding="utf-8")


def loc(result):
    """Normalise a definition/implementation result to (basename, line) or None."""
    if not result:
        return None
    if isinstance(result, list):
        result = result[0]
    return (os.path.basename(result["uri"]), result["range"]["start"]["line"])
