#!/usr/bin/env python3
"""hunt_5: unparsable intermediate version. While the document does not parse the server
keeps the usages of the last version that did. Position-based features validate them
against the CURRENT text (word under cursor must equal the stale usage name) and answer
nothing; inlay hints do not validate and print the stale types behind whatever parameter
now stands at the stale columns - i.e. the type of a different fixture.
"""
import sys
import tempfile
from lspdrv import Lsp, write_tree, loc

CONF = ("import pytest\n\n@pytest.fixture\ndef aa() -> int:\n    return 1\n\n"
        "@pytest.fixture\ndef bb() -> str:\n    return ''\n")
V1 = "def test_a(aa, bb):\n    pass\n"
V2 = "def test_a(bb, aa):\n    pass\n\nx = (\n"   # parameters swapped + an unfinished line further down

with tempfile.TemporaryDirectory() as root:
    write_tree(root, {"conftest.py": CONF, "test_c.py": V1})
    t = f"{root}/test_c.py"
    s = Lsp(root)
    s.did_open(t, V1)
    s.did_change(t, V2)
    print("current text line 0:", V2.splitlines()[0])
    res = {}
    for col in (11, 15):
        res[col] = (loc(s.definition(t, 0, col)), bool(s.hover(t, 0, col)))
        print(f"  col {col} ({V2[col:col+2]}): definition={res[col][0]} hover={res[col][1]}")
    hints = {h["position"]["character"]: h["label"] for h in s.inlay(t)}
    print("  inlay hints:", hints, "-> rendered as: def test_a(bb%s, aa%s):" % (hints.get(13, ""), hints.get(17, "")))
    s.close()
    if hints.get(13) == ": int" and res[11][0] is None:
        print("FAIL: inlay hint says `bb: int` (type of fixture aa); definition/hover on that `bb` say nothing; "
              "completion/hover (when parsable) say bb -> str")
        sys.exit(1)
    print("ok")
