//! hunt_1 (public-API variant of hunt_1.py): the cached per-file view
//! (`get_available_fixtures`, used by completion and inlay hints) is not invalidated by
//! `cleanup_file_cache` (= textDocument/didClose), although closing a document changes the
//! text its imports are read from (buffer -> disk). Go-to-definition is not cached.
use pytest_language_server::FixtureDatabase;
use std::fs;

#[test]
fn view_and_definition_agree_after_closing_conftest_without_saving() {
    let dir = tempfile::tempdir().unwrap();
    let root = dir.path().canonicalize().unwrap();
    let conftest = root.join("conftest.py");
    let helpers = root.join("helpers.py");
    let test = root.join("test_a.py");
    let conftest_disk = "import pytest\nfrom .helpers import *\n";
    let conftest_buffer = "import pytest\n"; // unsaved edit: import removed
    let test_src = "def test_a(helper_fx):\n    pass\n";
    fs::write(&conftest, conftest_disk).unwrap();
    fs::write(root.join("__init__.py"), "").unwrap();
    fs::write(
        &helpers,
        "import pytest\n\n@pytest.fixture\ndef helper_fx() -> int:\n    return 1\n",
    )
    .unwrap();
    fs::write(&test, test_src).unwrap();

    let db = FixtureDatabase::new();
    db.scan_workspace(&root);

    // didOpen + didChange of conftest.py: the buffer no longer has the import
    db.analyze_file(conftest.clone(), conftest_disk);
    db.analyze_file(conftest.clone(), conftest_buffer);

    // the editor asks for inlay hints / completion in test_a.py -> view computed and cached
    let view = db.get_available_fixtures(&test);
    assert!(view.iter().all(|d| d.name != "helper_fx"));
    assert!(db.find_fixture_definition(&test, 0, 12).is_none());

    // didClose(conftest.py) without saving: the disk version (with the import) is current again
    db.cleanup_file_cache(&conftest);

    let nav = db.find_fixture_definition(&test, 0, 12);
    let view = db.get_available_fixtures(&test);
    let in_view = view.iter().find(|d| d.name == "helper_fx").cloned();
    assert_eq!(
        nav, in_view,
        "go-to-definition resolves helper_fx to {:?}, the per-file view used by completion/inlay hints has {:?}",
        nav.as_ref().map(|d| (&d.file_path, d.line)),
        in_view.as_ref().map(|d| (&d.file_path, d.line)),
    );
}
