#!/usr/bin/env python3
"""hunt_3: inside a fixture that overrides its parent under an alias
(@pytest.fixture(name="db") def _db_override(...)), the completion entry `db` describes the
overriding fixture itself, whereas go-to-definition / hover / inlay hint / outgoing calls for
the very parameter this completion inserts describe the parent fixture (conftest.py).

Completion excludes "the fixture being edited" by FUNCTION name, resolution excludes it by
FIXTURE name.
"""
import sys
import tempfile
from lspdrv import Lsp, write_tree, loc

CONFTEST = "import pytest\n\n@pytest.fixture\ndef db() -> int:\n    return 1\n"
BEFORE = (
    "import pytest\n\n"
    "@pytest.fixture(name=\"db\")\n"
    "def _db_override() -> str:\n"
    "    return 'wrapped'\n"
    "\n"
    "def test_uses(db):\n"
    "    pass\n"
)
AFTER = BEFORE.replace("def _db_override()", "def _db_override(db)")

with tempfile.TemporaryDirectory() as root:
    write_tree(root, {"conftest.py": CONFTEST, "test_o.py": BEFORE})
    t = f"{root}/test_o.py"
    s = Lsp(root)
    s.did_open(t, BEFORE)
    # cursor between the parentheses of `def _db_override(|)`
    items = s.completion(t, 3, 17) or []
    db_items = [i for i in items if i["label"] == "db"]
    print("completion labels inside _db_override(|):", sorted(i["label"] for i in items))
    comp_doc = db_items[0]["documentation"]["value"] if db_items else None
    print("completion entry `db` documentation:", repr(comp_doc))

    # accept the completion
    s.did_change(t, AFTER)
    d = loc(s.definition(t, 3, 17))
    h = s.hover(t, 3, 17)
    hov_doc = h["contents"]["value"] if h else None
    hints = [(x["position"]["character"], x["label"]) for x in (s.inlay(t) or [])]
    # call hierarchy: prepare on the usage in test_uses -> the override; its outgoing call `db`
    item = (s.prepare_call_hierarchy(t, 6, 14) or [None])[0]
    out = [(c["to"]["uri"].rsplit("/", 1)[1], c["to"]["selectionRange"]["start"]["line"]) for c in (s.outgoing(item) or [])] if item else None
    print("after inserting it -> def _db_override(db):")
    print("  definition     :", d)
    print("  hover          :", repr(hov_doc))
    print("  inlay hints    :", hints)
    print("  outgoing calls :", out)
    s.close()

    if comp_doc is not None and comp_doc != hov_doc:
        print("FAIL: completion entry `db` and hover/definition of the inserted parameter describe different definitions")
        sys.exit(1)
    print("ok")
