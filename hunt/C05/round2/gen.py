#!/usr/bin/env python3
"""Random workspace generator for the C05 cross-feature comparison."""
import random

NAMES = ["fa", "fb", "fc", "fd"]


class Gen:
    def __init__(self, seed):
        self.r = random.Random(seed)
        self.n = 0
        self.t = 0

    def nid(self):
        self.n += 1
        return self.n

    def params(self, own=None, allow_self=True):
        r = self.r
        pool = list(NAMES)
        k = r.choice([0, 1, 1, 2, 3])
        ps = r.sample(pool, k)
        if own and allow_self and r.random() < 0.35 and own not in ps:
            ps.append(own)
        return ps

    def sig(self, ps, first=None):
        r = self.r
        parts = []
        items = list(ps)
        style = r.choice(["plain", "plain", "kwonly", "posonly", "default", "annot", "multi"])
        if style == "kwonly" and items:
            cut = r.randrange(len(items) + 1)
            items = items[:cut] + ["*"] + items[cut:]
            if items[-1] == "*":
                items.pop()
        elif style == "posonly" and items:
            cut = r.randrange(1, len(items) + 1)
            items = items[:cut] + ["/"] + items[cut:]
        elif style == "default":
            extra = r.choice([n for n in NAMES if n not in ps] or ["zz"])
            items = items + [extra + "=None"]
        elif style == "annot" and items:
            i = r.randrange(len(items))
            items[i] = items[i] + ": int"
        if first:
            items = [first] + items
        if style == "multi" and items:
            return "(\n    " + ",\n    ".join(items) + ",\n)"
        return "(" + ", ".join(items) + ")"

    def fixture(self, name, indent=""):
        r = self.r
        i = self.nid()
        ps = self.params(own=name)
        deco_args = []
        func = name
        if r.random() < 0.15:
            func = f"impl_{i}"
            deco_args.append(f'name="{name}"')
        if r.random() < 0.2:
            deco_args.append('scope="%s"' % r.choice(["session", "module", "function"]))
        deco = "@pytest.fixture" + ("(" + ", ".join(deco_args) + ")" if deco_args or r.random() < 0.2 else "")
        kw = "async def" if r.random() < 0.15 else "def"
        lines = []
        if r.random() < 0.1:
            lines.append('@pytest.mark.usefixtures("%s")' % r.choice(NAMES))
        lines.append(deco)
        lines.append(f"{kw} {func}{self.sig(ps)} -> T{i}:")
        lines.append(f'    """ID{i}"""')
        lines.append(f"    return T{i}()")
        return "\n".join(indent + l for l in lines) + "\n"

    def test(self, indent="", method=False):
        r = self.r
        self.t += 1
        ps = self.params()
        lines = []
        if r.random() < 0.25:
            lines.append('@pytest.mark.usefixtures(%s)' % ", ".join('"%s"' % n for n in r.sample(NAMES, r.choice([1, 2]))))
        kw = "async def" if r.random() < 0.15 else "def"
        lines.append(f"{kw} test_{self.t}{self.sig(ps, first='self' if method else None)}:")
        lines.append("    pass")
        return "\n".join(indent + l for l in lines) + "\n"

    def imports(self, candidates):
        """candidates: list of (relative_spelling, absolute_spelling) of helper modules."""
        r = self.r
        out = []
        for rel, ab in candidates:
            if r.random() < 0.5:
                continue
            mod = r.choice([rel, ab]) if rel else ab
            kind = r.choice(["star", "star", "names", "plugins"])
            if kind == "star":
                stmt = f"from {mod} import *"
            elif kind == "names":
                stmt = f"from {mod} import " + ", ".join(r.sample(NAMES, r.choice([1, 2])))
            else:
                if mod.startswith("."):
                    mod = ab
                stmt = 'pytest_plugins = ["%s"]' % mod
            if r.random() < 0.2 and not stmt.startswith("pytest_plugins"):
                stmt = "try:\n    " + stmt + "\nexcept ImportError:\n    pass"
            out.append(stmt)
        r.shuffle(out)
        return "\n".join(out) + ("\n" if out else "")

    def module(self, kind, candidates):
        r = self.r
        parts = ["import pytest\n"]
        items = []
        nfix = {"conftest": r.choice([0, 1, 2, 3]), "helper": r.choice([1, 2, 3, 4]), "test": r.choice([0, 0, 1, 2])}[kind]
        for _ in range(nfix):
            items.append(("fx", r.choice(NAMES)))
        if kind == "test":
            for _ in range(r.choice([1, 2, 3])):
                items.append(("test", None))
            if r.random() < 0.3:
                items.append(("class", None))
        imp = self.imports(candidates)
        pos = r.choice(["top", "top", "mid", "bottom"])
        r.shuffle(items)
        body = []
        for k, n in items:
            if k == "fx":
                body.append(self.fixture(n))
            elif k == "test":
                body.append(self.test())
            else:
                self.t += 1
                cls = f"class Test{self.t}:\n" + "\n".join(self.test("    ", True) for _ in range(r.choice([1, 2])))
                body.append(cls)
        if kind == "test" and r.random() < 0.15:
            body.insert(0, 'pytestmark = pytest.mark.usefixtures("%s")\n' % r.choice(NAMES))
        if pos == "top" or not body:
            body.insert(0, imp)
        elif pos == "mid":
            body.insert(len(body) // 2, imp)
        else:
            body.append(imp)
        return "\n".join(parts + body) + "\n"

    def workspace(self):
        r = self.r
        files = {}
        inits = r.random() < 0.6
        helpers = {
            "pkg/fx_a.py": (".fx_a", "pkg.fx_a"),
            "pkg/fx_b.py": (".fx_b", "pkg.fx_b"),
            "common/fx_c.py": (None, "common.fx_c"),
        }
        # helper modules may import each other (cycles allowed)
        for path, (rel, ab) in helpers.items():
            others = [(hr if path.startswith("pkg/") and hp.startswith("pkg/") else None, ha)
                      for hp, (hr, ha) in helpers.items() if hp != path]
            files[path] = self.module("helper", [o for o in others if r.random() < 0.4])
        def cands(dirname):
            out = []
            for hp, (hr, ha) in helpers.items():
                if dirname == "pkg" and hp.startswith("pkg/"):
                    out.append((hr, ha))
                elif dirname == "pkg/sub" and hp.startswith("pkg/"):
                    out.append(("." + hr, ha))
                else:
                    out.append((None, ha))
            return out
        for d in ["", "pkg", "pkg/sub", "other"]:
            pre = d + "/" if d else ""
            if r.random() < 0.8:
                files[pre + "conftest.py"] = self.module("conftest", cands(d))
            files[pre + f"test_{d.replace('/', '_') or 'root'}.py"] = self.module("test", cands(d) if r.random() < 0.4 else [])
            if inits and d:
                files[pre + "__init__.py"] = ""
        if inits:
            files["common/__init__.py"] = ""
        return files


if __name__ == "__main__":
    import sys
    g = Gen(int(sys.argv[1]))
    for k, v in g.workspace().items():
        print("=====", k)
        print(v)
