#!/usr/bin/env python3
"""History fuzzer: random edits / unparsable versions / open / close / save, cross-feature check after each step."""
import sys, tempfile, shutil, os, pathlib, random
from gen import Gen
from lspdrv import write_tree, Server
import xcheck

def kind_of(rel):
    b = os.path.basename(rel)
    return "conftest" if b == "conftest.py" else ("test" if b.startswith("test_") else "helper")

def run(seed, steps=12):
    base = os.path.join(os.path.dirname(os.path.abspath(__file__)), "scratch"); os.makedirs(base, exist_ok=True)
    d = str(pathlib.Path(tempfile.mkdtemp(prefix=f"h_{seed}_", dir=base)).resolve())
    g = Gen(seed)
    files = g.workspace()
    write_tree(d, files)
    r = random.Random(seed * 7919)
    srv = Server(d)
    openbuf = {}
    log = []
    problems = []
    pyfiles = [f for f in files if files[f]]
    try:
        for step in range(steps):
            rel = r.choice(pyfiles)
            p = os.path.join(d, rel)
            op = r.choice(["edit", "edit", "break", "close", "save", "open", "diskedit"])
            if op == "edit":
                # reuse same import candidates: regenerate module of same kind w/o imports knowledge
                cands = [(None, "pkg.fx_a"), (None, "pkg.fx_b"), (None, "common.fx_c")]
                if rel.startswith("pkg/") and rel.count("/") == 1:
                    cands = [(".fx_a", "pkg.fx_a"), (".fx_b", "pkg.fx_b"), (None, "common.fx_c")]
                if kind_of(rel) == "helper":
                    cands = [c for c in cands if c[1].split(".")[-1] + ".py" != os.path.basename(rel)]
                text = g.module(kind_of(rel), cands)
                if rel in openbuf: srv.change(p, text)
                else: srv.open(p, text)
                openbuf[rel] = text
            elif op == "break":
                cur = openbuf.get(rel, open(p).read())
                text = "def broken(:\n" + cur if r.random() < 0.5 else cur + "\ndef broken(:\n"
                if rel in openbuf: srv.change(p, text)
                else: srv.open(p, text)
                openbuf[rel] = text
            elif op == "close":
                if rel in openbuf:
                    # save first so that the known unsaved-close case is avoided
                    open(p, "w").write(openbuf[rel]); srv.close(p); del openbuf[rel]
            elif op == "save":
                if rel in openbuf: open(p, "w").write(openbuf[rel])
            elif op == "open":
                if rel not in openbuf:
                    openbuf[rel] = open(p).read(); srv.open(p, openbuf[rel])
            elif op == "diskedit":
                continue
            log.append((op, rel))
            ids = xcheck.index_ids(d)
            # ids from buffers: write buffers to a shadow? simpler: only trust IDs of saved files;
            # save all parsable buffers to disk so ids are right (history op 'save')
            for orel, otext in openbuf.items():
                try:
                    compile(otext, orel, "exec")
                    open(os.path.join(d, orel), "w").write(otext)
                except SyntaxError:
                    pass
            ids = xcheck.index_ids(d)
            def report(path, where, msg):
                problems.append((step, list(log), os.path.relpath(path, d), where, msg))
            for crel in pyfiles:
                ctext = openbuf.get(crel)
                if ctext is not None:
                    try: compile(ctext, crel, "exec")
                    except SyntaxError: continue
                    xcheck.check_file(srv, d, os.path.join(d, crel), ids, report, text=ctext, is_open=True)
                    srv.change(os.path.join(d, crel), ctext)
                else:
                    xcheck.check_file(srv, d, os.path.join(d, crel), ids, report)
            if problems:
                break
    finally:
        srv.stop()
    return d, problems

if __name__ == "__main__":
    lo, hi = int(sys.argv[1]), int(sys.argv[2])
    for seed in range(lo, hi):
        try:
            d, problems = run(seed)
        except Exception as e:
            import traceback; traceback.print_exc(); print(seed, "ERROR", e); continue
        print(f"seed {seed}: {len(problems)} disagreements ({d})")
        for p in problems[:8]:
            print("    ", p[0], p[1][-4:], p[2:], sep=" | ")
        if not problems:
            shutil.rmtree(d)
