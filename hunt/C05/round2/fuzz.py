#!/usr/bin/env python3
import sys, tempfile, shutil, os, pathlib
from gen import Gen
from lspdrv import write_tree
import xcheck
os.makedirs(os.path.join(os.path.dirname(os.path.abspath(__file__)), "scratch"), exist_ok=True)
lo, hi = int(sys.argv[1]), int(sys.argv[2])
for seed in range(lo, hi):
    d = tempfile.mkdtemp(prefix=f"c05_{seed}_", dir=os.path.join(os.path.dirname(os.path.abspath(__file__)), "scratch"))
    write_tree(d, Gen(seed).workspace())
    try:
        n, problems = xcheck.run(d)
    except Exception as e:
        print(seed, "ERROR", e); continue
    print(f"seed {seed}: {n} usages, {len(problems)} disagreements  ({d})")
    for p in problems[:12]:
        print("    ", p)
    if not problems:
        shutil.rmtree(d)
