#!/usr/bin/env python3
"""C05 hunt 3: @pytest.mark.parametrize("fa, fb", ..., indirect=True).
Every name of the comma-separated string is recorded as a usage spanning the WHOLE string.
Go-to-definition / hover pick the usage by the word under the cursor, the inlay-hint provider
puts one hint per usage at the END of that span: both hints land behind `fb`, so the token
`fb` carries a hint that describes fixture `fa`, and `fa` carries none."""
import os, shutil, sys
from lspdrv import *
root = os.path.join(os.path.dirname(os.path.abspath(__file__)), "scratch", "hunt3")
shutil.rmtree(root, ignore_errors=True)
write_tree(root, {
    "conftest.py": "import pytest\n\n@pytest.fixture\ndef fa(request) -> A:\n    return A()\n\n@pytest.fixture\ndef fb(request) -> B:\n    return B()\n",
    "test_x.py": 'import pytest\n\n@pytest.mark.parametrize("fa, fb", [(1, 2)], indirect=True)\ndef test_x(fa, fb):\n    pass\n',
})
s = Server(root)
t = os.path.join(root, "test_x.py")
s.open(t)
line = open(t).read().split("\n")[2]
hints = s.inlay(t)
bad = 0
for name in ("fa", "fb"):
    c0 = line.index(name); c1 = c0 + 2
    hk = hover_key(s.hover(t, 2, c0))
    here = [h["tooltip"] for h in hints if h["position"] == {"line": 2, "character": c1}]
    print(f"token {name!r} at 2:{c0}: definition -> line {s.definition(t, 2, c0)[1]}, hover -> {hk[1]} -> {hk[2]}; inlay hints at its end: {here}")
    if here != [f"Fixture '{name}' returns {hk[2]}"]:
        bad += 1
s.stop()
print("DISAGREE" if bad else "AGREE")
sys.exit(1 if bad else 0)
