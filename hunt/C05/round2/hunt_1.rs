// C05 hunt 1: the cached per-file view (completion, inlay hints) is keyed by the
// definitions version only, but it is computed from texts that are read from disk on
// demand (a conftest.py that is not in the text cache: closed in the editor, or evicted).
// Go-to-definition / hover re-read that text on every request, so after the file changes
// on disk the two disagree until some unrelated edit bumps the version.
use pytest_language_server::FixtureDatabase;
use std::fs;

#[test]
fn per_file_view_follows_navigation_after_a_closed_conftest_changes_on_disk() {
    let dir = tempfile::Builder::new()
        .prefix("hunt1_")
        .tempdir_in(concat!(env!("CARGO_MANIFEST_DIR"), "/target"))
        .unwrap();
    let root = dir.path().canonicalize().unwrap();
    fs::create_dir_all(root.join("other")).unwrap();
    fs::write(
        root.join("fx_a.py"),
        "import pytest\n\n@pytest.fixture\ndef fa() -> A:\n    \"\"\"from fx_a\"\"\"\n    return A()\n",
    )
    .unwrap();
    fs::write(
        root.join("fx_b.py"),
        "import pytest\n\n@pytest.fixture\ndef fa() -> B:\n    \"\"\"from fx_b\"\"\"\n    return B()\n",
    )
    .unwrap();
    let conftest = root.join("conftest.py");
    fs::write(&conftest, "from fx_a import *\n").unwrap();
    // only there so that fx_b.py is indexed too
    fs::write(root.join("other/conftest.py"), "from fx_b import *\n").unwrap();
    let test = root.join("test_x.py");
    fs::write(&test, "def test_x(fa):\n    pass\n").unwrap();

    let db = FixtureDatabase::new();
    db.scan_workspace(&root);

    // The editor opens conftest.py and closes it again (what did_open / did_close do).
    db.document_opened(&conftest);
    db.analyze_file(conftest.clone(), "from fx_a import *\n");
    db.document_closed(&conftest);
    db.cleanup_file_cache(&conftest);

    // A completion or inlay-hint request in test_x.py computes (and caches) the view.
    let nav = db.find_fixture_definition(&test, 0, 11).expect("fa resolves");
    let view = db.get_available_fixtures(&test);
    let entry = view.iter().find(|d| d.name == "fa").expect("fa listed");
    assert_eq!(nav.file_path, root.join("fx_a.py"));
    assert_eq!(entry.file_path, root.join("fx_a.py"));

    // conftest.py changes on disk (git checkout, another tool); no notification exists
    // for that (the server registers no file watcher).
    fs::write(&conftest, "from fx_b import *\n").unwrap();

    let nav = db.find_fixture_definition(&test, 0, 11).expect("fa resolves");
    let view = db.get_available_fixtures(&test);
    let entries: Vec<_> = view.iter().filter(|d| d.name == "fa").collect();
    assert_eq!(entries.len(), 1, "exactly one entry per visible name");
    println!(
        "go-to-definition / hover: {:?} (-> {:?});  completion / inlay hint: {:?} (-> {:?})",
        nav.file_path.file_name().unwrap(),
        nav.return_type,
        entries[0].file_path.file_name().unwrap(),
        entries[0].return_type
    );
    assert_eq!(
        (&entries[0].file_path, entries[0].line),
        (&nav.file_path, nav.line),
        "the per-file view entry is not the definition go-to-definition navigates to"
    );
}
