#!/usr/bin/env python3
"""C05 hunt 5 (adjacent): fromRanges of callHierarchy/outgoingCalls are found by a substring
search on the `def` line only.  `def fab(fb, fa)` reports the call of `fa` inside the function
name `fab`; for a multi-line signature the callee's own definition range is reported as the
call site.  At those positions go-to-definition answers null (or something else)."""
import os, shutil, sys
from lspdrv import *
root = os.path.join(os.path.dirname(os.path.abspath(__file__)), "scratch", "hunt5")
shutil.rmtree(root, ignore_errors=True)
conf = ('import pytest\n\n@pytest.fixture\ndef fa() -> A:\n    return A()\n\n@pytest.fixture\ndef fb() -> B:\n    return B()\n\n'
        '@pytest.fixture\ndef fab(fb, fa):\n    return 1\n\n@pytest.fixture\ndef multi(\n    fa,\n    fb,\n):\n    return 1\n')
write_tree(root, {"conftest.py": conf, "test_x.py": "def test_x(fab, multi):\n    pass\n"})
s = Server(root)
c = os.path.join(root, "conftest.py")
s.open(c)
text = conf.split("\n")
bad = 0
for name in ("fab", "multi"):
    ln = [i for i, l in enumerate(text) if l.startswith("def " + name)][0]
    item = s.prepare(c, ln, 4)
    for o in s.outgoing(item):
        fr = o["fromRanges"][0]
        d = s.definition(c, fr["start"]["line"], fr["start"]["character"])
        to = (path_of(o["to"]["uri"]), o["to"]["selectionRange"]["start"]["line"])
        print(f"{name} -> {o['to']['name']}: fromRange {fr['start']['line']}:{fr['start']['character']}-{fr['end']['character']}"
              f" on line {text[fr['start']['line']]!r}; go-to-definition there -> {d and d[1]}; callee is at line {to[1]}")
        if d != to:
            bad += 1
s.stop()
print("DISAGREE at %d call sites" % bad if bad else "AGREE")
sys.exit(1 if bad else 0)
