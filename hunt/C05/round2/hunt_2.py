#!/usr/bin/env python3
"""C05 hunt 2: while a document does not parse, inlay hints are produced from the usage
positions of the last version that parsed, applied to the new text.  Navigation re-reads the
word under the cursor and refuses (null); the inlay hints stay and attach the type of one
fixture to the parameter that names another."""
import os, shutil, sys
from lspdrv import *
root = os.path.join(os.path.dirname(os.path.abspath(__file__)), "scratch", "hunt2")
shutil.rmtree(root, ignore_errors=True)
write_tree(root, {
    "conftest.py": "import pytest\n\n@pytest.fixture\ndef fa() -> A:\n    return A()\n\n@pytest.fixture\ndef fb() -> B:\n    return B()\n",
    "test_x.py": "def test_a(fa, fb):\n    pass\n",
})
s = Server(root)
t = os.path.join(root, "test_x.py")
s.open(t)
def show(tag, text):
    line = text.split("\n")[0]
    print(tag, repr(line))
    hints = {(h["position"]["line"], h["position"]["character"]): h for h in s.inlay(t)}
    bad = 0
    import re
    for m in re.finditer(r"\bf[ab]\b", line):
        d = s.definition(t, 0, m.start())
        hk = hover_key(s.hover(t, 0, m.start()))
        h = hints.get((0, m.end()))
        print(f"   col {m.start():2} {m.group(0)}: definition={d and d[1]} hover={hk and hk[1:3]} "
              f"inlay={h and (h['label'], h['tooltip'])}")
        if h is not None and (hk is None or h["label"] != ": " + hk[2]):
            bad += 1
    return bad
v1 = "def test_a(fa, fb):\n    pass\n"
show("v1:", v1)
# the user swaps the two parameters and has started typing a new test further down
v2 = "def test_a(fb, fa):\n    pass\n\ndef test_new(\n"
s.change(t, v2)
bad = show("v2:", v2)
s.stop()
print("DISAGREE: inlay hints describe a definition that navigation does not (%d positions)" % bad if bad else "AGREE")
sys.exit(1 if bad else 0)
