#!/usr/bin/env python3
"""ID-free cross-feature comparison for arbitrary real-world workspaces (C05)."""
import os, re, sys, pathlib
from lspdrv import Server, hover_key, path_of
from xcheck import tokens, fixture_functions

import ast
def candidates(text):
    """identifier tokens at parameter positions and inside decorator / pytestmark strings"""
    try:
        tree = ast.parse(text)
    except Exception:
        return list(tokens(text))
    want_lines = set()
    for node in ast.walk(tree):
        if isinstance(node, (ast.FunctionDef, ast.AsyncFunctionDef)):
            first = min([d.lineno for d in node.decorator_list] + [node.lineno])
            last = node.body[0].lineno if node.body else node.lineno
            want_lines.update(range(first - 1, last))
        elif isinstance(node, ast.ClassDef):
            for d in node.decorator_list:
                want_lines.update(range(d.lineno - 1, d.end_lineno))
        elif isinstance(node, (ast.Assign, ast.AnnAssign)):
            if "pytestmark" in ast.unparse(node)[:40]:
                want_lines.update(range(node.lineno - 1, node.end_lineno))
    return [t for t in tokens(text) if t[0] in want_lines]

def check_file(srv, root, path, report):
    path = str(pathlib.Path(path).resolve())
    text = open(path, encoding="utf-8", newline="").read()
    srv.open(path, text)
    lines = text.split("\n")
    hints = {(h["position"]["line"], h["position"]["character"]): h["label"] for h in srv.inlay(path, len(lines) + 5)}
    # completion list for a test appended at the end
    probe = text + "\n\ndef test_zz_probe():\n    pass\n"
    srv.change(path, probe)
    pl = probe.split("\n")
    ln = max(i for i, l in enumerate(pl) if l == "def test_zz_probe():")
    comp = {}
    for it in srv.completion(path, ln, len("def test_zz_probe(")) or []:
        comp.setdefault(it["label"], []).append(it)
    srv.change(path, text)
    for k, v in comp.items():
        if len(v) > 1:
            report(path, None, f"completion lists {k} {len(v)} times")
    fx = fixture_functions(text)
    params_of = {}
    for (fl, fc, params, fname) in fx:
        for (pl_, pc, pn) in params:
            params_of[(pl_, pc)] = (fl, fc, fname)
    n = 0
    seen_hint_positions = set()
    for l, c0, c1, w in candidates(text):
        d = srv.definition(path, l, c0)
        if d is None:
            if (l, c1) in hints:
                report(path, (l, c0), f"inlay hint {hints[(l, c1)]!r} after {w!r} but definition is null")
            continue
        n += 1
        seen_hint_positions.add((l, c1))
        h = srv.hover(path, l, c0)
        hk = hover_key(h)
        relfile = os.path.relpath(d[0], root)
        if hk is None or (hk[0] != relfile and hk[0] != os.path.basename(d[0])):
            report(path, (l, c0), f"{w}: definition {relfile}:{d[1]} but hover says {hk}")
        it = srv.prepare(path, l, c0)
        if it is None or (path_of(it["uri"]), it["selectionRange"]["start"]["line"]) != d:
            report(path, (l, c0), f"{w}: definition {relfile}:{d[1]} but prepare {it and (it['uri'], it['selectionRange'])}")
        im = srv.implementation(path, l, c0)
        if im is None or im[0] != d[0]:
            report(path, (l, c0), f"{w}: definition {relfile}:{d[1]} but implementation {im}")
        lab = hints.get((l, c1))
        rtype = hk[2] if hk else None
        annotated = re.match(r"\s*:", lines[l][c1:]) is not None
        if rtype and not annotated and lab != ": " + rtype:
            report(path, (l, c0), f"{w}: hover says -> {rtype} but inlay hint {lab!r}")
        if lab and not rtype:
            report(path, (l, c0), f"{w}: hover has no return type but inlay hint {lab!r}")
        enc = params_of.get((l, c0))
        self_named = False
        if enc:
            it2 = srv.prepare(path, enc[0], enc[1])
            self_named = it2 is not None and it2["name"] == w
        if not self_named:
            ce = comp.get(w)
            if not ce:
                report(path, (l, c0), f"{w}: definition {relfile}:{d[1]} but no completion entry")
            elif ce[0]["documentation"]["value"] != h:
                report(path, (l, c0), f"{w}: hover {hk} but completion entry {hover_key(ce[0]['documentation']['value'])}")
    for pos in hints:
        if pos not in seen_hint_positions:
            report(path, pos, f"inlay hint {hints[pos]!r} at a position that is not the end of a navigable token")
    for (fl, fc, params, fname) in fx:
        it = srv.prepare(path, fl, fc)
        if it is None:
            continue
        out = srv.outgoing(it)
        got = sorted((o["to"]["name"], path_of(o["to"]["uri"]), o["to"]["selectionRange"]["start"]["line"]) for o in out)
        exp = []
        for (pl_, pc, pn) in params:
            d = srv.definition(path, pl_, pc)
            if d is not None:
                exp.append((pn, d[0], d[1]))
        exp.sort()
        if got != exp:
            report(path, (fl, fc), f"outgoing calls of {fname}: {got} vs definition on parameters: {exp}")
    srv.close(path)
    return n

def run(root, files=None):
    root = str(pathlib.Path(root).resolve())
    problems = []
    srv = Server(root)
    n = 0
    try:
        if files is None:
            files = sorted(str(p) for p in pathlib.Path(root).rglob("*.py") if "site-packages" not in str(p))
        for f in files:
            try:
                n += check_file(srv, root, f, lambda p, w, m: problems.append((os.path.relpath(p, root), w, m)))
            except UnicodeDecodeError:
                pass
    finally:
        srv.stop()
    return n, problems

if __name__ == "__main__":
    n, problems = run(sys.argv[1], sys.argv[2:] or None)
    print(n, "usage positions;", len(problems), "disagreements")
    for p in problems[:60]:
        print("  ", p)
