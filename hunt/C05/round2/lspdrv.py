#!/usr/bin/env python3
"""Minimal LSP stdio driver for pytest-language-server (used by the hunt_*.py demos)."""
import json
import os
import re
import subprocess
import threading
import queue
import pathlib
import urllib.parse

HERE = os.path.dirname(os.path.abspath(__file__))
BIN = os.environ.get("PLS_BIN", os.path.join(HERE, "target", "debug", "pytest-language-server"))


def uri_of(path):
    return "file://" + urllib.parse.quote(str(path))


def path_of(uri):
    return urllib.parse.unquote(uri[len("file://"):])


class Server:
    def __init__(self, root, wait_scan=True):
        self.root = str(root)
        env = dict(os.environ)
        env.pop("RUST_LOG", None)
        self.p = subprocess.Popen([BIN], stdin=subprocess.PIPE, stdout=subprocess.PIPE,
                                  stderr=subprocess.DEVNULL, env=env, cwd=self.root)
        self.q = queue.Queue()
        self.notes = []
        self.next_id = 1
        self.versions = {}
        self.scan_done = threading.Event()
        self.t = threading.Thread(target=self._reader, daemon=True)
        self.t.start()
        self.request("initialize", {
            "processId": None, "rootUri": uri_of(self.root), "capabilities": {},
            "workspaceFolders": [{"uri": uri_of(self.root), "name": "w"}]})
        self.notify("initialized", {})
        if wait_scan:
            if not self.scan_done.wait(60):
                raise RuntimeError("scan did not finish")

    def _reader(self):
        f = self.p.stdout
        while True:
            hdr = {}
            line = f.readline()
            if not line:
                self.q.put(None)
                return
            while line and line.strip():
                k, _, v = line.decode().partition(":")
                hdr[k.strip().lower()] = v.strip()
                line = f.readline()
            n = int(hdr.get("content-length", "0"))
            body = f.read(n)
            msg = json.loads(body)
            if "id" in msg and "method" in msg:
                # request from server (e.g. workspace/inlayHint/refresh): answer null
                self._send({"jsonrpc": "2.0", "id": msg["id"], "result": None})
            elif "id" in msg:
                self.q.put(msg)
            else:
                self.notes.append(msg)
                if msg.get("method") == "window/logMessage" and \
                        "Workspace scan complete" in msg["params"].get("message", ""):
                    self.scan_done.set()

    def _send(self, obj):
        data = json.dumps(obj).encode()
        self.p.stdin.write(b"Content-Length: %d\r\n\r\n" % len(data) + data)
        self.p.stdin.flush()

    def request(self, method, params):
        i = self.next_id
        self.next_id += 1
        self._send({"jsonrpc": "2.0", "id": i, "method": method, "params": params})
        while True:
            msg = self.q.get(timeout=60)
            if msg is None:
                raise RuntimeError("server died")
            if msg.get("id") == i:
                if "error" in msg:
                    raise RuntimeError(msg["error"])
                return msg.get("result")

    def notify(self, method, params):
        self._send({"jsonrpc": "2.0", "method": method, "params": params})

    # ---- document sync
    def open(self, path, text=None):
        path = str(path)
        if text is None:
            text = open(path, encoding="utf-8", newline="").read()
        self.versions[path] = 1
        self.notify("textDocument/didOpen", {"textDocument": {
            "uri": uri_of(path), "languageId": "python", "version": 1, "text": text}})

    def change(self, path, text):
        path = str(path)
        self.versions[path] = self.versions.get(path, 1) + 1
        self.notify("textDocument/didChange", {
            "textDocument": {"uri": uri_of(path), "version": self.versions[path]},
            "contentChanges": [{"text": text}]})

    def close(self, path):
        self.notify("textDocument/didClose", {"textDocument": {"uri": uri_of(str(path))}})

    # ---- features
    def _tdp(self, path, line, ch):
        return {"textDocument": {"uri": uri_of(str(path))}, "position": {"line": line, "character": ch}}

    def definition(self, path, line, ch):
        r = self.request("textDocument/definition", self._tdp(path, line, ch))
        if not r:
            return None
        return (path_of(r["uri"]), r["range"]["start"]["line"])

    def implementation(self, path, line, ch):
        r = self.request("textDocument/implementation", self._tdp(path, line, ch))
        if not r:
            return None
        return (path_of(r["uri"]), r["range"]["start"]["line"])

    def hover(self, path, line, ch):
        r = self.request("textDocument/hover", self._tdp(path, line, ch))
        if not r:
            return None
        return r["contents"]["value"]

    def prepare(self, path, line, ch):
        r = self.request("textDocument/prepareCallHierarchy", self._tdp(path, line, ch))
        if not r:
            return None
        return r[0]

    def outgoing(self, item):
        return self.request("callHierarchy/outgoingCalls", {"item": item}) or []

    def incoming(self, item):
        return self.request("callHierarchy/incomingCalls", {"item": item}) or []

    def inlay(self, path, nlines=100000):
        r = self.request("textDocument/inlayHint", {
            "textDocument": {"uri": uri_of(str(path))},
            "range": {"start": {"line": 0, "character": 0}, "end": {"line": nlines, "character": 0}}})
        return r or []

    def completion(self, path, line, ch):
        r = self.request("textDocument/completion", self._tdp(path, line, ch))
        if r is None:
            return None
        if isinstance(r, dict):
            r = r.get("items", [])
        return r

    def stop(self):
        try:
            self.request("shutdown", None)
            self.notify("exit", None)
        except Exception:
            pass
        try:
            self.p.wait(timeout=5)
        except Exception:
            self.p.kill()


def write_tree(root, files):
    for rel, text in files.items():
        p = pathlib.Path(root) / rel
        p.parent.mkdir(parents=True, exist_ok=True)
        with open(p, "w", encoding="utf-8", newline="") as f:
            f.write(text)


def hover_key(h):
    """(relative file, fixture name, return type) from a hover / completion documentation text."""
    if h is None:
        return None
    m = re.search(r"\*\*from\*\* `([^`]*)`", h)
    n = re.search(r"def (\S+?)\(\.\.\.\)( -> (.*?))?:\n", h)
    doc = h.split("---\n\n", 1)[1] if "---\n\n" in h else None
    return (m.group(1) if m else None, n.group(1) if n else None, n.group(3) if n else None, doc)
