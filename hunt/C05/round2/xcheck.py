#!/usr/bin/env python3
"""Cross-feature comparison (C05) on a workspace: every usage position is asked for
definition / hover / implementation / prepareCallHierarchy / inlay hint / completion entry /
outgoing calls, and the answers are compared with each other."""
import ast
import os
import re
import sys
import pathlib
from lspdrv import Server, hover_key, path_of

ID_RE = re.compile(r"ID(\d+)")
PROBE = "\n\ndef test_zz_probe():\n    pass\n"


def index_ids(root):
    """(file, 0-based def line) -> id, from the docstrings 'ID<n>' the generator writes."""
    idx = {}
    for p in pathlib.Path(root).rglob("*.py"):
        try:
            text = open(p, encoding="utf-8", newline="").read()
            tree = ast.parse(text)
        except Exception:
            continue
        for node in ast.walk(tree):
            if isinstance(node, (ast.FunctionDef, ast.AsyncFunctionDef)):
                doc = ast.get_docstring(node)
                if doc and ID_RE.search(doc):
                    idx[(str(p.resolve()), node.lineno - 1)] = int(ID_RE.search(doc).group(1))
    return idx


def tokens(text):
    for ln, line in enumerate(text.split("\n")):
        for m in re.finditer(r"[A-Za-z_][A-Za-z0-9_]*", line):
            yield ln, m.start(), m.end(), m.group(0)


def fixture_functions(text):
    """[(name_line0, name_col, [param (line0,col,name)], funcname)] for decorated fixture functions."""
    out = []
    try:
        tree = ast.parse(text)
    except Exception:
        return out
    lines = text.split("\n")
    for node in ast.walk(tree):
        if isinstance(node, (ast.FunctionDef, ast.AsyncFunctionDef)):
            if any("fixture" in ast.unparse(d) and "usefixtures" not in ast.unparse(d)
                   for d in node.decorator_list):
                ln = node.lineno - 1
                col = lines[ln].index(node.name, lines[ln].index("def ") + 4)
                params = []
                a = node.args
                for arg in a.posonlyargs + a.args + a.kwonlyargs:
                    params.append((arg.lineno - 1, arg.col_offset, arg.arg))
                out.append((ln, col, params, node.name))
    return out


def check_file(srv, root, path, ids, report, verbose=False, text=None, is_open=False):
    path = str(pathlib.Path(path).resolve())
    if text is None:
        text = open(path, encoding="utf-8", newline="").read()
    probe_text = text + PROBE
    if is_open:
        srv.change(path, probe_text)
    else:
        srv.open(path, probe_text)
    nlines = probe_text.count("\n") + 1
    probe_line = probe_text.split("\n").index("def test_zz_probe():")
    comp = srv.completion(path, probe_line, len("def test_zz_probe("))
    comp_by = {}
    for it in comp or []:
        comp_by.setdefault(it["label"], []).append(it)
    for name, its in comp_by.items():
        if len(its) > 1:
            report(path, None, f"completion lists {name!r} {len(its)} times")
    hints = {(h["position"]["line"], h["position"]["character"]): h["label"] for h in srv.inlay(path, nlines)}
    rel = os.path.relpath(path, root)

    fx = fixture_functions(text)

    def enclosing_fixture(ln, col):
        for (fl, fc, params, fname) in fx:
            for (pl, pc, pn) in params:
                if pl == ln and pc == col:
                    return (fl, fc, fname)
        return None

    def did(loc):
        if loc is None:
            return None
        return ids.get((str(pathlib.Path(loc[0]).resolve()), loc[1]), ("?", loc))

    usages = 0
    for ln, c0, c1, word in tokens(text):
        d = srv.definition(path, ln, c0)
        if d is None:
            # a hint on a token that navigation does not know
            if (ln, c1) in hints:
                report(path, (ln, c0), f"inlay hint {hints[(ln, c1)]!r} on {word!r} but go-to-definition answers null")
            continue
        usages += 1
        want = did(d)
        where = (ln, c0)
        # hover
        hk = hover_key(srv.hover(path, ln, c0))
        hid = int(ID_RE.search(hk[3]).group(1)) if hk and hk[3] and ID_RE.search(hk[3]) else None
        if hid != want:
            report(path, where, f"{word}: definition -> ID{want} but hover describes ID{hid} ({hk})")
        # implementation (same file as definition; the generator never yields)
        im = srv.implementation(path, ln, c0)
        if did(im) != want:
            report(path, where, f"{word}: definition -> ID{want} but implementation -> {did(im)}")
        # prepare
        it = srv.prepare(path, ln, c0)
        pl = (path_of(it["uri"]), it["selectionRange"]["start"]["line"]) if it else None
        if did(pl) != want:
            report(path, where, f"{word}: definition -> ID{want} but prepareCallHierarchy -> {did(pl)}")
        # inlay
        lab = hints.get((ln, c1))
        annotated = re.match(r"\s*:", text.split("\n")[ln][c1:]) is not None
        if lab is None:
            if not annotated:
                report(path, where, f"{word}: definition -> ID{want} but no inlay hint")
        else:
            m = re.search(r"T(\d+)", lab)
            if not m or int(m.group(1)) != want:
                report(path, where, f"{word}: definition -> ID{want} but inlay hint says {lab!r}")
        # completion entry (skip the self-named parameter of an overriding fixture)
        enc = enclosing_fixture(ln, c0)
        self_named = False
        if enc is not None:
            # fixture name may be renamed; ask prepare at the def for its fixture name
            it2 = srv.prepare(path, enc[0], enc[1])
            self_named = it2 is not None and it2["name"] == word
        if not self_named:
            its = comp_by.get(word)
            if not its:
                report(path, where, f"{word}: definition -> ID{want} but completion has no entry")
            else:
                doc = its[0]["documentation"]["value"]
                m = ID_RE.search(doc)
                cid = int(m.group(1)) if m else None
                if cid != want:
                    report(path, where, f"{word}: definition -> ID{want} but completion entry describes ID{cid}")
    # every entry of the per-file view (completion list) must be what navigation reaches:
    # synthesise a test that requests every listed name
    labels = sorted(comp_by)
    if labels:
        probe2 = text + "\n\ndef test_zz_probe(" + ", ".join(labels) + "):\n    pass\n"
        srv.change(path, probe2)
        pl2 = probe2.split("\n")
        ln2 = max(i for i, l in enumerate(pl2) if l.startswith("def test_zz_probe("))
        col = len("def test_zz_probe(")
        hints2 = {(h["position"]["line"], h["position"]["character"]): h["label"] for h in srv.inlay(path, len(pl2) + 5)}
        for lab in labels:
            d2 = srv.definition(path, ln2, col)
            doc = comp_by[lab][0]["documentation"]["value"]
            m = ID_RE.search(doc)
            cid = int(m.group(1)) if m else None
            if m is not None or d2 is None:
                if did(d2) != cid:
                    report(path, ("view", lab), f"completion entry {lab} describes ID{cid} but a parameter of that name navigates to {did(d2)}")
                hl = hints2.get((ln2, col + len(lab)))
                mm = re.search(r"T(\d+)", hl or "")
                if (int(mm.group(1)) if mm else None) != cid and cid is not None:
                    report(path, ("view", lab), f"completion entry {lab} describes ID{cid} but inlay hint on a parameter of that name says {hl!r}")
            col += len(lab) + 2
        srv.change(path, probe_text)
    # outgoing calls of every fixture of this file vs go-to-definition on its parameters
    for (fl, fc, params, fname) in fx:
        it = srv.prepare(path, fl, fc)
        if it is None:
            continue
        if (path_of(it["uri"]), it["selectionRange"]["start"]["line"]) != (path, fl):
            report(path, (fl, fc), f"prepare on the name of fixture function {fname} selects another definition: {it['uri']}:{it['selectionRange']['start']['line']}")
            continue
        out = srv.outgoing(it)
        got = sorted((o["to"]["name"], str(did((path_of(o["to"]["uri"]), o["to"]["selectionRange"]["start"]["line"])))) for o in out)
        exp = []
        for (pl, pc, pn) in params:
            d = srv.definition(path, pl, pc)
            if d is not None:
                exp.append((pn, str(did(d))))
        exp.sort()
        if got != exp:
            report(path, (fl, fc), f"outgoing calls of {fname} = {got} but go-to-definition on its parameters = {exp}")
    if not is_open:
        srv.close(path)
    return usages


def run(root, files=None, verbose=False):
    root = str(pathlib.Path(root).resolve())
    ids = index_ids(root)
    problems = []

    def report(path, where, msg):
        problems.append((os.path.relpath(path, root), where, msg))

    srv = Server(root)
    try:
        if files is None:
            files = sorted(str(p) for p in pathlib.Path(root).rglob("*.py")
                           if "site-packages" not in str(p))
        n = 0
        for f in files:
            n += check_file(srv, root, f, ids, report, verbose)
    finally:
        srv.stop()
    return n, problems


if __name__ == "__main__":
    n, problems = run(sys.argv[1], sys.argv[2:] or None)
    print(f"{n} usage positions compared, {len(problems)} disagreements")
    for p in problems:
        print("  ", p)
