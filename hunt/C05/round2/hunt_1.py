#!/usr/bin/env python3
"""C05 hunt 1 against the real server: after a closed conftest.py changes on disk,
definition/hover/implementation/prepareCallHierarchy follow the new import at once, while
completion and inlay hints keep describing the old definition (cached per-file view)."""
import os, shutil, sys
from lspdrv import *
root = os.path.join(os.path.dirname(os.path.abspath(__file__)), "scratch", "hunt1")
shutil.rmtree(root, ignore_errors=True)
FX = 'import pytest\n\n@pytest.fixture\ndef fa() -> %s:\n    """from %s"""\n    return %s()\n'
write_tree(root, {
    "fx_a.py": FX % ("A", "fx_a", "A"),
    "fx_b.py": FX % ("B", "fx_b", "B"),
    "conftest.py": "from fx_a import *\n",
    "other/conftest.py": "from fx_b import *\n",
    "test_x.py": "def test_x(fa):\n    pass\n\ndef test_y():\n    pass\n",
})
s = Server(root)
conf, test = os.path.join(root, "conftest.py"), os.path.join(root, "test_x.py")
s.open(conf); s.close(conf)          # the user looked at conftest.py and closed it
s.open(test)
def snapshot():
    comp = [i for i in s.completion(test, 3, len("def test_y(")) if i["label"] == "fa"]
    return {
        "definition": os.path.basename(s.definition(test, 0, 11)[0]),
        "hover": hover_key(s.hover(test, 0, 11))[:3],
        "implementation": os.path.basename(s.implementation(test, 0, 11)[0]),
        "prepareCallHierarchy": os.path.basename(s.prepare(test, 0, 11)["uri"]),
        "inlay hint": [h["label"] for h in s.inlay(test)],
        "completion entry": [hover_key(i["documentation"]["value"])[:3] for i in comp],
    }
print("before:", snapshot())
open(conf, "w").write("from fx_b import *\n")   # git checkout / another tool; no notification exists
after = snapshot()
print("after :", after)
s.stop()
ok = after["inlay hint"] == [": B"] and after["completion entry"][0][0] == "fx_b.py"
print("AGREE" if ok else "DISAGREE: navigation says fx_b.py (-> B), completion and inlay hints say fx_a.py (-> A)")
sys.exit(0 if ok else 1)
