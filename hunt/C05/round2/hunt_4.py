#!/usr/bin/env python3
"""C05 hunt 4: callHierarchy/outgoingCalls (and incomingCalls) identify the definition by
(name, file, line) and, when no definition is on that line any more, fall back to the FIRST
definition of the name in the file - a definition resolution never selects (the last one wins
everywhere else).  A client keeps the prepared item while the user edits; one line inserted
above is enough."""
import os, shutil, sys
from lspdrv import *
root = os.path.join(os.path.dirname(os.path.abspath(__file__)), "scratch", "hunt4")
shutil.rmtree(root, ignore_errors=True)
conf = ('import pytest\n\n@pytest.fixture\ndef fb(): return 1\n\n@pytest.fixture\ndef fc(): return 1\n\n'
        '@pytest.fixture\ndef fa(fb):\n    """first, shadowed"""\n    return 1\n\n'
        '@pytest.fixture\ndef fa(fc):\n    """second: the one resolution selects"""\n    return 2\n')
write_tree(root, {"conftest.py": conf, "test_x.py": "def test_x(fa):\n    pass\n"})
s = Server(root)
c, t = os.path.join(root, "conftest.py"), os.path.join(root, "test_x.py")
s.open(t); s.open(c)
item = s.prepare(t, 0, 11)
print("go-to-definition on fa        :", s.definition(t, 0, 11)[1], hover_key(s.hover(t, 0, 11))[3])
print("prepared item                 :", item["name"], "line", item["selectionRange"]["start"]["line"])
before = [o["to"]["name"] for o in s.outgoing(item)]
print("outgoing calls                :", before)
s.change(c, "# one comment line added at the top\n" + conf)
after = [o["to"]["name"] for o in s.outgoing(item)]
print("after the edit, same item     :", after, "   (go-to-definition still:", hover_key(s.hover(t, 0, 11))[3] + ")")
fresh = [o["to"]["name"] for o in s.outgoing(s.prepare(t, 0, 11))]
print("after the edit, fresh prepare :", fresh)
s.stop()
ok = after in (before, [])
print("AGREE" if ok else "DISAGREE: outgoing calls now describe the first (shadowed) definition of fa")
sys.exit(0 if ok else 1)
