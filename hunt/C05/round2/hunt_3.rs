// C05 hunt 3 (root cause at the library level): every name of
// @pytest.mark.parametrize("fa, fb", ..., indirect=True) is recorded as a usage that spans
// the whole string, so position-based consumers that do not re-check the word (inlay hints:
// one hint at `end_char` per usage) attach fixture `fa` to the token `fb`.
use pytest_language_server::FixtureDatabase;
use std::path::PathBuf;

#[test]
fn usage_span_of_an_indirect_parameter_is_its_own_name() {
    let db = FixtureDatabase::new();
    let conftest = PathBuf::from("/tmp/hunt3_c05/conftest.py");
    let test = PathBuf::from("/tmp/hunt3_c05/test_x.py");
    db.analyze_file(
        conftest,
        "import pytest\n\n@pytest.fixture\ndef fa(request) -> A:\n    return A()\n\n@pytest.fixture\ndef fb(request) -> B:\n    return B()\n",
    );
    let text = "import pytest\n\n@pytest.mark.parametrize(\"fa, fb\", [(1, 2)], indirect=True)\ndef test_x(fa, fb):\n    pass\n";
    db.analyze_file(test.clone(), text);
    let line3 = text.lines().nth(2).unwrap();
    let usages = db.usages.get(&test).unwrap();
    let mut wrong = Vec::new();
    for u in usages.iter().filter(|u| u.line == 3) {
        let spanned = &line3[u.start_char..u.end_char];
        println!("usage {:?} spans {:?} ({}..{})", u.name, spanned, u.start_char, u.end_char);
        if spanned != u.name {
            wrong.push((u.name.clone(), spanned.to_string()));
        }
    }
    // what the inlay-hint provider does with it: one hint per usage at end_char
    let ends: Vec<_> = usages.iter().filter(|u| u.line == 3).map(|u| (u.name.clone(), u.end_char)).collect();
    println!("inlay hint positions: {:?}; `fa` ends at {}, `fb` ends at {}", ends, line3.find("fa").unwrap() + 2, line3.find("fb").unwrap() + 2);
    assert!(wrong.is_empty(), "usages whose span is not their name: {:?}", wrong);
}
