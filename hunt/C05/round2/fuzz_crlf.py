import sys, tempfile, shutil, os
from gen import Gen
from lspdrv import write_tree
import xcheck
base=os.path.join(os.path.dirname(os.path.abspath(__file__)),"scratch"); os.makedirs(base, exist_ok=True)
for seed in range(int(sys.argv[1]), int(sys.argv[2])):
    d = tempfile.mkdtemp(prefix=f"crlf_{seed}_", dir=base)
    files = {k: v.replace("\n", "\r\n").replace("    ", "\t") for k, v in Gen(seed).workspace().items()}
    write_tree(d, files)
    n, problems = xcheck.run(d)
    print(seed, n, len(problems), d)
    for p in problems[:6]: print("   ", p)
    if not problems: shutil.rmtree(d)
