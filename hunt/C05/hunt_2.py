#!/usr/bin/env python3
"""hunt_2: a non-ASCII character earlier on the line (here: a test named in Japanese, which
is legal Python and common practice) makes the features disagree about the parameters.

Usage columns are stored as UTF-8 byte offsets, the word under the cursor is looked up by
code-point index, and LSP positions are UTF-16 code units; the server never negotiates a
position encoding. Inlay hints are emitted at the byte columns, go-to-definition / hover /
call hierarchy compare the client's column against the byte columns.
"""
import sys
import tempfile
from lspdrv import Lsp, write_tree, loc

CONFTEST = (
    "import pytest\n\n"
    "@pytest.fixture\ndef aa() -> int:\n    return 1\n\n"
    "@pytest.fixture\ndef bb() -> str:\n    return ''\n"
)
TEST = "def test_日本(aa, bb):\n    pass\n\ndef test_ascii(aa, bb):\n    pass\n"
#       0123456789012345678  -> UTF-16 / code-point columns: aa = 12..14, bb = 16..18, line length 20

with tempfile.TemporaryDirectory() as root:
    write_tree(root, {"conftest.py": CONFTEST, "test_u.py": TEST})
    t = f"{root}/test_u.py"
    s = Lsp(root)
    s.did_open(t, TEST)

    line0 = TEST.splitlines()[0]
    assert line0[12:14] == "aa" and line0[16:18] == "bb" and len(line0) == 20

    print("line 0:", line0)
    defs = {}
    for name, col in (("aa", 12), ("aa", 13), ("bb", 16), ("bb", 17)):
        defs[col] = loc(s.definition(t, 0, col))
        print(f"  definition at col {col} ({name}):", defs[col],
              "| hover:", "yes" if s.hover(t, 0, col) else None,
              "| prepareCallHierarchy:", [i["name"] for i in (s.prepare_call_hierarchy(t, 0, col) or [])] or None)
    hints0 = [(h["position"]["character"], h["label"]) for h in s.inlay(t, 0, 0)]
    print("  inlay hints on line 0 (character, label):", hints0, "(the line is only 20 UTF-16 units long)")

    print("line 3 (control, pure ASCII):", TEST.splitlines()[3])
    print("  definition at bb:", loc(s.definition(t, 3, 19)))
    print("  inlay hints on line 3:", [(h["position"]["character"], h["label"]) for h in s.inlay(t, 3, 3)])
    s.close()

    bad = []
    # The hint a user sees right behind `bb` (UTF-16 column 18) must be bb's type; and
    # go-to-definition / hover on `bb` must describe the same fixture as that hint.
    at18 = [lab for (c, lab) in hints0 if c == 18]
    if at18 != [": str"]:
        bad.append(f"inlay hint shown at the end of `bb` (col 18) is {at18}, expected [': str']")
    if defs[16] != ("conftest.py", 7):
        bad.append(f"go-to-definition on `bb` (col 16) gives {defs[16]}, expected ('conftest.py', 7) as on the ASCII line")
    if bad:
        print("FAIL:", "; ".join(bad))
        sys.exit(1)
    print("ok")
