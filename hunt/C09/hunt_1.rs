//! C09 hunt 1: a module that is merely *opened* (analyze_file with its on-disk text) while the
//! workspace scan is running swallows the import chain behind it: neither the edit nor the scan
//! follows its imports, so the fixtures of the module it imports are lost from the index.
//!
//! Layout:
//!   tests/conftest.py       from .helpers import *
//!   tests/helpers.py        from .more_fixtures import *          (the file the editor opens)
//!   tests/more_fixtures.py  @pytest.fixture def deep_fixture()    (never analysed)
//!   tests/test_a.py         def test_a(deep_fixture)
//!   tests/filler/test_*.py  filler, so that the scan lasts a few milliseconds
//!
//! Both sequential orders (open; scan) and (scan; open) index `deep_fixture`.

use pytest_language_server::FixtureDatabase;
use std::fs;
use std::path::{Path, PathBuf};
use std::sync::Arc;

fn build_workspace(root: &Path) -> PathBuf {
    let tests = root.join("tests");
    fs::create_dir_all(tests.join("filler")).unwrap();
    fs::write(tests.join("__init__.py"), "").unwrap();
    fs::write(tests.join("conftest.py"), "from .helpers import *\n").unwrap();
    fs::write(
        tests.join("helpers.py"),
        "import pytest\nfrom .more_fixtures import *\n\n\n@pytest.fixture\ndef helper_fixture():\n    return 1\n",
    )
    .unwrap();
    fs::write(
        tests.join("more_fixtures.py"),
        "import pytest\n\n\n@pytest.fixture\ndef deep_fixture():\n    return 2\n",
    )
    .unwrap();
    fs::write(
        tests.join("test_a.py"),
        "def test_a(deep_fixture, helper_fixture):\n    pass\n",
    )
    .unwrap();
    for i in 0..400 {
        let mut s = String::from("import pytest\n\n");
        for j in 0..20 {
            s.push_str(&format!(
                "@pytest.fixture\ndef shared_{j}():\n    return {j}\n\n\ndef test_{i}_{j}(shared_{j}):\n    pass\n\n"
            ));
        }
        fs::write(tests.join("filler").join(format!("test_f{i}.py")), s).unwrap();
    }
    tests
}

fn has_def(db: &FixtureDatabase, name: &str) -> bool {
    db.definitions.get(name).map(|d| !d.is_empty()).unwrap_or(false)
}

#[test]
fn sequential_orders_index_the_deep_module() {
    // (scan; open)
    let dir = tempfile::tempdir().unwrap();
    let root = dir.path().canonicalize().unwrap();
    let tests = build_workspace(&root);
    let helpers = tests.join("helpers.py");
    let text = fs::read_to_string(&helpers).unwrap();

    let db = FixtureDatabase::new();
    db.scan_workspace(&root);
    db.analyze_file(helpers.clone(), &text);
    assert!(has_def(&db, "deep_fixture"), "scan; open");

    // (open; scan)
    let db = FixtureDatabase::new();
    db.analyze_file(helpers.clone(), &text);
    db.scan_workspace(&root);
    assert!(has_def(&db, "deep_fixture"), "open; scan");
}

#[test]
fn open_helper_module_while_scan_is_running() {
    let dir = tempfile::tempdir().unwrap();
    let root = dir.path().canonicalize().unwrap();
    let tests = build_workspace(&root);
    let helpers = tests.join("helpers.py");
    let text = fs::read_to_string(&helpers).unwrap();

    let db = Arc::new(FixtureDatabase::new());
    let scan_db = Arc::clone(&db);
    let scan_root = root.clone();
    let scan = std::thread::spawn(move || scan_db.scan_workspace(&scan_root));

    // Wait until the scan has started (workspace_root is set right after the scan registers
    // itself as running), then deliver the didOpen of helpers.py with its on-disk text.
    while db.workspace_root.lock().unwrap().is_none() {
        std::hint::spin_loop();
    }
    db.analyze_file(helpers.clone(), &text);
    let scan_was_still_running = !scan.is_finished();
    scan.join().unwrap();
    assert!(scan_was_still_running, "test set-up: the edit must overlap the scan");

    assert!(has_def(&db, "helper_fixture"));
    let test_a = tests.join("test_a.py");
    let resolved = db.find_fixture_definition(&test_a, 0, 12);
    assert!(
        has_def(&db, "deep_fixture"),
        "deep_fixture (tests/more_fixtures.py) is missing from the index after \
         [scan || open helpers.py]; goto-definition from test_a -> {:?}",
        resolved.map(|d| d.file_path)
    );
}
