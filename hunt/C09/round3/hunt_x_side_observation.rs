// side observation (not concurrency): edit-time import following through a module that is open
// with an unparsable buffer does not follow that module's own imports
use pytest_language_server::FixtureDatabase;

#[test]
fn chain_through_open_broken_module() {
    let tmp = tempfile::tempdir().unwrap();
    let root = tmp.path().canonicalize().unwrap();
    std::fs::write(root.join("__init__.py"), "").unwrap();
    std::fs::write(
        root.join("h2.py"),
        "import pytest\n\n@pytest.fixture\ndef deep():\n    return 1\n",
    )
    .unwrap();
    let h = root.join("h.py");
    std::fs::write(&h, "import pytest\nfrom .h2 import *\n\n@pytest.fixture\ndef mid():\n    return 1\n").unwrap();
    let c = root.join("conftest.py");
    std::fs::write(&c, "import pytest\n").unwrap();
    std::fs::write(root.join("test_a.py"), "def test_a(mid, deep):\n    pass\n").unwrap();

    let db = FixtureDatabase::new();
    db.scan_workspace(&root);
    // h.py open with a syntax error
    db.document_opened(&h);
    db.analyze_file(h.clone(), "import pytest\nfrom .h2 import *\n\n@pytest.fixture\ndef mid(:\n");
    // conftest starts importing h
    db.document_opened(&c);
    db.analyze_file(c.clone(), "import pytest\nfrom .h import *\n");
    assert!(db.definitions.contains_key("mid"), "mid");
    assert!(db.definitions.contains_key("deep"), "deep");
}
