// hunt_1: a helper module that is opened with a buffer that does not parse and closed again
// WHILE the workspace scan is running is never indexed: didClose-during-scan leaves the
// on-disk text in the text cache (fix 72552fd), and the import scan reads an occupied
// text-cache slot of a module that is not indexed as "another thread has claimed it"
// (fix 377c5c6) - nobody analyses the module.
//
// The same history applied after the scan (or no history at all) indexes the module.

use pytest_language_server::FixtureDatabase;
use std::path::{Path, PathBuf};
use std::sync::Arc;

const HELPERS: &str = "import pytest\n\n@pytest.fixture\ndef helper_fixture():\n    return 1\n";
const BROKEN: &str = "import pytest\n\n@pytest.fixture\ndef helper_fixture(:\n";

fn make_workspace(root: &Path) -> PathBuf {
    let pkg = root.join("pkg");
    std::fs::create_dir_all(&pkg).unwrap();
    std::fs::write(pkg.join("__init__.py"), "").unwrap();
    std::fs::write(pkg.join("helpers.py"), HELPERS).unwrap();
    std::fs::write(pkg.join("conftest.py"), "from .helpers import *\n").unwrap();
    std::fs::write(
        pkg.join("test_uses.py"),
        "def test_it(helper_fixture):\n    pass\n",
    )
    .unwrap();
    // ballast, so that the scan is still in its (parallel) walk when the editor events arrive
    for i in 0..1500 {
        let d = root.join(format!("ballast{}", i / 100));
        std::fs::create_dir_all(&d).unwrap();
        std::fs::write(
            d.join(format!("test_b{}.py", i)),
            "import pytest\n\n@pytest.fixture\ndef shared():\n    return 1\n\ndef test_b(shared):\n    pass\n",
        )
        .unwrap();
    }
    pkg.join("helpers.py")
}

fn open_broken_then_close(db: &FixtureDatabase, helper: &Path) {
    // didOpen with a text that has a syntax error (the user is typing) ...
    db.document_opened(helper);
    db.analyze_file(helper.to_path_buf(), BROKEN);
    // ... and didClose without saving
    db.document_closed(helper);
    db.cleanup_file_cache(helper);
}

fn helper_defs(db: &FixtureDatabase) -> usize {
    db.definitions
        .get("helper_fixture")
        .map(|d| d.len())
        .unwrap_or(0)
}

#[test]
fn control_same_history_after_the_scan() {
    let tmp = tempfile::tempdir().unwrap();
    let root = tmp.path().canonicalize().unwrap();
    let helper = make_workspace(&root);
    let db = FixtureDatabase::new();
    db.scan_workspace(&root);
    open_broken_then_close(&db, &helper);
    assert_eq!(helper_defs(&db), 1);
}

#[test]
fn control_same_history_before_the_scan() {
    let tmp = tempfile::tempdir().unwrap();
    let root = tmp.path().canonicalize().unwrap();
    let helper = make_workspace(&root);
    let db = FixtureDatabase::new();
    open_broken_then_close(&db, &helper);
    db.scan_workspace(&root);
    assert_eq!(helper_defs(&db), 1);
}

#[test]
fn helper_opened_broken_and_closed_during_the_scan_is_never_indexed() {
    let tmp = tempfile::tempdir().unwrap();
    let root = tmp.path().canonicalize().unwrap();
    let helper = make_workspace(&root);

    let db = Arc::new(FixtureDatabase::new());
    let scan_db = Arc::clone(&db);
    let scan_root = root.clone();
    let scan = std::thread::spawn(move || scan_db.scan_workspace(&scan_root));

    // wait until the scan's walk has analysed its first file
    while db.file_cache.is_empty() {
        std::thread::yield_now();
    }
    open_broken_then_close(&db, &helper);
    scan.join().unwrap();

    // The document is closed, the file on disk is valid and conftest.py star-imports it:
    // every sequential order of (scan, open, close) ends with helper_fixture indexed.
    assert_eq!(
        helper_defs(&db),
        1,
        "helpers.py (closed, valid on disk, imported by conftest.py) was never indexed; \
         file_cache has it: {}, file_definitions has it: {}",
        db.file_cache.contains_key(&helper),
        db.file_definitions.contains_key(&helper)
    );
    let test_file = root.join("pkg/test_uses.py");
    assert!(
        db.find_fixture_definition(&test_file, 0, 13).is_some(),
        "go-to-definition on helper_fixture in test_uses.py finds nothing"
    );
}
