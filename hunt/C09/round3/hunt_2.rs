// hunt_2: a conftest.py that is opened with a buffer that does not parse and closed again
// while the workspace scan is in its import phase makes the scan lose the helper modules
// (OTHER files) that this conftest star-imports: they are never indexed.
//
// didClose (FixtureDatabase::cleanup_file_cache) runs without the file's analysis lock and in
// this order: drop the cached AST (for an unparsable buffer: the "last valid" AST that stands
// for the conftest's imports), read the file from disk, and only then replace the cached text
// by the on-disk text (the behaviour while a scan is running). The import phase of the scan
// (scan_imported_fixture_modules) holds the analysis lock precisely to avoid reading a
// half-updated (text, last-valid-AST) pair - but didClose does not take it. Read in the
// window, the conftest has an unparsable text and no last valid AST: the scan skips it
// ("continue"), marks it processed and never comes back.
//
// Every sequential order of (scan, didOpen, didClose) indexes the helper modules.

use pytest_language_server::FixtureDatabase;
use std::path::{Path, PathBuf};
use std::sync::Arc;

const N: usize = 300;
const ROUNDS: usize = 40;

fn conftest_text() -> String {
    let mut s = String::from("import pytest\nfrom .helpers import *\n\n");
    for k in 0..40 {
        s.push_str(&format!(
            "@pytest.fixture\ndef conf_fixture_{}(shared_h):\n    return {}\n\n",
            k, k
        ));
    }
    s
}

fn make_workspace(root: &Path) -> Vec<(PathBuf, PathBuf)> {
    let mut out = Vec::new();
    for i in 0..N {
        let d = root.join(format!("pkg{:03}", i));
        std::fs::create_dir_all(&d).unwrap();
        std::fs::write(d.join("__init__.py"), "").unwrap();
        std::fs::write(
            d.join("helpers.py"),
            format!(
                "import pytest\n\n@pytest.fixture\ndef shared_h():\n    return 1\n\n@pytest.fixture\ndef helper_{}():\n    return 1\n",
                i
            ),
        )
        .unwrap();
        std::fs::write(d.join("conftest.py"), conftest_text()).unwrap();
        std::fs::write(
            d.join("test_it.py"),
            format!("def test_it(shared_h, helper_{}):\n    pass\n", i),
        )
        .unwrap();
        out.push((d.join("conftest.py"), d.join("helpers.py")));
    }
    out
}

/// didOpen with a text that has a syntax error, then didClose without saving
/// (exactly what the server's did_open / did_close handlers call).
fn open_broken_then_close(db: &FixtureDatabase, conftest: &Path) {
    let broken = format!("{}def broken(:\n", conftest_text());
    db.document_opened(conftest);
    db.analyze_file(conftest.to_path_buf(), &broken);
    db.document_closed(conftest);
    db.cleanup_file_cache(conftest);
}

fn missing_helpers(db: &FixtureDatabase, files: &[(PathBuf, PathBuf)]) -> Vec<String> {
    let mut missing = Vec::new();
    for (i, (conftest, helper)) in files.iter().enumerate() {
        if !db.file_definitions.contains_key(helper) {
            let cached = db.file_cache.get(conftest).map(|t| t.value().clone());
            missing.push(format!(
                "helper_{i} and shared_h of {:?} are not indexed (shared_h has {} definitions instead of {}); \
                 text cached for its closed conftest.py: {}; AST cached for it: {}",
                helper,
                db.definitions.get("shared_h").map(|d| d.len()).unwrap_or(0),
                N,
                match cached {
                    None => "none".to_string(),
                    Some(t) if t.ends_with("def broken(:\n") =>
                        "the closed document's unparsable buffer".to_string(),
                    Some(_) => "the on-disk text".to_string(),
                },
                db.ast_cache.contains_key(conftest),
            ));
        }
    }
    missing
}

#[test]
fn control_sequential_orders() {
    let tmp = tempfile::tempdir().unwrap();
    let root = tmp.path().canonicalize().unwrap();
    let files = make_workspace(&root);
    // the editor events before the scan
    let db = FixtureDatabase::new();
    for (c, _) in &files {
        open_broken_then_close(&db, c);
    }
    db.scan_workspace(&root);
    assert!(missing_helpers(&db, &files).is_empty());
    // the editor events after the scan
    let db = FixtureDatabase::new();
    db.scan_workspace(&root);
    for (c, _) in &files {
        open_broken_then_close(&db, c);
    }
    assert!(missing_helpers(&db, &files).is_empty());
}

#[test]
fn conftest_opened_broken_and_closed_during_the_import_phase_loses_its_helper_modules() {
    for round in 0..ROUNDS {
        let tmp = tempfile::tempdir().unwrap();
        let root = tmp.path().canonicalize().unwrap();
        let files = make_workspace(&root);

        let db = Arc::new(FixtureDatabase::new());
        let scan_db = Arc::clone(&db);
        let scan_root = root.clone();
        let scan = std::thread::spawn(move || scan_db.scan_workspace(&scan_root));

        // The walk has cached every conftest.py and test file: the import phase is next
        while db.file_cache.len() < 2 * N {
            std::thread::yield_now();
        }
        // The editor opens and closes conftest.py files while the import phase runs
        let mut events = 0;
        for (c, _) in files.iter().rev() {
            if scan.is_finished() {
                break;
            }
            open_broken_then_close(&db, c);
            events += 1;
        }
        scan.join().unwrap();

        let missing = missing_helpers(&db, &files);
        assert!(
            missing.is_empty(),
            "round {round} ({events} didOpen+didClose pairs delivered during the import phase): \
             {} helper module(s) lost:\n{:#?}",
            missing.len(),
            missing
        );
    }
}
