// exploratory stress: scan + concurrent edits, compare with a sequential run
use pytest_language_server::FixtureDatabase;
use std::collections::BTreeSet;
use std::path::{Path, PathBuf};
use std::sync::Arc;

fn snapshot(db: &FixtureDatabase) -> (BTreeSet<String>, BTreeSet<String>, BTreeSet<String>, BTreeSet<String>) {
    let mut defs = BTreeSet::new();
    for e in db.definitions.iter() {
        if e.value().is_empty() {
            defs.insert(format!("EMPTY {}", e.key()));
        }
        let mut seen = BTreeSet::new();
        for d in e.value().iter() {
            let s = format!("{} {:?}:{} deps={:?}", d.name, d.file_path, d.line, d.dependencies);
            if !seen.insert(s.clone()) {
                defs.insert(format!("DUP {}", s));
            }
            defs.insert(s);
        }
    }
    let mut fdefs = BTreeSet::new();
    for e in db.file_definitions.iter() {
        for n in e.value().iter() {
            fdefs.insert(format!("{:?} {}", e.key(), n));
        }
    }
    let mut usages = BTreeSet::new();
    for e in db.usages.iter() {
        let mut seen = BTreeSet::new();
        for u in e.value().iter() {
            let s = format!("{} {:?}:{}:{}", u.name, u.file_path, u.line, u.start_char);
            if !seen.insert(s.clone()) {
                usages.insert(format!("DUP {}", s));
            }
            usages.insert(s);
        }
    }
    let mut rev = BTreeSet::new();
    for e in db.usage_by_fixture.iter() {
        if e.value().is_empty() {
            rev.insert(format!("EMPTY {}", e.key()));
        }
        let mut seen = BTreeSet::new();
        for (p, u) in e.value().iter() {
            let s = format!("{} {:?}:{}:{}", e.key(), p, u.line, u.start_char);
            if !seen.insert(s.clone()) {
                rev.insert(format!("DUP {}", s));
            }
            rev.insert(s);
        }
    }
    (defs, fdefs, usages, rev)
}

fn conftest(i: usize, variant: usize) -> String {
    let mut s = String::from("import pytest\n\n");
    if variant % 2 == 0 {
        s.push_str("@pytest.fixture\ndef shared_a():\n    return 1\n\n");
    }
    if variant % 3 != 1 {
        s.push_str("@pytest.fixture\ndef shared_b(shared_a):\n    return 2\n\n");
    }
    s.push_str(&format!("@pytest.fixture\ndef only_{}(shared_b, shared_c):\n    return 3\n\n", i));
    if variant % 2 == 1 {
        s.push_str("@pytest.fixture\ndef shared_c():\n    return 1\n\n");
    }
    s
}

fn testfile(i: usize, variant: usize) -> String {
    let mut s = String::from("import pytest\n\n");
    if variant % 2 == 1 {
        s.push_str("@pytest.fixture\ndef shared_a(shared_a):\n    return 1\n\n");
    }
    s.push_str(&format!("def test_x{}(shared_a, shared_b):\n    pass\n\n", i));
    if variant % 3 == 0 {
        s.push_str("def test_y(shared_c, only_1):\n    pass\n\n");
    }
    s
}

fn run_once(round: usize) {
    let tmp = tempfile::tempdir().unwrap();
    let root = tmp.path().canonicalize().unwrap();
    let n = 60;
    let mut files: Vec<(PathBuf, bool, usize)> = Vec::new();
    for i in 0..n {
        let d = root.join(format!("pkg{}", i));
        std::fs::create_dir_all(&d).unwrap();
        let c = d.join("conftest.py");
        std::fs::write(&c, conftest(i, i)).unwrap();
        files.push((c, true, i));
        let t = d.join(format!("test_m{}.py", i));
        std::fs::write(&t, testfile(i, i)).unwrap();
        files.push((t, false, i));
    }

    let db = Arc::new(FixtureDatabase::new());
    let db2 = Arc::clone(&db);
    let root2 = root.clone();
    let scan = std::thread::spawn(move || db2.scan_workspace(&root2));

    // edits
    let mut finals: Vec<(PathBuf, String)> = Vec::new();
    for (k, (p, is_conf, i)) in files.iter().enumerate() {
        if k % 3 != round % 3 {
            continue;
        }
        let mut last = String::new();
        for v in 0..4 {
            let text = if *is_conf { conftest(*i, i + v + 1) } else { testfile(*i, i + v + 1) };
            db.document_opened(p);
            db.analyze_file(p.clone(), &text);
            last = text;
        }
        finals.push((p.clone(), last));
    }
    scan.join().unwrap();

    // expected
    let exp = FixtureDatabase::new();
    for (p, _, _) in &files {
        let text = finals
            .iter()
            .find(|(q, _)| q == p)
            .map(|(_, t)| t.clone())
            .unwrap_or_else(|| std::fs::read_to_string(p).unwrap());
        exp.analyze_file(p.clone(), &text);
    }
    let a = snapshot(&db);
    let b = snapshot(&exp);
    let diff = |x: &BTreeSet<String>, y: &BTreeSet<String>, what: &str| {
        let only_x: Vec<_> = x.difference(y).collect();
        let only_y: Vec<_> = y.difference(x).collect();
        assert!(
            only_x.is_empty() && only_y.is_empty(),
            "{} differ (round {}): only concurrent {:#?}\nonly sequential {:#?}",
            what, round, only_x, only_y
        );
    };
    diff(&a.0, &b.0, "definitions");
    diff(&a.1, &b.1, "file_definitions");
    diff(&a.2, &b.2, "usages");
    diff(&a.3, &b.3, "usage_by_fixture");
    let _ = Path::new("");
}

#[test]
fn stress() {
    for round in 0..40 {
        run_once(round);
    }
}
