// exploratory stress 2: scan + concurrent open/change/close with helper imports
use pytest_language_server::FixtureDatabase;
use std::collections::BTreeSet;
use std::path::PathBuf;
use std::sync::Arc;

fn snapshot(db: &FixtureDatabase) -> BTreeSet<String> {
    let mut out = BTreeSet::new();
    for e in db.definitions.iter() {
        if e.value().is_empty() {
            out.insert(format!("EMPTY {}", e.key()));
        }
        let mut seen = BTreeSet::new();
        for d in e.value().iter() {
            let s = format!(
                "DEF {} {:?}:{} plugin={} tp={}",
                d.name, d.file_path, d.line, d.is_plugin, d.is_third_party
            );
            if !seen.insert(s.clone()) {
                out.insert(format!("DUP {}", s));
            }
            out.insert(s);
        }
    }
    for e in db.file_definitions.iter() {
        for n in e.value().iter() {
            out.insert(format!("FDEF {:?} {}", e.key(), n));
        }
    }
    for e in db.usages.iter() {
        let mut seen = BTreeSet::new();
        for u in e.value().iter() {
            let s = format!("USE {} {:?}:{}:{}", u.name, u.file_path, u.line, u.start_char);
            if !seen.insert(s.clone()) {
                out.insert(format!("DUP {}", s));
            }
            out.insert(s);
        }
    }
    for e in db.usage_by_fixture.iter() {
        let mut seen = BTreeSet::new();
        for (p, u) in e.value().iter() {
            let s = format!("REV {} {:?}:{}:{}", e.key(), p, u.line, u.start_char);
            if !seen.insert(s.clone()) {
                out.insert(format!("DUP {}", s));
            }
            out.insert(s);
        }
    }
    out
}

#[derive(Clone)]
enum Ev {
    Open(PathBuf, String),
    Change(PathBuf, String),
    Close(PathBuf),
}

fn apply(db: &FixtureDatabase, ev: &Ev) {
    match ev {
        Ev::Open(p, t) | Ev::Change(p, t) => {
            db.document_opened(p);
            db.analyze_file(p.clone(), t);
        }
        Ev::Close(p) => {
            db.document_closed(p);
            db.cleanup_file_cache(p);
        }
    }
}

fn run_once(round: usize) {
    let tmp = tempfile::tempdir().unwrap();
    let root = tmp.path().canonicalize().unwrap();
    let n = 150;
    let mut events: Vec<Ev> = Vec::new();
    for i in 0..n {
        let d = root.join(format!("pkg{}", i));
        std::fs::create_dir_all(&d).unwrap();
        std::fs::write(d.join("__init__.py"), "").unwrap();
        let helper = d.join("helpers.py");
        let helper2 = d.join("deep.py");
        let helper_text = format!(
            "import pytest\nfrom .deep import *\n\n@pytest.fixture\ndef shared_h():\n    return 1\n\n@pytest.fixture\ndef helper_{}(shared_h):\n    return 1\n",
            i
        );
        std::fs::write(&helper, &helper_text).unwrap();
        std::fs::write(
            &helper2,
            "import pytest\n\n@pytest.fixture\ndef shared_deep():\n    return 1\n",
        )
        .unwrap();
        std::fs::write(
            d.join("extra.py"),
            "import pytest\nfrom .extra2 import *\n\n@pytest.fixture\ndef shared_extra(shared_h):\n    return 1\n",
        )
        .unwrap();
        std::fs::write(
            d.join("extra2.py"),
            "import pytest\n\n@pytest.fixture\ndef shared_extra2():\n    return 1\n",
        )
        .unwrap();
        let c = d.join("conftest.py");
        let conf_text = "import pytest\nfrom .helpers import *\n\n@pytest.fixture\ndef shared_a(shared_h):\n    return 1\n".to_string();
        std::fs::write(&c, &conf_text).unwrap();
        let t = d.join(format!("test_m{}.py", i));
        let test_text = "def test_x(shared_a, shared_h, shared_deep):\n    pass\n".to_string();
        std::fs::write(&t, &test_text).unwrap();

        match (i + round) % 5 {
            0 => {
                // helper opened unchanged, closed
                events.push(Ev::Open(helper.clone(), helper_text.clone()));
                events.push(Ev::Close(helper.clone()));
            }
            1 => {
                // conftest edited to unparsable and back to the disk text, closed
                events.push(Ev::Open(c.clone(), conf_text.clone()));
                events.push(Ev::Change(c.clone(), format!("{}def broken(:\n", conf_text)));
                if i % 2 == 0 {
                    events.push(Ev::Change(c.clone(), conf_text.clone()));
                    events.push(Ev::Close(c.clone()));
                } else {
                    // ends importing one more module, stays open
                    events.push(Ev::Change(c.clone(), format!("from .extra import *\n{}", conf_text)));
                }
            }
            2 => {
                // test edited (stays open)
                events.push(Ev::Open(t.clone(), test_text.clone()));
                events.push(Ev::Change(
                    t.clone(),
                    "import pytest\nfrom .extra import shared_extra\n\n@pytest.fixture\ndef shared_a(shared_a):\n    return 2\n\ndef test_x(shared_a, shared_extra):\n    pass\n".to_string(),
                ));
            }
            3 => {
                // deep helper opened, stays open with a change
                events.push(Ev::Open(helper2.clone(), "import pytest\n\n@pytest.fixture\ndef shared_deep():\n    return 1\n\n@pytest.fixture\ndef shared_h():\n    return 5\n".to_string()));
            }
            4 => {
                match (i / 5 + round) % 3 {
                    0 => {
                        // helper opened broken, stays open
                        events.push(Ev::Open(helper.clone(), format!("{}def broken(:\n", helper_text)));
                    }
                    1 => {
                        // conftest opened broken, closed
                        events.push(Ev::Open(c.clone(), format!("{}def broken(:\n", conf_text)));
                        events.push(Ev::Close(c.clone()));
                    }
                    _ => {
                        // test opened broken, closed
                        events.push(Ev::Open(t.clone(), format!("{}def broken(:\n", test_text)));
                        events.push(Ev::Close(t.clone()));
                    }
                }
            }
            _ => {}
        }
    }

    let exp = FixtureDatabase::new();
    let t0 = std::time::Instant::now();
    exp.scan_workspace(&root);
    let quiet = t0.elapsed();
    for ev in &events {
        apply(&exp, ev);
    }

    let db = Arc::new(FixtureDatabase::new());
    let db2 = Arc::clone(&db);
    let root2 = root.clone();
    let scan = std::thread::spawn(move || db2.scan_workspace(&root2));
    let start = std::time::Instant::now();
    let step = quiet.mul_f64(1.3) / (events.len() as u32);
    for (k, ev) in events.iter().enumerate() {
        let due = step * (k as u32);
        while start.elapsed() < due && !scan.is_finished() {
            std::thread::yield_now();
        }
        apply(&db, ev);
    }
    scan.join().unwrap();
    let a = snapshot(&db);
    let b = snapshot(&exp);
    let only_a: Vec<_> = a.difference(&b).collect();
    let only_b: Vec<_> = b.difference(&a).collect();
    if !(only_a.is_empty() && only_b.is_empty()) {
        let mut pk: BTreeSet<String> = BTreeSet::new();
        for l in only_a.iter().chain(only_b.iter()) {
            if let Some(ix) = l.find("/pkg") {
                let num: String = l[ix + 4..].chars().take_while(|c| c.is_ascii_digit()).collect();
                let i: usize = num.parse().unwrap();
                pk.insert(format!("pkg{} case {} sub {}", i, (i + round) % 5, (i / 5 + round) % 3));
            }
        }
        println!("round {}: DIFF in {:?}\n only concurrent {:#?}\n only sequential {:#?}", round, pk, only_a, only_b);
    }
}

#[test]
fn stress2() {
    for round in 0..30 {
        run_once(round);
    }
}
