//! C09 hunt 3: the analysis of one file READS the definitions of other files while they are
//! being written (undeclared-fixture detection: `is_available_fixture` inside
//! `scan_function_body_for_undeclared_fixtures`), so the per-file result stored in
//! `undeclared_fixtures` is a torn snapshot that no sequential order produces.
//!
//!   conftest.py  defines fx_0 .. fx_{N-1}
//!   test_t.py    def test_t(): fx_0; fx_1; ...; fx_{N-1}       (none declared as parameter)
//!
//! Sequential (conftest; test)  -> N undeclared-fixture records for test_t.py
//! Sequential (test; conftest)  -> 0 records
//! Concurrent                   -> anything in between (and which ones depends on timing).

use pytest_language_server::FixtureDatabase;
use std::fs;
use std::sync::{Arc, Barrier};

const N: usize = 400;

#[test]
fn undeclared_index_is_a_torn_snapshot() {
    let dir = tempfile::tempdir().unwrap();
    let root = dir.path().canonicalize().unwrap();

    let mut conftest = String::from("import pytest\n\n");
    let mut test = String::from("def test_t():\n");
    for i in 0..N {
        conftest.push_str(&format!("@pytest.fixture\ndef fx_{i}():\n    return {i}\n\n"));
        test.push_str(&format!("    fx_{i}\n"));
    }
    let conftest_path = root.join("conftest.py");
    let test_path = root.join("test_t.py");
    fs::write(&conftest_path, &conftest).unwrap();
    fs::write(&test_path, &test).unwrap();

    // The two sequential outcomes
    {
        let db = FixtureDatabase::new();
        db.analyze_file(conftest_path.clone(), &conftest);
        db.analyze_file(test_path.clone(), &test);
        assert_eq!(db.get_undeclared_fixtures(&test_path).len(), N);
        let db = FixtureDatabase::new();
        db.analyze_file(test_path.clone(), &test);
        db.analyze_file(conftest_path.clone(), &conftest);
        assert_eq!(db.get_undeclared_fixtures(&test_path).len(), 0);
    }

    let mut torn = Vec::new();
    let rounds = 200;
    for round in 0..rounds {
        // Sweep the relative timing: pad the test module with `round * 8` helper functions in
        // front of test_t, so that its body is scanned while conftest.py is being recorded.
        let mut padded = String::new();
        for k in 0..round * 8 {
            padded.push_str(&format!("def helper_{k}():\n    return {k}\n\n"));
        }
        padded.push_str(&test);
        let test = padded;
        let db = Arc::new(FixtureDatabase::new());
        let barrier = Arc::new(Barrier::new(2));
        let jobs = [
            (conftest_path.clone(), conftest.clone()),
            (test_path.clone(), test.clone()),
        ];
        let handles: Vec<_> = jobs
            .into_iter()
            .map(|(p, t)| {
                let db = Arc::clone(&db);
                let barrier = Arc::clone(&barrier);
                std::thread::spawn(move || {
                    barrier.wait();
                    db.analyze_file(p, &t);
                })
            })
            .collect();
        for h in handles {
            h.join().unwrap();
        }
        let n = db.get_undeclared_fixtures(&test_path).len();
        if n != 0 && n != N {
            torn.push((round, n));
        }
    }
    assert!(
        torn.is_empty(),
        "{} of {} rounds: undeclared_fixtures[test_t.py] has neither 0 nor {} records \
         (round, records): {:?}",
        torn.len(),
        rounds,
        N,
        &torn[..torn.len().min(10)]
    );
}

/// Same thing through the real parallel workspace scan.
#[test]
fn undeclared_index_after_workspace_scan() {
    let mut torn = Vec::new();
    let rounds = 40;
    for round in 0..rounds {
        let dir = tempfile::tempdir().unwrap();
        let root = dir.path().canonicalize().unwrap();
        let mut conftest = String::from("import pytest\n\n");
        let mut test = String::new();
        for k in 0..round * 40 {
            test.push_str(&format!("def helper_{k}():\n    return {k}\n\n"));
        }
        test.push_str("def test_t():\n");
        for i in 0..N {
            conftest.push_str(&format!("@pytest.fixture\ndef fx_{i}():\n    return {i}\n\n"));
            test.push_str(&format!("    fx_{i}\n"));
        }
        fs::write(root.join("conftest.py"), &conftest).unwrap();
        fs::write(root.join("test_t.py"), &test).unwrap();
        let db = FixtureDatabase::new();
        db.scan_workspace(&root);
        let n = db.get_undeclared_fixtures(&root.join("test_t.py")).len();
        if n != 0 && n != N {
            torn.push((round, n));
        }
    }
    assert!(
        torn.is_empty(),
        "{} of {} scans: undeclared_fixtures[test_t.py] has neither 0 nor {} records: {:?}",
        torn.len(),
        rounds,
        N,
        &torn[..torn.len().min(10)]
    );
}
