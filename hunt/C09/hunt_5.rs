//! C09 hunt 5 (adjacent: two workspace paths, one canonical file): the parallel scan collects
//! paths without de-duplicating them by canonical path, then analyses each with
//! `analyze_file_fresh` (no clean-up). A conftest.py shared between two packages through a
//! symlink (pkg_b/conftest.py -> ../pkg_a/conftest.py) is therefore analysed twice - possibly by
//! two rayon workers at the same time - and its definitions are duplicated; when the two
//! workers overlap, `usages[file]` and `usage_by_fixture` also disagree with each other.

#![cfg(unix)]

use pytest_language_server::FixtureDatabase;
use std::fs;

#[test]
fn symlinked_conftest_is_indexed_twice() {
    let mut offenders = Vec::new();
    for round in 0..30 {
        let dir = tempfile::tempdir().unwrap();
        let root = dir.path().canonicalize().unwrap();
        fs::create_dir_all(root.join("pkg_a")).unwrap();
        fs::create_dir_all(root.join("pkg_b")).unwrap();
        let mut conftest = String::from("import pytest\n\n@pytest.fixture\ndef base():\n    return 0\n\n");
        for i in 0..60 {
            conftest.push_str(&format!("@pytest.fixture\ndef fx_{i}(base):\n    return {i}\n\n"));
        }
        fs::write(root.join("pkg_a/conftest.py"), &conftest).unwrap();
        std::os::unix::fs::symlink("../pkg_a/conftest.py", root.join("pkg_b/conftest.py")).unwrap();
        fs::write(root.join("pkg_a/test_a.py"), "def test_a(fx_0):\n    pass\n").unwrap();
        fs::write(root.join("pkg_b/test_b.py"), "def test_b(fx_0):\n    pass\n").unwrap();

        let db = FixtureDatabase::new();
        db.scan_workspace(&root);

        let canonical = root.join("pkg_a/conftest.py");
        let defs = db.definitions.get("fx_0").map(|d| d.len()).unwrap_or(0);
        let per_file = db.usages.get(&canonical).map(|u| u.len()).unwrap_or(0);
        let reverse = db
            .usage_by_fixture
            .get("base")
            .map(|u| u.iter().filter(|(p, _)| *p == canonical).count())
            .unwrap_or(0);
        if defs != 1 || per_file != 60 || reverse != 60 {
            offenders.push((round, defs, per_file, reverse));
        }
    }
    assert!(
        offenders.is_empty(),
        "expected 1 definition of fx_0 and 60 usages of `base` in conftest.py (both indexes); \
         (round, definitions[fx_0], usages[conftest], usage_by_fixture[base]) = {:?}",
        offenders
    );
}
