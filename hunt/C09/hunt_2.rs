//! C09 hunt 2: two concurrent analyses of DISTINCT files (test_x.py, test_y.py) that both start
//! importing the same not-yet-indexed module (shared_fixtures.py). Each analysis follows the
//! import (`analyze_unseen_imported_modules`): check "already indexed?" -> read -> analyse.
//! The check and the analysis are not atomic, so both threads analyse shared_fixtures.py, both
//! run `cleanup_definitions_for_file` before either has recorded anything, and every
//! definition / usage of shared_fixtures.py ends up twice in the index.
//!
//! Any sequential order (X then Y, or Y then X) leaves exactly one definition per fixture.

use pytest_language_server::FixtureDatabase;
use std::fs;
use std::sync::{Arc, Barrier};

const N_FIXTURES: usize = 40;

#[test]
fn two_files_start_importing_the_same_unseen_module() {
    let dir = tempfile::tempdir().unwrap();
    let root = dir.path().canonicalize().unwrap();
    fs::write(root.join("__init__.py"), "").unwrap();

    let mut shared = String::from("import pytest\n\n");
    shared.push_str("@pytest.fixture\ndef base():\n    return 0\n\n");
    for i in 0..N_FIXTURES {
        shared.push_str(&format!(
            "@pytest.fixture\ndef shared_fx_{i}(base):\n    return {i}\n\n"
        ));
    }
    fs::write(root.join("shared_fixtures.py"), &shared).unwrap();
    let shared_path = root.join("shared_fixtures.py");

    let x_path = root.join("test_x.py");
    let y_path = root.join("test_y.py");
    let x_text = "from .shared_fixtures import *\n\ndef test_x(shared_fx_0):\n    pass\n";
    let y_text = "from .shared_fixtures import *\n\ndef test_y(shared_fx_0):\n    pass\n";
    fs::write(&x_path, x_text).unwrap();
    fs::write(&y_path, y_text).unwrap();

    // Sequential reference
    {
        let db = FixtureDatabase::new();
        db.analyze_file(x_path.clone(), x_text);
        db.analyze_file(y_path.clone(), y_text);
        assert_eq!(db.definitions.get("shared_fx_0").unwrap().len(), 1);
        assert_eq!(db.usage_by_fixture.get("base").unwrap().len(), N_FIXTURES);
    }

    let mut bad = Vec::new();
    let rounds = 300;
    for round in 0..rounds {
        let db = Arc::new(FixtureDatabase::new());
        let barrier = Arc::new(Barrier::new(2));
        let handles: Vec<_> = [(x_path.clone(), x_text), (y_path.clone(), y_text)]
            .into_iter()
            .map(|(p, t)| {
                let db = Arc::clone(&db);
                let barrier = Arc::clone(&barrier);
                std::thread::spawn(move || {
                    barrier.wait();
                    db.analyze_file(p, t);
                })
            })
            .collect();
        for h in handles {
            h.join().unwrap();
        }

        let defs = db.definitions.get("shared_fx_0").map(|d| d.len()).unwrap_or(0);
        let all_defs: usize = (0..N_FIXTURES)
            .map(|i| {
                db.definitions
                    .get(&format!("shared_fx_{i}"))
                    .map(|d| d.len())
                    .unwrap_or(0)
            })
            .sum();
        let base_usages = db.usage_by_fixture.get("base").map(|u| u.len()).unwrap_or(0);
        let per_file_usages = db.usages.get(&shared_path).map(|u| u.len()).unwrap_or(0);
        if all_defs != N_FIXTURES || base_usages != N_FIXTURES || per_file_usages != N_FIXTURES {
            bad.push((round, defs, all_defs, base_usages, per_file_usages));
        }
    }

    assert!(
        bad.is_empty(),
        "{} of {} rounds left a non-sequential index; expected per round: {n} definitions, {n} \
         usages of `base` in usage_by_fixture and in usages[shared_fixtures.py].\n\
         first offenders (round, defs of shared_fx_0, total defs, usage_by_fixture[base], usages[shared]):\n{:?}",
        bad.len(),
        rounds,
        &bad[..bad.len().min(8)],
        n = N_FIXTURES
    );
}
