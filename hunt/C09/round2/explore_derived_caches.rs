// exploratory: derived caches after concurrent re-analyses with concurrent readers
use pytest_language_server::FixtureDatabase;
use std::path::PathBuf;
use std::sync::atomic::{AtomicBool, Ordering};
use std::sync::Arc;

fn helper(i: usize, k: usize) -> String {
    let mut s = String::from("import pytest\n\n");
    if k % 2 == 0 {
        s.push_str("@pytest.fixture\ndef shared(dep):\n    return 1\n\n");
    }
    s.push_str(&format!("@pytest.fixture\ndef own_{i}_{}(shared):\n    return 1\n\n", k % 3));
    if k % 3 == 0 {
        s.push_str("@pytest.fixture\ndef dep(shared):\n    return 1\n\n");
    }
    s
}

#[test]
fn caches_after_concurrency() {
    let dir = tempfile::tempdir().unwrap();
    let root = dir.path().canonicalize().unwrap();
    let n = 4usize;
    let helpers: Vec<PathBuf> = (0..n).map(|i| root.join(format!("d{i}/helpers.py"))).collect();
    let conftests: Vec<PathBuf> = (0..n).map(|i| root.join(format!("d{i}/conftest.py"))).collect();
    let tests: Vec<PathBuf> = (0..n).map(|i| root.join(format!("d{i}/test_x.py"))).collect();
    for i in 0..n {
        std::fs::create_dir_all(root.join(format!("d{i}"))).unwrap();
        std::fs::write(&helpers[i], helper(i, 0)).unwrap();
        std::fs::write(&conftests[i], "from .helpers import *\n").unwrap();
        std::fs::write(&tests[i], "def test_x(shared, dep):\n    pass\n").unwrap();
    }
    std::fs::write(root.join("conftest.py"), "import pytest\n\n@pytest.fixture\ndef shared():\n    return 0\n").unwrap();
    for round in 0..150 {
        let db = Arc::new(FixtureDatabase::new());
        db.scan_workspace(&root);
        let stop = Arc::new(AtomicBool::new(false));
        let mut hs = vec![];
        for i in 0..n {
            let db = Arc::clone(&db);
            let p = helpers[i].clone();
            hs.push(std::thread::spawn(move || {
                for k in 0..15 {
                    db.analyze_file(p.clone(), &helper(i, k + i));
                }
                db.analyze_file(p.clone(), &helper(i, i));
            }));
        }
        let readers: Vec<_> = (0..2)
            .map(|r| {
                let db = Arc::clone(&db);
                let stop = Arc::clone(&stop);
                let tests = tests.clone();
                let conftests = conftests.clone();
                std::thread::spawn(move || {
                    let mut j = r;
                    while !stop.load(Ordering::Relaxed) {
                        let t = &tests[j % tests.len()];
                        let _ = db.get_available_fixtures(t);
                        let _ = db.detect_fixture_cycles_in_file(&conftests[j % tests.len()]);
                        let _ = db.is_fixture_imported_in_file("shared", &conftests[j % tests.len()]);
                        j += 1;
                    }
                })
            })
            .collect();
        for h in hs {
            h.join().unwrap();
        }
        stop.store(true, Ordering::Relaxed);
        for r in readers {
            r.join().unwrap();
        }
        let exp = FixtureDatabase::new();
        exp.scan_workspace(&root);
        for i in 0..n {
            exp.analyze_file(helpers[i].clone(), &helper(i, i));
        }
        for i in 0..n {
            let view = |db: &FixtureDatabase| {
                let mut v: Vec<String> = db
                    .get_available_fixtures(&tests[i])
                    .into_iter()
                    .map(|d| format!("{}@{}:{}", d.name, d.file_path.display(), d.line))
                    .collect();
                v.sort();
                let mut c: Vec<String> = db
                    .detect_fixture_cycles_in_file(&helpers[i])
                    .into_iter()
                    .map(|c| format!("{:?}@{}", c.cycle_path, c.fixture.line))
                    .collect();
                c.sort();
                let r = db
                    .find_fixture_definition(&tests[i], 0, 11)
                    .map(|d| (d.file_path, d.line));
                (v, c, db.is_fixture_imported_in_file("shared", &conftests[i]), db.is_fixture_imported_in_file("dep", &conftests[i]), r)
            };
            assert_eq!(view(&db), view(&exp), "round {round} dir {i}");
        }
    }
}
