// hunt_2: a helper module that is open in the editor with text that does not parse (e.g. a
// dirty buffer restored at start-up) is never indexed from its on-disk version when the
// scan (or a notification) reaches it by following an import: the unparsable buffer sitting
// in the text cache is mistaken for "somebody else is analysing this module".
// For a conftest.py / test_*.py in the same state the scan's walk does index the on-disk
// version (commit "a document opened with text that does not parse keeps its on-disk
// version in effect").
use pytest_language_server::FixtureDatabase;
use std::path::Path;

const HELPERS: &str = "import pytest\n\n@pytest.fixture\ndef helper_fx():\n    return 1\n";
const HELPERS_BROKEN: &str =
    "import pytest\n\n@pytest.fixture\ndef helper_fx():\n    return 1\n\ndef oops(:\n";

fn did_open(db: &FixtureDatabase, path: &Path, text: &str) {
    db.document_opened(path);
    db.analyze_file(path.to_path_buf(), text);
}

fn workspace(helper_name: &str) -> (tempfile::TempDir, std::path::PathBuf) {
    let dir = tempfile::tempdir().unwrap();
    let root = dir.path().canonicalize().unwrap();
    std::fs::write(
        root.join("conftest.py"),
        format!("from .{} import *\n", helper_name),
    )
    .unwrap();
    std::fs::write(root.join(format!("{}.py", helper_name)), HELPERS).unwrap();
    std::fs::write(
        root.join("test_main.py"),
        "def test_main(helper_fx):\n    assert helper_fx\n",
    )
    .unwrap();
    (dir, root)
}

#[test]
fn walk_file_with_unparsable_buffer_keeps_its_disk_version() {
    // contrast: the helper module is itself a file of the walk (test_*.py)
    let (_dir, root) = workspace("test_helpers");
    let db = FixtureDatabase::new();
    did_open(&db, &root.join("test_helpers.py"), HELPERS_BROKEN);
    db.scan_workspace(&root);
    assert!(db.definitions.contains_key("helper_fx"));
    assert!(db
        .find_fixture_definition(&root.join("test_main.py"), 0, 16)
        .is_some());
}

#[test]
fn imported_module_with_unparsable_buffer_keeps_its_disk_version() {
    let (_dir, root) = workspace("helpers");
    let db = FixtureDatabase::new();
    // did_open arrives first (during the scan's walk in a live server; before it here)
    did_open(&db, &root.join("helpers.py"), HELPERS_BROKEN);
    db.scan_workspace(&root);
    assert!(
        db.definitions.contains_key("helper_fx"),
        "helpers.py is valid on disk and imported by conftest.py: its fixtures must be \
         indexed although the editor's buffer does not parse"
    );
    assert!(db
        .find_fixture_definition(&root.join("test_main.py"), 0, 16)
        .is_some());
}

#[test]
fn notification_following_an_import_to_a_module_with_unparsable_buffer() {
    // no scan at all: an edit of conftest.py starts importing the module
    let (_dir, root) = workspace("helpers");
    let db = FixtureDatabase::new();
    did_open(&db, &root.join("helpers.py"), HELPERS_BROKEN);
    did_open(&db, &root.join("conftest.py"), "from .helpers import *\n");
    did_open(
        &db,
        &root.join("test_main.py"),
        "def test_main(helper_fx):\n    assert helper_fx\n",
    );
    assert!(
        db.definitions.contains_key("helper_fx"),
        "the import of conftest.py must be followed to the on-disk version of helpers.py"
    );
}
