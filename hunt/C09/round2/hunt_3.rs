// hunt_3: second symptom of "the text cache is the scan's record of what is indexed":
// a module that a workspace plugin pulls in through pytest_plugins / a star import and that
// the editor opened and closed (unmodified) before the scan's import phase keeps
// is_plugin = false, so its fixtures resolve nowhere.  The import phase re-analyses a module
// it newly marks as plugin only `if self.file_cache.contains_key(..)` - the close removed
// that entry, while the module's definitions are still in the index.
use pytest_language_server::FixtureDatabase;
use std::path::Path;
use std::sync::Arc;

const SHARED_PLUG: &str = "import pytest\n\n@pytest.fixture\ndef shared_plug_fx():\n    return 1\n";

fn build(root: &Path, filler: bool) {
    let w = |p: &str, s: String| {
        let p = root.join(p);
        std::fs::create_dir_all(p.parent().unwrap()).unwrap();
        std::fs::write(p, s).unwrap();
    };
    // a plugin package of the project itself, installed in editable mode
    w("plug/__init__.py", String::new());
    w(
        "plug/plugin.py",
        "import pytest\npytest_plugins = [\"shared_plug\"]\n\n@pytest.fixture\ndef plug_fx():\n    return 1\n".to_string(),
    );
    w("shared_plug.py", SHARED_PLUG.to_string());
    w(
        "tests/test_main.py",
        "def test_main(shared_plug_fx, plug_fx):\n    pass\n".to_string(),
    );
    let sp = ".venv/lib/python3.12/site-packages";
    w(
        &format!("{sp}/plug-0.1.dist-info/entry_points.txt"),
        "[pytest11]\nplug = plug.plugin\n".to_string(),
    );
    w(
        &format!("{sp}/plug-0.1.dist-info/direct_url.json"),
        format!(
            "{{\"url\": \"file://{}\", \"dir_info\": {{\"editable\": true}}}}",
            root.display()
        ),
    );
    w(
        &format!("{sp}/__editable__.plug-0.1.pth"),
        format!("{}\n", root.display()),
    );
    if filler {
        for f in 0..150 {
            let mut s = String::from("import pytest\n\n");
            for k in 0..40 {
                s.push_str(&format!(
                    "@pytest.fixture\ndef builtin_{f}_{k}():\n    return {k}\n\n"
                ));
            }
            w(&format!("{sp}/_pytest/mod_{f}.py"), s);
        }
    }
}

fn did_open(db: &FixtureDatabase, path: &Path, text: &str) {
    db.document_opened(path);
    db.analyze_file(path.to_path_buf(), text);
}

fn did_close(db: &FixtureDatabase, path: &Path) {
    db.document_closed(path);
    db.cleanup_file_cache(path);
}

fn check(db: &FixtureDatabase, root: &Path, what: &str) {
    let flags: Vec<bool> = db
        .definitions
        .get("shared_plug_fx")
        .map(|d| d.iter().map(|d| d.is_plugin).collect())
        .unwrap_or_default();
    let resolved = db
        .find_fixture_definition(&root.join("tests/test_main.py"), 0, 14)
        .map(|d| d.file_path);
    eprintln!("{what}: is_plugin of shared_plug_fx = {flags:?}, test_main(shared_plug_fx) -> {resolved:?}");
    assert_eq!(flags, vec![true], "{what}");
    assert_eq!(resolved, Some(root.join("shared_plug.py")), "{what}");
}

#[test]
fn scan_alone_marks_the_module_as_plugin() {
    let dir = tempfile::tempdir().unwrap();
    let root = dir.path().canonicalize().unwrap();
    build(&root, false);
    let db = FixtureDatabase::new();
    db.scan_workspace(&root);
    check(&db, &root, "scan");
    did_open(&db, &root.join("shared_plug.py"), SHARED_PLUG);
    did_close(&db, &root.join("shared_plug.py"));
    check(&db, &root, "scan; open; close");
}

#[test]
fn open_and_close_before_the_import_phase() {
    let dir = tempfile::tempdir().unwrap();
    let root = dir.path().canonicalize().unwrap();
    build(&root, true);
    let module = root.join("shared_plug.py");

    let db = Arc::new(FixtureDatabase::new());
    let scan = {
        let db = Arc::clone(&db);
        let root = root.clone();
        std::thread::spawn(move || db.scan_workspace(&root))
    };
    // the editor opens and closes the (unmodified) module right after the server started
    did_open(&db, &module, SHARED_PLUG);
    did_close(&db, &module);
    scan.join().unwrap();
    check(&db, &root, "open+close during the scan");
}
